//@ inject: src/debugger/variable/value/serialize.rs
//@ anchor: src/debugger/variable/value/serialize.rs :: fn serialize_scalar_value
//@ fragment: UTF :: src/debugger/variable/value/serialize.rs :: fn serialize_scalar_value :: `let ch = if let Some(stripped) = input.strip_prefix('\'').and_then(|s| s.strip_suffix('\''))` .. `Ok((ch as u32).to_le_bytes().to_vec())`
//@ harness: name=c15_char_bytes prop=C15 unit=C15.char_bytes mode=complete fn="serialize_scalar_value (DW_ATE_UTF / DW_ATE_ASCII arm)" timeout=900
//@ assume: C15.char_bytes: oracle = the in-memory representation of a Rust `char` on x86-64: its Unicode scalar value as a little-endian u32 (4 bytes); the arm's statements are spliced verbatim into `utf_arm(input)`; the input text is the bare character or the character between single quotes (every `char`, symbolic)
//@ notcovered: the other encodings of serialize_scalar_value, how the arm is selected (ScalarType::encoding), composite serialisation around it
//
// Composite setVariable / setExpression on a `char` field writes the character's code point, not its UTF-8 encoding.
use super::*;

fn utf_arm(input: &str) -> Result<Vec<u8>, SerializeError> {
    /*@@FRAGMENT:UTF*/
}

#[kani::proof]
#[kani::unwind(10)]
fn c15_char_bytes() {
    let ch: char = kani::any();
    let quoted: bool = kani::any();
    let mut b = [0u8; 6];
    let text: &str = if quoted {
        b[0] = b'\'';
        let n = ch.encode_utf8(&mut b[1..5]).len();
        b[1 + n] = b'\'';
        core::str::from_utf8(&b[..n + 2]).unwrap()
    } else {
        let n = ch.encode_utf8(&mut b[..4]).len();
        core::str::from_utf8(&b[..n]).unwrap()
    };
    kani::assume(quoted || ch != '\'' );
    match utf_arm(text) {
        Ok(bytes) => {
            assert!(bytes.len() == 4, "C15.char_bytes.E1 a char occupies four bytes");
            assert!(u32::from_le_bytes([bytes[0], bytes[1], bytes[2], bytes[3]]) == ch as u32, "C15.char_bytes.E2 the bytes written are the code point as a little-endian u32 (what the debuggee reads back as this char)");
        }
        Err(e) => {
            core::mem::forget(e);
            assert!(false, "C15.char_bytes.E3 every single character (bare or quoted) is accepted");
        }
    }
}
