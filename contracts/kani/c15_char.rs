//@ inject: src/debugger/variable/value/serialize.rs
//@ anchor: src/debugger/variable/value/serialize.rs :: fn serialize_scalar_value
//@ fragment: UTF :: src/debugger/variable/value/serialize.rs :: fn serialize_scalar_value :: `^"expected char literal".to_string(), )); };` .. `^} Some(gimli::DW_ATE_signed) | Some(gimli::DW_ATE_signed_char) => {`
//@ harness: name=c15_char_bytes prop=C15 unit=C15.char_bytes mode=complete fn="serialize_scalar_value (DW_ATE_UTF / DW_ATE_ASCII arm, the statement that produces the bytes)" timeout=600
//@ assume: C15.char_bytes: oracle = the in-memory representation of a Rust `char` on x86-64: its Unicode scalar value as a little-endian u32 (4 bytes); everything after the `let ch = ..;` statement of the arm is spliced verbatim into `char_image(ch)`
//@ notcovered: the parsing of the character out of the input text in front of that statement (a harness over the whole arm with a symbolic char ran into the 900 s limit: str pattern search), the other encodings, how the arm is selected, composite serialisation around it
//
// Composite setVariable / setExpression on a `char` field writes the character's code point, not its UTF-8 encoding.
use super::*;

fn char_image(ch: char) -> Result<Vec<u8>, SerializeError> {
    /*@@FRAGMENT:UTF*/
}

#[kani::proof]
#[kani::unwind(6)]
fn c15_char_bytes() {
    let ch: char = kani::any();
    match char_image(ch) {
        Ok(bytes) => {
            assert!(bytes.len() == 4, "C15.char_bytes.E1 a char occupies four bytes");
            assert!(u32::from_le_bytes([bytes[0], bytes[1], bytes[2], bytes[3]]) == ch as u32, "C15.char_bytes.E2 the bytes written are the code point as a little-endian u32 (what the debuggee reads back as this char)");
        }
        Err(e) => {
            core::mem::forget(e);
            assert!(false, "C15.char_bytes.E3 the statement cannot fail");
        }
    }
}
