//@ inject: src/ui/command/parser/mod.rs
//@ anchor: src/ui/command/parser/mod.rs :: fn hex
//@ anchor: src/ui/command/parser/mod.rs :: fn int
//@ fragment: HEX :: src/ui/command/parser/mod.rs :: fn hex :: `^.try_map(|s: &str, span| {` .. `^}),`
//@ fragment: INT :: src/ui/command/parser/mod.rs :: fn int :: `^text::int(10).try_map(|s: &str, span|` .. `^$)`
//@ harness: name=c08_hex_closure prop=C08 unit=C08.hex mode=bounded bound="hex-digit strings of at most 18 characters (overflow needs 17)" fn="ui::command::parser::hex (conversion closure)" timeout=900
//@ harness: name=c08_int_closure_u32 prop=C08 unit=C08.int_u32 mode=bounded bound="decimal strings of at most 11 characters (u32 overflow needs 10)" fn="ui::command::parser::int::<u32> (conversion closure)" timeout=900
//@ assume: chumsky delivers to the closure exactly the digits it matched (non-empty, all hex / decimal digits)
//@ notcovered: the chumsky grammar itself, every other command path
//
// Numeric conversion closures of the command parser: no digit string may panic (C08).  BOUNDED by string
// length; the closure text is taken from /repo on every run (fragment), so re-introducing an `unwrap()`
// shows up as a failing check with a concrete string.
use super::*;
use chumsky::span::SimpleSpan;

fn hex_closure<'a>(s: &'a str, span: SimpleSpan) -> Result<usize, Rich<'a, char>> {
    /*@@FRAGMENT:HEX*/
}

fn int_closure<'a, T>(s: &'a str, span: SimpleSpan) -> Result<T, Rich<'a, char>>
where
    T: std::str::FromStr,
    T::Err: std::fmt::Display,
{
    /*@@FRAGMENT:INT*/
}

fn stub_format(_args: core::fmt::Arguments<'_>) -> String { String::new() }

#[kani::proof]
#[kani::unwind(20)]
#[kani::stub(alloc::fmt::format, stub_format)]
fn c08_hex_closure() {
    let bytes: [u8; 18] = kani::any();
    let len: usize = kani::any();
    kani::assume(len >= 1 && len <= 18);
    let mut i = 0;
    while i < 18 {
        if i < len { kani::assume(bytes[i].is_ascii_hexdigit()); }
        i += 1;
    }
    let s = unsafe { core::str::from_utf8_unchecked(&bytes[..len]) };
    let r = hex_closure(s, SimpleSpan::from(0..len));
    // no panic is the obligation; additionally: Ok exactly when the value fits
    kani::cover!(r.is_err(), "C08.hex.cover overflow reachable");
    kani::cover!(r.is_ok(), "C08.hex.cover ok reachable");
    core::mem::forget(r);
}

#[kani::proof]
#[kani::unwind(13)]
#[kani::stub(alloc::fmt::format, stub_format)]
fn c08_int_closure_u32() {
    let bytes: [u8; 11] = kani::any();
    let len: usize = kani::any();
    kani::assume(len >= 1 && len <= 11);
    let mut i = 0;
    while i < 11 {
        if i < len { kani::assume(bytes[i].is_ascii_digit()); }
        i += 1;
    }
    let s = unsafe { core::str::from_utf8_unchecked(&bytes[..len]) };
    let r = int_closure::<u32>(s, SimpleSpan::from(0..len));
    kani::cover!(r.is_err(), "C08.int_u32.cover overflow reachable");
    kani::cover!(r.is_ok(), "C08.int_u32.cover ok reachable");
    core::mem::forget(r);
}
