//@ inject: src/debugger/debugee/tracer.rs
//@ anchor: src/debugger/debugee/tracer.rs :: impl Tracer / fn apply_new_status
//@ anchor: src/debugger/debugee/tracer.rs :: impl Tracer / fn resume
//@ fragment: SIGARM :: src/debugger/debugee/tracer.rs :: impl Tracer / fn apply_new_status :: `if !TRANSPARENT_SIGNALS.contains(&signal) {` .. `Ok(Some(StopReason::SignalStop(pid, signal)))`
//@ harness: name=c10_tables prop=C10 unit=C10.tables mode=complete fn="QUIET_SIGNALS, TRANSPARENT_SIGNALS"
//@ harness: name=c10_push prop=C10 unit=C10.push mode=complete fn="Tracer::apply_new_status (signal-stop arm)" timeout=900
//@ assume: C10.push: `self.tracee_ctl.tracee_ensure_mut(pid).set_stop(..)` and `self.group_stop_interrupt(tcx, pid)` are replaced by recorders with the same call shape (std HashMap / ptrace behind them); the queue is a recorder with the call shape of VecDeque::push_back
//@ notcovered: the resume loop (queue pop, cont_stopped_ex over the thread HashMap, waitpid), signals arriving inside single_step, group-stop event absorption, multi-thread interleavings: whole-history accounting of deliveries is outside this family's reach
//
// Signal classification tables and the queueing step of a signal-delivery-stop (DESIGN 4.1, C10).
use super::*;

fn any_signal() -> Signal {
    let n: i32 = kani::any();
    kani::assume(n >= 1 && n <= 31);
    match Signal::try_from(n) {
        Ok(s) => s,
        Err(_) => { kani::assume(false); Signal::SIGHUP }
    }
}

#[kani::proof]
#[kani::unwind(10)]
fn c10_tables() {
    let s = any_signal();
    let quiet = matches!(s, Signal::SIGALRM | Signal::SIGURG | Signal::SIGCHLD | Signal::SIGIO | Signal::SIGVTALRM | Signal::SIGPROF);
    assert!(QUIET_SIGNALS.contains(&s) == quiet, "C10.tables.E1 the quiet signals are exactly SIGALRM, SIGURG, SIGCHLD, SIGIO, SIGVTALRM, SIGPROF");
    assert!(TRANSPARENT_SIGNALS.contains(&s) == (s == Signal::SIGINT), "C10.tables.E2 only SIGINT stops the program without being delivered");
    assert!(!(QUIET_SIGNALS.contains(&s) && TRANSPARENT_SIGNALS.contains(&s)), "C10.tables.E3 no signal is both quiet and transparent");
    kani::cover!(s == Signal::SIGPROF, "C10.tables.cover SIGPROF");
    kani::cover!(s == Signal::SIGSYS, "C10.tables.cover last signal");
}

struct TraceeRec { stop: Option<StopType> }
impl TraceeRec { fn set_stop(&mut self, t: StopType) { self.stop = Some(t); } }
struct CtlRec { tracee: TraceeRec, asked_pid: i32 }
impl CtlRec { fn tracee_ensure_mut(&mut self, pid: Pid) -> &mut TraceeRec { self.asked_pid = pid.as_raw(); &mut self.tracee } }
/// recorder with the call shape of VecDeque::push_back (std VecDeque is too heavy for CBMC here)
struct QueueRec { pushes: u32, last: Option<(Pid, Signal)> }
impl QueueRec { fn push_back(&mut self, x: (Pid, Signal)) { self.pushes += 1; self.last = Some(x); } }
struct TracerShim {
    inject_signal_queue: QueueRec,
    tracee_ctl: CtlRec,
    group_stops: u32,
    group_stop_initiator: i32,
}
impl TracerShim {
    fn group_stop_interrupt(&mut self, _tcx: (), initiator_pid: Pid) -> Result<(), Error> {
        self.group_stops += 1;
        self.group_stop_initiator = initiator_pid.as_raw();
        Ok(())
    }
    fn signal_arm(&mut self, tcx: (), pid: Pid, signal: Signal) -> Result<Option<StopReason>, Error> {
        /*@@FRAGMENT:SIGARM*/
    }
}

#[kani::proof]
#[kani::unwind(10)]
fn c10_push() {
    let signal = any_signal();
    let p: i32 = kani::any();
    let pid = Pid::from_raw(p);
    let mut t = TracerShim {
        inject_signal_queue: QueueRec { pushes: 0, last: None },
        tracee_ctl: CtlRec { tracee: TraceeRec { stop: None }, asked_pid: 0 },
        group_stops: 0,
        group_stop_initiator: 0,
    };
    let r = t.signal_arm((), pid, signal);
    if signal == Signal::SIGINT {
        assert!(t.inject_signal_queue.pushes == 0, "C10.push.E1 SIGINT is not queued for delivery");
    } else {
        assert!(t.inject_signal_queue.pushes == 1, "C10.push.E2 any other signal is queued exactly once");
        assert!(t.inject_signal_queue.last == Some((pid, signal)), "C10.push.E3 it is queued at the back, with the thread that received it");
    }
    match r {
        Ok(Some(StopReason::SignalStop(rp, rs))) => assert!(rp == pid && rs == signal, "C10.push.E5 the stop is reported with the receiving thread and the signal"),
        Ok(_) => panic!("C10.push.E5 the stop is reported with the receiving thread and the signal"),
        Err(e) => { core::mem::forget(e); panic!("C10.push.E5 the stop is reported with the receiving thread and the signal"); }
    }
    let quiet = matches!(signal, Signal::SIGALRM | Signal::SIGURG | Signal::SIGCHLD | Signal::SIGIO | Signal::SIGVTALRM | Signal::SIGPROF);
    assert!((t.group_stops == 1) == !quiet && t.group_stops <= 1, "C10.push.E6 the other threads are stopped iff the signal is not quiet");
    assert!(quiet || t.group_stop_initiator == p, "C10.push.E7 the group stop is initiated by the receiving thread");
    assert!(t.tracee_ctl.asked_pid == p && t.tracee_ctl.tracee.stop == Some(StopType::SignalStop(signal)), "C10.push.E8 the receiving thread is marked as stopped by this signal");
}
