//@ inject: src/debugger/register.rs :: mod debug
//@ anchor: src/debugger/register.rs :: mod debug / impl DebugControlRegister / fn dr_enabled
//@ anchor: src/debugger/register.rs :: mod debug / impl DebugControlRegister / fn configure_bp
//@ anchor: src/debugger/register.rs :: mod debug / impl DebugControlRegister / fn set_dr
//@ anchor: src/debugger/register.rs :: mod debug / impl DebugStatusRegister / fn detect_and_flush
//@ anchor: src/debugger/register.rs :: mod debug / impl TryFrom<u8> for BreakSize / fn try_from
//@ harness: name=c14_dr_enabled prop=C14 unit=C14.dr_enabled mode=complete fn="DebugControlRegister::dr_enabled"
//@ harness: name=c14_configure_bp prop=C14 unit=C14.configure_bp mode=complete fn="DebugControlRegister::configure_bp, BreakSize::try_from"
//@ harness: name=c14_set_dr prop=C14 unit=C14.set_dr mode=complete fn="DebugControlRegister::set_dr"
//@ harness: name=c14_detect_and_flush prop=C14 unit=C14.detect_and_flush mode=complete fn="DebugStatusRegister::detect_and_flush"
//@ harness: name=c14_break_size prop=C14 unit=C14.break_size mode=complete fn="BreakSize::try_from"
//
// Contracts for the DR6/DR7 bit-field functions of `register::debug`, for ALL register images.
// Oracle: Intel SDM vol. 3B 17.2.4 (DR7: L_i = bit 2i, G_i = bit 2i+1, LE = bit 8, GE = bit 9,
// R/W_i = bits 16+4i..17+4i, LEN_i = bits 18+4i..19+4i; LEN 00=1 byte, 01=2, 11=4, 10=8;
// R/W 01=write, 11=read/write) and 17.2.3 (DR6: B_i = bit i).  Typed here, not taken from the code.
use super::*;

pub(crate) fn sdm_l(dr7: usize, i: usize) -> bool { (dr7 >> (2 * i)) & 1 == 1 }
pub(crate) fn sdm_g(dr7: usize, i: usize) -> bool { (dr7 >> (2 * i + 1)) & 1 == 1 }
pub(crate) fn sdm_rw(dr7: usize, i: usize) -> usize { (dr7 >> (16 + 4 * i)) & 0b11 }
pub(crate) fn sdm_len(dr7: usize, i: usize) -> usize { (dr7 >> (18 + 4 * i)) & 0b11 }
pub(crate) fn sdm_len_code(bytes: u8) -> usize {
    match bytes { 1 => 0b00, 2 => 0b01, 4 => 0b11, 8 => 0b10, _ => unreachable!() }
}
pub(crate) fn sdm_rw_code(read_write: bool) -> usize { if read_write { 0b11 } else { 0b01 } }

pub(crate) fn any_dr() -> (DebugRegisterNumber, usize) {
    let n: usize = kani::any();
    kani::assume(n < 4);
    let dr = match n {
        0 => DebugRegisterNumber::DR0,
        1 => DebugRegisterNumber::DR1,
        2 => DebugRegisterNumber::DR2,
        _ => DebugRegisterNumber::DR3,
    };
    (dr, n)
}
pub(crate) fn any_cond() -> (BreakCondition, bool) {
    let rw: bool = kani::any();
    (if rw { BreakCondition::DataReadsWrites } else { BreakCondition::DataWrites }, rw)
}
pub(crate) fn any_size() -> (BreakSize, u8) {
    let b: u8 = kani::any();
    kani::assume(b == 1 || b == 2 || b == 4 || b == 8);
    match BreakSize::try_from(b) {
        Ok(s) => (s, b),
        Err(e) => { core::mem::forget(e); panic!("C14.break_size.E1: 1,2,4,8 must be accepted") }
    }
}

// ---------------------------------------------------------------- environment model (DESIGN 1.4)
// One thread's u_debugreg image: [DR0, DR1, DR2, DR3, DR6, DR7].
pub(crate) static mut IMG: [usize; 6] = [0; 6];
pub(crate) static mut CURRENT_CALLS: u32 = 0;
pub(crate) static mut CURRENT_FAILS: bool = false;
pub(crate) static mut SYNC_CALLS: u32 = 0;
pub(crate) static mut SYNC_IMG: [usize; 6] = [0; 6];
pub(crate) static mut SYNC_PID: i32 = 0;

pub(crate) fn stub_current(_pid: Pid) -> Result<HardwareDebugState, Error> {
    unsafe {
        CURRENT_CALLS += 1;
        if CURRENT_FAILS {
            return Err(Error::Ptrace(nix::errno::Errno::ESRCH));
        }
        Ok(HardwareDebugState {
            address_regs: [IMG[0], IMG[1], IMG[2], IMG[3]],
            dr6: DebugStatusRegister(IMG[4]),
            dr7: DebugControlRegister(IMG[5]),
        })
    }
}
pub(crate) fn stub_sync(this: &HardwareDebugState, pid: Pid) -> Result<(), Error> {
    unsafe {
        SYNC_CALLS += 1;
        SYNC_PID = pid.as_raw();
        SYNC_IMG = image_of(this);
    }
    Ok(())
}
pub(crate) fn image_of(s: &HardwareDebugState) -> [usize; 6] {
    [s.address_regs[0], s.address_regs[1], s.address_regs[2], s.address_regs[3], s.dr6.0, s.dr7.0]
}
pub(crate) fn state_of(img: [usize; 6]) -> HardwareDebugState {
    HardwareDebugState {
        address_regs: [img[0], img[1], img[2], img[3]],
        dr6: DebugStatusRegister(img[4]),
        dr7: DebugControlRegister(img[5]),
    }
}

// ---------------------------------------------------------------- leaf contracts

#[kani::proof]
fn c14_dr_enabled() {
    let r = DebugControlRegister(kani::any());
    let (dr, i) = any_dr();
    let global: bool = kani::any();
    let got = r.dr_enabled(dr, global);
    let want = if global { sdm_g(r.0, i) } else { sdm_l(r.0, i) };
    assert!(got == want, "C14.dr_enabled.E1 result is bit 2*dr+global of DR7");
    kani::cover!(got, "C14.dr_enabled.cover enabled reachable");
    kani::cover!(!got, "C14.dr_enabled.cover disabled reachable");
}

#[kani::proof]
fn c14_configure_bp() {
    let old: usize = kani::any();
    let mut r = DebugControlRegister(old);
    let (dr, i) = any_dr();
    let (cond, rw) = any_cond();
    let (size, bytes) = any_size();
    r.configure_bp(dr, cond, size);
    assert!(sdm_rw(r.0, i) == sdm_rw_code(rw), "C14.configure_bp.E1 R/W_i field holds the SDM code of the condition");
    assert!(sdm_len(r.0, i) == sdm_len_code(bytes), "C14.configure_bp.E2 LEN_i field holds the SDM code of the length");
    let field = 0xFusize << (16 + 4 * i);
    assert!(r.0 & !field == old & !field, "C14.configure_bp.E3 frame: every bit of DR7 outside R/W_i,LEN_i unchanged");
    kani::cover!(bytes == 8 && i == 3, "C14.configure_bp.cover");
}

#[kani::proof]
fn c14_set_dr() {
    let old: usize = kani::any();
    let mut r = DebugControlRegister(old);
    let (dr, i) = any_dr();
    let global: bool = kani::any();
    let enable: bool = kani::any();
    r.set_dr(dr, global, enable);
    let idx = 2 * i + global as usize;
    let det = if global { 9 } else { 8 };
    assert!(((r.0 >> idx) & 1 == 1) == enable, "C14.set_dr.E1 enable bit of the slot equals `enable`");
    let any_left = (0..4usize).any(|k| if global { sdm_g(r.0, k) } else { sdm_l(r.0, k) });
    let det_new = (r.0 >> det) & 1 == 1;
    let det_old = (old >> det) & 1 == 1;
    if enable {
        assert!(det_new, "C14.set_dr.E2 exact-breakpoint bit set when a slot is enabled");
    } else if !any_left {
        assert!(!det_new, "C14.set_dr.E3 exact-breakpoint bit cleared when no slot of that kind remains (no stale enable bits)");
    } else {
        assert!(det_new == det_old, "C14.set_dr.E4 exact-breakpoint bit unchanged while other slots remain");
    }
    let touched = (1usize << idx) | (1usize << det);
    assert!(r.0 & !touched == old & !touched, "C14.set_dr.E5 frame: all other DR7 bits unchanged");
    kani::cover!(!enable && !any_left, "C14.set_dr.cover last slot released");
    kani::cover!(!enable && any_left, "C14.set_dr.cover others remain");
}

#[kani::proof]
fn c14_detect_and_flush() {
    let old: usize = kani::any();
    let mut r = DebugStatusRegister(old);
    let got = r.detect_and_flush();
    match got {
        None => {
            assert!(old & 0xF == 0, "C14.detect_and_flush.E1 None only if B0..B3 are clear");
            assert!(r.0 == old, "C14.detect_and_flush.E2 None leaves DR6 unchanged");
        }
        Some(dr) => {
            let i = dr as usize;
            assert!(i < 4 && (old >> i) & 1 == 1, "C14.detect_and_flush.E3 reported slot had its B bit set");
            assert!(old & ((1usize << i) - 1) == 0, "C14.detect_and_flush.E4 reported slot is the least set one");
            assert!(r.0 == old & !(1usize << i), "C14.detect_and_flush.E5 exactly that B bit is cleared");
        }
    }
    assert!(got.is_none() == (old & 0xF == 0), "C14.detect_and_flush.E6 Some iff a B bit was set");
    kani::cover!(got.is_none(), "C14.detect_and_flush.cover none");
    kani::cover!(matches!(got, Some(DebugRegisterNumber::DR3)), "C14.detect_and_flush.cover dr3");
}

#[kani::proof]
fn c14_break_size() {
    let b: u8 = kani::any();
    let r = BreakSize::try_from(b);
    match r {
        Ok(s) => {
            assert!(b == 1 || b == 2 || b == 4 || b == 8, "C14.break_size.E2 only 1,2,4,8 are accepted");
            assert!(s as usize == sdm_len_code(b), "C14.break_size.E3 discriminant is the SDM LEN code");
        }
        Err(e) => {
            assert!(!(b == 1 || b == 2 || b == 4 || b == 8), "C14.break_size.E1 1,2,4,8 must be accepted");
            assert!(matches!(e, Error::WatchpointWrongSize), "C14.break_size.E4 other sizes are WatchpointWrongSize");
            core::mem::forget(e);
        }
    }
}
