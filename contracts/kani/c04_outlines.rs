//@ inject: src/debugger/debugee/dwarf/unit/mod.rs
//@ anchor: src/debugger/debugee/dwarf/unit/mod.rs :: impl BsUnit / fn find_place_by_pc
//@ anchor: src/debugger/debugee/dwarf/unit/mod.rs :: impl BsUnit / fn find_eb
//@ anchor: src/debugger/debugee/dwarf/unit/mod.rs :: impl BsUnit / fn find_exact_place_by_pc
//@ fragment: BSP_PC :: src/debugger/debugee/dwarf/unit/mod.rs :: impl BsUnit / fn find_place_by_pc :: `let pos = self` .. `;`
//@ fragment: BSP_EB :: src/debugger/debugee/dwarf/unit/mod.rs :: impl BsUnit / fn find_eb :: `let mut pos = self` .. `;`
//@ fragment: BS_EX :: src/debugger/debugee/dwarf/unit/mod.rs :: impl BsUnit / fn find_exact_place_by_pc :: `self.lines.binary_search_by_key(` .. `)`
//@ harness: name=c04_outline_bsearch_prev_pc prop=C04 unit=C04.outline.bsearch_prev(find_place_by_pc) mode=bounded bound="line tables of at most 4 rows, 3-bit addresses" fn="outlined expression O_bsearch_prev of find_place_by_pc" timeout=600
//@ harness: name=c04_outline_bsearch_prev_eb prop=C04 unit=C04.outline.bsearch_prev(find_eb) mode=bounded bound="line tables of at most 4 rows, 3-bit addresses" fn="outlined expression O_bsearch_prev of find_eb" timeout=600
//@ harness: name=c04_outline_bsearch_exact prop=C04 unit=C04.outline.bsearch(find_exact_place_by_pc) mode=bounded bound="line tables of at most 4 rows, 3-bit addresses" fn="outlined expression O_bsearch of find_exact_place_by_pc" timeout=600
//@ harness: name=c04_flags prop=C04 unit=C04.flags mode=complete fn="LineRow::{is_stmt,prolog_end,epilog_begin,end_sequence}, IS_STMT/PROLOG_END/EPILOG_BEGIN/END_SEQUENCE"
//
// BOUNDED validation of the contracts that the Verus unit C04.lines ASSUMES for the outlined std
// expressions.  The expression text is taken from /repo on every run (fragment), executed on the real
// LineRow type, and compared with an executable copy of the assumed `ensures`.  Not counted as proof.
use super::*;

struct Lines<'a> {
    lines: &'a [LineRow],
}

impl Lines<'_> {
    fn bsearch_prev_pc(&self, pc: u64) -> usize {
        /*@@FRAGMENT:BSP_PC*/
        pos
    }
    fn bsearch_prev_eb(&self, pc: u64) -> usize {
        /*@@FRAGMENT:BSP_EB*/
        pos
    }
    fn bsearch_exact(&self, pc: u64) -> Result<usize, usize> {
        /*@@FRAGMENT:BS_EX*/
    }
}

/// four rows with symbolic, sorted 3-bit addresses; callers take the first n (n concrete)
fn any_sorted_rows() -> [LineRow; 4] {
    let a: [u8; 4] = kani::any();
    kani::assume(a[0] < 8 && a[1] < 8 && a[2] < 8 && a[3] < 8);
    kani::assume(a[0] <= a[1] && a[1] <= a[2] && a[2] <= a[3]);
    [
        LineRow { address: a[0] as u64, file_index: 0, line: 0, column: 0, flags: 0 },
        LineRow { address: a[1] as u64, file_index: 0, line: 1, column: 0, flags: 0 },
        LineRow { address: a[2] as u64, file_index: 0, line: 2, column: 0, flags: 0 },
        LineRow { address: a[3] as u64, file_index: 0, line: 3, column: 0, flags: 0 },
    ]
}

fn adr(l: &Lines, k: usize) -> u64 { l.lines[k].address }

fn check_prev(l: &Lines, pc: u64, pos: usize) {
    let n = l.lines.len();
    if n == 0 {
        assert!(pos == 0, "C04.outline.bsearch_prev.A1 empty table gives 0");
        return;
    }
    assert!(pos < n, "C04.outline.bsearch_prev.A2 result is an index of the table");
    let mut exists = false;
    let mut k = 0;
    while k < 4 { if k < n && adr(l, k) == pc { exists = true; } k += 1; }
    if exists {
        assert!(adr(l, pos) == pc, "C04.outline.bsearch_prev.A3 an exact match is returned when one exists");
    } else {
        assert!(adr(l, pos) < pc || pos == 0, "C04.outline.bsearch_prev.A4 otherwise the row before the insertion point");
        let mut k = 0;
        while k < 4 {
            if k < n && k > pos { assert!(adr(l, k) > pc, "C04.outline.bsearch_prev.A5 every later row is above pc"); }
            k += 1;
        }
        if pos == 0 && adr(l, 0) > pc {
            let mut k = 0;
            while k < 4 { if k < n { assert!(adr(l, k) > pc, "C04.outline.bsearch_prev.A6 pc before the table: all rows above"); } k += 1; }
        }
    }
}

#[kani::proof]
#[kani::unwind(8)]
fn c04_outline_bsearch_prev_pc() {
    let rows = any_sorted_rows();
    let pc: u64 = kani::any();
    kani::assume(pc < 9);
    let mut n = 0;
    while n <= 4 {
        let l = Lines { lines: &rows[..n] };
        let pos = l.bsearch_prev_pc(pc);
        check_prev(&l, pc, pos);
        n += 1;
    }
}

#[kani::proof]
#[kani::unwind(8)]
fn c04_outline_bsearch_prev_eb() {
    let rows = any_sorted_rows();
    let pc: u64 = kani::any();
    kani::assume(pc < 9);
    let mut n = 0;
    while n <= 4 {
        let l = Lines { lines: &rows[..n] };
        let pos = l.bsearch_prev_eb(pc);
        check_prev(&l, pc, pos);
        n += 1;
    }
}

#[kani::proof]
#[kani::unwind(8)]
fn c04_outline_bsearch_exact() {
    let rows = any_sorted_rows();
    let pc: u64 = kani::any();
    kani::assume(pc < 9);
    let mut nn = 0;
    while nn <= 4 {
        let l = Lines { lines: &rows[..nn] };
        let n = nn;
        match l.bsearch_exact(pc) {
            Ok(p) => assert!(p < n && adr(&l, p) == pc, "C04.outline.bsearch.B1 Ok(p): row p has the key"),
            Err(p) => {
                assert!(p <= n, "C04.outline.bsearch.B2 Err(p): insertion point within bounds");
                let mut k = 0;
                while k < 4 {
                    if k < n && k < p { assert!(adr(&l, k) < pc, "C04.outline.bsearch.B3 rows before the insertion point are below the key"); }
                    if k < n && k >= p { assert!(adr(&l, k) > pc, "C04.outline.bsearch.B4 rows from the insertion point on are above the key"); }
                    k += 1;
                }
            }
        }
        nn += 1;
    }
}

/// C04.flags (complete: all 256 flag bytes): each accessor reports exactly its own DWARF row attribute bit,
/// the four bits are distinct (so the attributes are independent)
#[kani::proof]
fn c04_flags() {
    let f: u8 = kani::any();
    let r = LineRow { address: 0, file_index: 0, line: 0, column: 0, flags: f };
    assert!(r.is_stmt() == (f & IS_STMT != 0), "C04.flags.E1 is_stmt reads the IS_STMT bit");
    assert!(r.prolog_end() == (f & PROLOG_END != 0), "C04.flags.E2 prolog_end reads the PROLOG_END bit");
    assert!(r.epilog_begin() == (f & EPILOG_BEGIN != 0), "C04.flags.E3 epilog_begin reads the EPILOG_BEGIN bit");
    assert!(r.end_sequence() == (f & END_SEQUENCE != 0), "C04.flags.E4 end_sequence reads the END_SEQUENCE bit");
    let bits = [IS_STMT, PROLOG_END, EPILOG_BEGIN, END_SEQUENCE];
    let mut i = 0;
    while i < 4 {
        assert!(bits[i].count_ones() == 1, "C04.flags.E5 every flag is a single bit");
        let mut j = 0;
        while j < 4 { if i != j { assert!(bits[i] != bits[j], "C04.flags.E6 the four flags are distinct bits"); } j += 1; }
        i += 1;
    }
}
