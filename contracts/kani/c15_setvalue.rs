//@ inject: src/dap/yadap/session/data.rs
//@ anchor: src/dap/yadap/session/data.rs :: fn value_write_meta
//@ anchor: src/dap/yadap/session/data.rs :: fn parse_set_value
//@ fragment: KINDS :: src/dap/yadap/session/data.rs :: fn value_write_meta :: `^BsValue::Scalar(s) =>` .. `^_ => v .type_id()`
//@ harness: name=c15_scalar_width prop=C15 unit=C15.scalar_width mode=complete fn="value_write_meta (scalar arm)" timeout=600
//@ harness: name=c15_set_value_bytes prop=C15 unit=C15.set_value_bytes mode=bounded bound="the literal 7 for each of the 12 integer kinds" fn="parse_set_value" timeout=900 tier=thorough
//@ assume: the width check uses the input text \"1\" (parse_set_value's width depends on the kind only); the value -> kind table is spliced verbatim from value_write_meta
//@ notcovered: serialize_dap_value for composites (arrays: the element count is not checked against the array), truncation of out-of-range numbers by `as`, DAP variable lookup
//
// setVariable on a scalar writes exactly as many bytes as the variable occupies: the kind chosen for a value
// of each scalar type makes parse_set_value produce size_of that type bytes (so the whole value is written and
// no neighbouring byte is touched).
use super::*;
use debugger::variable::value::{ScalarValue, SupportedScalar};

/// same shape as the scalar arm of data::WriteMeta, without the Rc<ComplexType> of the composite arm
/// (its drop glue - a type graph with HashMaps - is what made CBMC run for 20 minutes)
enum LightMeta { Scalar { addr: usize, kind: ScalarKind } }

fn scalar_meta(s: &ScalarValue, addr: usize) -> Option<LightMeta> {
    use LightMeta as WriteMeta;   // the spliced arms construct `WriteMeta::Scalar { addr, kind }`
    (/*@@FRAGMENT:KINDS*/).0
}

fn kind_of(v: SupportedScalar) -> Option<ScalarKind> {
    let s = ScalarValue { value: Some(v), type_ident: Default::default(), type_id: None, raw_address: Some(0x1000) };
    let meta = scalar_meta(&s, 0x1000);
    core::mem::forget(s);
    match meta {
        Some(LightMeta::Scalar { addr, kind }) => {
            assert!(addr == 0x1000, "C15.scalar_width.E0 the write goes to the variable's own address");
            Some(kind)
        }
        None => None,
    }
}

/// bytes written for a kind = width of the Rust type of the same name (what parse_set_value produces: see its match arms)
fn kind_width(k: ScalarKind) -> usize {
    match k {
        ScalarKind::I8 | ScalarKind::U8 | ScalarKind::Bool => 1,
        ScalarKind::I16 | ScalarKind::U16 => 2,
        ScalarKind::I32 | ScalarKind::U32 | ScalarKind::F32 | ScalarKind::Char => 4,
        ScalarKind::I64 | ScalarKind::U64 | ScalarKind::Isize | ScalarKind::Usize | ScalarKind::F64 => 8,
        ScalarKind::I128 | ScalarKind::U128 => 16,
    }
}

#[kani::proof]
fn c15_scalar_width() {
    let which: u8 = kani::any();
    kani::assume(which < 16);
    let (v, want) = match which {
        0 => (SupportedScalar::I8(kani::any()), 1), 1 => (SupportedScalar::I16(kani::any()), 2), 2 => (SupportedScalar::I32(kani::any()), 4),
        3 => (SupportedScalar::I64(kani::any()), 8), 4 => (SupportedScalar::I128(kani::any()), 16), 5 => (SupportedScalar::Isize(kani::any()), 8),
        6 => (SupportedScalar::U8(kani::any()), 1), 7 => (SupportedScalar::U16(kani::any()), 2), 8 => (SupportedScalar::U32(kani::any()), 4),
        9 => (SupportedScalar::U64(kani::any()), 8), 10 => (SupportedScalar::U128(kani::any()), 16), 11 => (SupportedScalar::Usize(kani::any()), 8),
        12 => (SupportedScalar::F32(1.0), 4), 13 => (SupportedScalar::F64(1.0), 8), 14 => (SupportedScalar::Bool(kani::any()), 1),
        _ => (SupportedScalar::Char('a'), 4),
    };
    match kind_of(v) {
        Some(kind) => assert!(kind_width(kind) == want, "C15.scalar_width.E1 a scalar of each type is written with the kind of its own width (the whole value, no neighbouring byte)"),
        None => panic!("C15.scalar_width.E2 every scalar type has a write kind"),
    }
}

fn stub_format(_args: core::fmt::Arguments<'_>) -> String { String::new() }

/// parse_set_value produces exactly kind_width(kind) bytes (integer kinds, concrete literal)
#[kani::proof]
#[kani::unwind(45)]
#[kani::stub(alloc::fmt::format, stub_format)]
fn c15_set_value_bytes() {
    let kinds = [ScalarKind::I8, ScalarKind::U8, ScalarKind::I16, ScalarKind::U16, ScalarKind::I32, ScalarKind::U32,
                 ScalarKind::I64, ScalarKind::U64, ScalarKind::I128, ScalarKind::U128, ScalarKind::Isize, ScalarKind::Usize];
    let mut i = 0;
    while i < 12 {
        match parse_set_value(kinds[i], "7") {
            Ok(bytes) => {
                assert!(bytes.len() == kind_width(kinds[i]), "C15.set_value_bytes.E1 the literal is encoded with exactly the kind's width");
                assert!(bytes[0] == 7, "C15.set_value_bytes.E2 little-endian: the low byte comes first");
                let mut j = 1;
                while j < bytes.len() { assert!(bytes[j] == 0, "C15.set_value_bytes.E3 the remaining bytes of a small value are zero"); j += 1; }
                core::mem::forget(bytes);
            }
            Err(e) => { core::mem::forget(e); panic!("C15.set_value_bytes.E0 a small decimal literal is accepted for every integer kind"); }
        }
        i += 1;
    }
}
