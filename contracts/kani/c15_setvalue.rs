//@ inject: src/dap/yadap/session/data.rs
//@ anchor: src/dap/yadap/session/data.rs :: fn value_write_meta
//@ anchor: src/dap/yadap/session/data.rs :: fn parse_set_value
//@ fragment: KINDS :: src/dap/yadap/session/data.rs :: fn value_write_meta :: `^BsValue::Scalar(s) =>` .. `^_ => v .type_id()`
//@ harness: name=c15_scalar_width prop=C15 unit=C15.scalar_width mode=complete fn="value_write_meta (scalar arm), parse_set_value" timeout=1200
//@ assume: the width check uses the input text \"1\" (parse_set_value's width depends on the kind only); the value -> kind table is spliced verbatim from value_write_meta
//@ notcovered: serialize_dap_value for composites (arrays: the element count is not checked against the array), truncation of out-of-range numbers by `as`, DAP variable lookup
//
// setVariable on a scalar writes exactly as many bytes as the variable occupies: the kind chosen for a value
// of each scalar type makes parse_set_value produce size_of that type bytes (so the whole value is written and
// no neighbouring byte is touched).
use super::*;
use debugger::variable::value::{ScalarValue, SupportedScalar};

fn scalar_meta(s: &ScalarValue, addr: usize) -> Option<WriteMeta> {
    (/*@@FRAGMENT:KINDS*/).0
}

fn stub_format(_args: core::fmt::Arguments<'_>) -> String { String::new() }

fn width_of(v: SupportedScalar) -> Option<(usize, usize)> {
    let want = match &v {
        SupportedScalar::I8(_) | SupportedScalar::U8(_) | SupportedScalar::Bool(_) => 1,
        SupportedScalar::I16(_) | SupportedScalar::U16(_) => 2,
        SupportedScalar::I32(_) | SupportedScalar::U32(_) | SupportedScalar::F32(_) | SupportedScalar::Char(_) => 4,
        SupportedScalar::I64(_) | SupportedScalar::U64(_) | SupportedScalar::Isize(_) | SupportedScalar::Usize(_) | SupportedScalar::F64(_) => 8,
        SupportedScalar::I128(_) | SupportedScalar::U128(_) => 16,
        SupportedScalar::Empty() => 0,
    };
    let s = ScalarValue { value: Some(v), type_ident: Default::default(), type_id: None, raw_address: Some(0x1000) };
    let meta = scalar_meta(&s, 0x1000);
    core::mem::forget(s);
    match meta {
        Some(WriteMeta::Scalar { addr, kind }) => {
            assert!(addr == 0x1000, "C15.scalar_width.E0 the write goes to the variable's own address");
            match parse_set_value(kind, "1") {
                Ok(bytes) => { let n = bytes.len(); core::mem::forget(bytes); Some((want, n)) }
                Err(e) => { core::mem::forget(e); None }
            }
        }
        Some(other) => { core::mem::forget(other); None }
        None => None,
    }
}

#[kani::proof]
#[kani::unwind(40)]
#[kani::stub(alloc::fmt::format, stub_format)]
fn c15_scalar_width() {
    let which: u8 = kani::any();
    kani::assume(which < 16);
    let v = match which {
        0 => SupportedScalar::I8(kani::any()), 1 => SupportedScalar::I16(kani::any()), 2 => SupportedScalar::I32(kani::any()),
        3 => SupportedScalar::I64(kani::any()), 4 => SupportedScalar::I128(kani::any()), 5 => SupportedScalar::Isize(kani::any()),
        6 => SupportedScalar::U8(kani::any()), 7 => SupportedScalar::U16(kani::any()), 8 => SupportedScalar::U32(kani::any()),
        9 => SupportedScalar::U64(kani::any()), 10 => SupportedScalar::U128(kani::any()), 11 => SupportedScalar::Usize(kani::any()),
        12 => SupportedScalar::F32(1.0), 13 => SupportedScalar::F64(1.0), 14 => SupportedScalar::Bool(kani::any()),
        _ => SupportedScalar::Char('a'),
    };
    match width_of(v) {
        Some((want, got)) => assert!(want == got, "C15.scalar_width.E1 a scalar of each type is written with exactly size_of that type bytes"),
        None => panic!("C15.scalar_width.E2 every scalar type has a write kind and accepts the literal 1"),
    }
}
