//@ inject: src/debugger/debugee/tracee.rs
//@ anchor: src/debugger/debugee/tracee.rs :: impl Tracee / fn set_pc
//@ anchor: src/debugger/debugee/tracee.rs :: impl Tracee / fn pc
//@ harness: name=c15_set_pc prop=C15 unit=C15.set_pc mode=complete fn="Tracee::set_pc, Tracee::pc, RegisterMap::current, RegisterMap::persist" timeout=600
//@ assume: nix::sys::ptrace::getregs/setregs replaced by a one-thread register-file model
//
// A register write is visible to a subsequent read; nothing else in the register file changes.
use super::*;

static mut REGS: [u64; 27] = [0; 27];
static mut SETS: u32 = 0;

fn stub_getregs(_pid: Pid) -> nix::Result<nix::libc::user_regs_struct> {
    unsafe { Ok(core::mem::transmute(REGS)) }
}
fn stub_setregs(_pid: Pid, regs: nix::libc::user_regs_struct) -> nix::Result<()> {
    unsafe { SETS += 1; REGS = core::mem::transmute(regs); }
    Ok(())
}

#[kani::proof]
#[kani::stub(nix::sys::ptrace::getregs, stub_getregs)]
#[kani::stub(nix::sys::ptrace::setregs, stub_setregs)]
fn c15_set_pc() {
    let old: [u64; 27] = kani::any();
    unsafe { REGS = old; SETS = 0; }
    let t = Tracee { number: 0, pid: Pid::from_raw(kani::any()), status: TraceeStatus::Stopped(StopType::Interrupt) };
    let v: u64 = kani::any();
    let r = t.set_pc(v);
    assert!(r.is_ok(), "C15.set_pc.E0");
    core::mem::forget(r);
    let now = unsafe { REGS };
    let raw_old: nix::libc::user_regs_struct = unsafe { core::mem::transmute(old) };
    let raw_new: nix::libc::user_regs_struct = unsafe { core::mem::transmute(now) };
    assert!(raw_new.rip == v, "C15.set_pc.E1 the thread's rip is the written value");
    let mut o = raw_old;
    o.rip = v;
    let o_words: [u64; 27] = unsafe { core::mem::transmute(o) };
    assert!(o_words == now, "C15.set_pc.E2 every other register of the thread is unchanged");
    assert!(unsafe { SETS } == 1, "C15.set_pc.E3 exactly one PTRACE_SETREGS");
    match t.pc() {
        Ok(pc) => assert!(pc.as_u64() == v, "C15.set_pc.E4 a subsequent read returns the written value"),
        Err(e) => { core::mem::forget(e); panic!("C15.set_pc.E4 a subsequent read returns the written value"); }
    }
}
