//@ inject: src/debugger/debugee/tracee.rs
//@ anchor: src/debugger/debugee/tracee.rs :: struct TraceeCtl
//@ anchor: src/debugger/debugee/tracee.rs :: impl TraceeCtl / fn tracee_iter
//@ anchor: src/debugger/debugee/tracee.rs :: impl TraceeCtl / fn proc_pid
//
// Helper only (no harness): a TraceeCtl whose thread map is EMPTY, built without
// RandomState::new (which reaches getrandom).  A non-empty std HashMap is outside CBMC's
// practical reach (DESIGN 2/C14); what this leaves unverified is listed in the evidence.
use super::*;

pub(crate) fn empty_ctl(pid: Pid) -> TraceeCtl {
    let hasher: std::collections::hash_map::RandomState = unsafe { core::mem::transmute((0u64, 0u64)) };
    TraceeCtl {
        process_pid: pid,
        threads_state: HashMap::with_hasher(hasher),
        thread_db_proc: None,
    }
}
