//@ inject: src/debugger/debugee/tracer.rs
//@ anchor: src/debugger/debugee/tracer.rs :: impl Tracer / fn apply_new_status
//@ anchor: src/debugger/debugee/tracer.rs :: impl Tracer / fn single_step
//@ fragment: HWB :: src/debugger/debugee/tracer.rs :: impl Tracer / fn apply_new_status :: `let mut state = register::debug::HardwareDebugState::current(pid)?;` .. `state.sync(pid)?;`
//@ fragment: HWS :: src/debugger/debugee/tracer.rs :: impl Tracer / fn single_step :: `let mut state = register::debug::HardwareDebugState::current(pid)?;` .. `state.sync(pid)?;`
//@ harness: name=c14_dr6_stop prop=C14 unit=C14.dr6_stop mode=complete fn="Tracer::apply_new_status (TRAP_HWBKPT statements)" timeout=600
//@ harness: name=c14_dr6_step prop=C14 unit=C14.dr6_step mode=complete fn="Tracer::single_step (DR6 statements)" timeout=600
//@ assume: the kernel sets exactly the B bit(s) of the slot(s) that fired before the SIGTRAP is reported (recorded precondition of the `expect` in apply_new_status: some B bit is set)
//
// DR6 hit detection at a hardware-breakpoint trap: the slot reported is the least one whose B bit is set, that bit
// (and only that) is cleared, and the cleared image is written back to the thread that trapped.
use super::*;
use crate::debugger::register::debug::verif_c14_regs as m;

fn hwbkpt_stop(pid: Pid) -> Result<register::debug::DebugRegisterNumber, Error> {
    /*@@FRAGMENT:HWB*/
    Ok(reg)
}

fn hwbkpt_step(pid: Pid) -> Result<Option<register::debug::DebugRegisterNumber>, Error> {
    /*@@FRAGMENT:HWS*/
    Ok(maybe_dr)
}

fn set_image() -> [usize; 6] {
    let img: [usize; 6] = kani::any();
    unsafe { m::IMG = img; m::SYNC_CALLS = 0; m::CURRENT_FAILS = false; }
    img
}

#[kani::proof]
#[kani::stub(crate::debugger::register::debug::HardwareDebugState::current, crate::debugger::register::debug::verif_c14_regs::stub_current)]
#[kani::stub(crate::debugger::register::debug::HardwareDebugState::sync, crate::debugger::register::debug::verif_c14_regs::stub_sync)]
fn c14_dr6_stop() {
    let old = set_image();
    kani::assume(old[4] & 0xF != 0); // a hardware breakpoint trap was reported: some B bit is set
    let p: i32 = kani::any();
    match hwbkpt_stop(Pid::from_raw(p)) {
        Err(e) => { core::mem::forget(e); panic!("C14.dr6_stop.E0"); }
        Ok(reg) => {
            let i = reg as usize;
            assert!((old[4] >> i) & 1 == 1 && old[4] & ((1usize << i) - 1) == 0, "C14.dr6_stop.E1 the reported slot is the least one whose B bit is set");
            let now = unsafe { m::SYNC_IMG };
            assert!(unsafe { m::SYNC_CALLS } == 1 && unsafe { m::SYNC_PID } == p, "C14.dr6_stop.E2 the image is written back once, to the thread that trapped");
            assert!(now[4] == old[4] & !(1usize << i), "C14.dr6_stop.E3 exactly the reported B bit is cleared (the hit is reported once)");
            assert!(now[0] == old[0] && now[1] == old[1] && now[2] == old[2] && now[3] == old[3] && now[5] == old[5], "C14.dr6_stop.E4 address registers and DR7 are written back unchanged");
        }
    }
}

#[kani::proof]
#[kani::stub(crate::debugger::register::debug::HardwareDebugState::current, crate::debugger::register::debug::verif_c14_regs::stub_current)]
#[kani::stub(crate::debugger::register::debug::HardwareDebugState::sync, crate::debugger::register::debug::verif_c14_regs::stub_sync)]
fn c14_dr6_step() {
    let old = set_image();
    let p: i32 = kani::any();
    match hwbkpt_step(Pid::from_raw(p)) {
        Err(e) => { core::mem::forget(e); panic!("C14.dr6_step.E0"); }
        Ok(maybe) => {
            let now = unsafe { m::SYNC_IMG };
            assert!(unsafe { m::SYNC_CALLS } == 1 && unsafe { m::SYNC_PID } == p, "C14.dr6_step.E1 the image is written back once, to the stepping thread");
            match maybe {
                None => {
                    assert!(old[4] & 0xF == 0, "C14.dr6_step.E2 no watchpoint is reported only if no B bit is set");
                    assert!(now == old, "C14.dr6_step.E3 nothing changes when no watchpoint fired");
                }
                Some(reg) => {
                    let i = reg as usize;
                    assert!((old[4] >> i) & 1 == 1 && old[4] & ((1usize << i) - 1) == 0, "C14.dr6_step.E4 the reported slot is the least one whose B bit is set");
                    assert!(now[4] == old[4] & !(1usize << i), "C14.dr6_step.E5 exactly the reported B bit is cleared");
                    assert!(now[0] == old[0] && now[1] == old[1] && now[2] == old[2] && now[3] == old[3] && now[5] == old[5], "C14.dr6_step.E6 address registers and DR7 are written back unchanged");
                }
            }
        }
    }
}
