//@ inject: src/debugger/register.rs
//@ anchor: src/debugger/register.rs :: impl Register / fn dwarf_register
//@ anchor: src/debugger/register.rs :: impl From<RegisterMap> for DwarfRegisterMap / fn from
//@ anchor: src/debugger/register.rs :: impl From<gimli::Register> for Register / fn from
//@ anchor: src/debugger/register.rs :: impl RegisterMap / fn value
//@ anchor: src/debugger/register.rs :: impl RegisterMap / fn update
//@ anchor: src/debugger/register.rs :: impl DwarfRegisterMap / fn update
//@ anchor: src/debugger/register.rs :: impl DwarfRegisterMap / fn update_from
//@ harness: name=c19_dwarf_numbers prop=C19,C05 unit=C19.dwarf_numbers mode=complete fn="Register::dwarf_register"
//@ harness: name=c19_map_from_regs prop=C19,C05 unit=C19.map_from_regs mode=complete fn="DwarfRegisterMap::from(RegisterMap), DwarfRegisterMap::value" timeout=600
//@ harness: name=c19_from_gimli prop=C19 unit=C19.from_gimli mode=complete fn="Register::from(gimli::Register)"
//@ harness: name=c05_map_update prop=C05 unit=C05.map_update mode=complete fn="DwarfRegisterMap::update, DwarfRegisterMap::value" timeout=600
//@ harness: name=c05_map_update_from prop=C05 unit=C05.map_update_from mode=complete fn="DwarfRegisterMap::update_from" timeout=600
//@ harness: name=c15_regs_frame prop=C15,C16 unit=C15.regs mode=complete fn="RegisterMap::value, RegisterMap::update"
//@ harness: name=c15_regs_conv prop=C15,C16 unit=C15.regs_conv mode=complete fn="RegisterMap::from(user_regs_struct), user_regs_struct::from(RegisterMap)"
//@ notcovered: C19: finding the enclosing lexical block / first-match BFS over DIEs, location-list selection, frame selection; C05: CFI row lookup, register-rule evaluation, the unwind loop
//
// Register tables (DESIGN 2/C19+C05, 2/C15.regs).  Oracle: System V x86-64 psABI Fig. 3.36, typed here.
use super::*;

const ALL: [Register; 27] = [
    Register::Rax, Register::Rbx, Register::Rcx, Register::Rdx, Register::Rdi, Register::Rsi, Register::Rbp,
    Register::Rsp, Register::R8, Register::R9, Register::R10, Register::R11, Register::R12, Register::R13,
    Register::R14, Register::R15, Register::Rip, Register::Eflags, Register::Cs, Register::OrigRax,
    Register::FsBase, Register::GsBase, Register::Fs, Register::Gs, Register::Ss, Register::Ds, Register::Es,
];

/// psABI Figure 3.36 "DWARF Register Number Mapping" (general, RA, rflags, segment, fs.base/gs.base)
fn psabi(r: Register) -> Option<u16> {
    Some(match r {
        Register::Rax => 0, Register::Rdx => 1, Register::Rcx => 2, Register::Rbx => 3,
        Register::Rsi => 4, Register::Rdi => 5, Register::Rbp => 6, Register::Rsp => 7,
        Register::R8 => 8, Register::R9 => 9, Register::R10 => 10, Register::R11 => 11,
        Register::R12 => 12, Register::R13 => 13, Register::R14 => 14, Register::R15 => 15,
        Register::Rip => 16, // return address column
        Register::Eflags => 49,
        Register::Es => 50, Register::Cs => 51, Register::Ss => 52, Register::Ds => 53,
        Register::Fs => 54, Register::Gs => 55,
        Register::FsBase => 58, Register::GsBase => 59,
        Register::OrigRax => return None,
    })
}

fn any_reg() -> Register {
    let i: usize = kani::any();
    kani::assume(i < 27);
    ALL[i]
}

fn any_map() -> RegisterMap {
    RegisterMap {
        rax: kani::any(), rbx: kani::any(), rcx: kani::any(), rdx: kani::any(), rdi: kani::any(), rsi: kani::any(),
        rbp: kani::any(), rsp: kani::any(), r8: kani::any(), r9: kani::any(), r10: kani::any(), r11: kani::any(),
        r12: kani::any(), r13: kani::any(), r14: kani::any(), r15: kani::any(), rip: kani::any(), eflags: kani::any(),
        cs: kani::any(), orig_rax: kani::any(), fs_base: kani::any(), gs_base: kani::any(), fs: kani::any(),
        gs: kani::any(), ss: kani::any(), ds: kani::any(), es: kani::any(),
    }
}

#[kani::proof]
fn c19_dwarf_numbers() {
    let r = any_reg();
    let got = r.dwarf_register().map(|d| d.0);
    assert!(got == psabi(r), "C19.dwarf_numbers.E1 DWARF number equals the psABI Fig 3.36 number");
    let r2 = any_reg();
    if r != r2 && got.is_some() {
        assert!(r2.dwarf_register().map(|d| d.0) != got, "C19.dwarf_numbers.E2 numbering is injective");
    }
}

#[kani::proof]
#[kani::unwind(160)]
fn c19_map_from_regs() {
    let m = any_map();
    let r = any_reg();
    let want = m.value(r);
    let dm = DwarfRegisterMap::from(m);
    match psabi(r) {
        Some(d) => {
            let got = dm.value(gimli::Register(d));
            match got {
                Ok(v) => assert!(v == want, "C19.map_from_regs.E1 value stored under the psABI number of r is r's value"),
                Err(e) => { core::mem::forget(e); panic!("C19.map_from_regs.E1 value stored under the psABI number of r is r's value"); }
            }
        }
        None => {}
    }
    let idx: u16 = kani::any();
    kani::assume(idx < 0x80);
    let is_psabi = idx <= 16 || (idx >= 49 && idx <= 55) || idx == 58 || idx == 59;
    let got = dm.value(gimli::Register(idx));
    assert!(got.is_ok() == is_psabi, "C19.map_from_regs.E2 exactly the psABI numbers hold a value");
    core::mem::forget(got);
    core::mem::forget(dm);
}

#[kani::proof]
fn c19_from_gimli() {
    let r = any_reg();
    if let Some(d) = psabi(r) {
        if d != 16 {
            // recorded observation (not a finding): 16 (RA) is outside the domain of From<gimli::Register>
            let back = Register::from(gimli::Register(d));
            assert!(back == r, "C19.from_gimli.E1 From<gimli::Register> inverts dwarf_register");
        }
    }
}

pub(crate) fn any_dwarf_map() -> DwarfRegisterMap {
    let buf: [Option<u64>; 0x80] = kani::any();
    DwarfRegisterMap(SmallVec::from_buf(buf))
}

pub(crate) fn val(dm: &DwarfRegisterMap, i: u16) -> Option<u64> {
    match dm.value(gimli::Register(i)) {
        Ok(v) => Some(v),
        Err(e) => { core::mem::forget(e); None }
    }
}

#[kani::proof]
#[kani::unwind(130)]
fn c05_map_update() {
    let mut dm = any_dwarf_map();
    let i: u16 = kani::any();
    let j: u16 = kani::any();
    kani::assume(i < 0x80 && j < 0x80 && i != j);
    let v: u64 = kani::any();
    let before_j = val(&dm, j);
    dm.update(gimli::Register(i), v);
    assert!(val(&dm, i) == Some(v), "C05.map_update.E1 update(r,v) then value(r) == v");
    assert!(val(&dm, j) == before_j, "C05.map_update.E2 frame: every other register unchanged");
    core::mem::forget(dm);
}

#[kani::proof]
#[kani::unwind(130)]
fn c05_map_update_from() {
    // update_from: index-wise `other[i].or(self[i])`
    let mut dm = any_dwarf_map();
    let other = any_dwarf_map();
    let j: u16 = kani::any();
    kani::assume(j < 0x80);
    let o_j = val(&other, j);
    let s_j = val(&dm, j);
    dm.update_from(&other);
    assert!(val(&dm, j) == o_j.or(s_j), "C05.map_update_from.E1 update_from takes the incoming value where present and keeps the old one otherwise");
    core::mem::forget((dm, other));
}

#[kani::proof]
fn c15_regs_frame() {
    let mut m = any_map();
    let r = any_reg();
    let r2 = any_reg();
    let v: u64 = kani::any();
    let old2 = m.value(r2);
    m.update(r, v);
    assert!(m.value(r) == v, "C15.regs.E1 a register write is visible to a subsequent read");
    if r2 != r {
        assert!(m.value(r2) == old2, "C15.regs.E2 frame: all 26 other registers unchanged");
    }
}

#[kani::proof]
fn c15_regs_conv() {
    let m = any_map();
    let r = any_reg();
    let want = m.value(r);
    let raw: user_regs_struct = m.into();
    let back = RegisterMap::from(raw);
    assert!(back.value(r) == want, "C15.regs_conv.E1 RegisterMap -> user_regs_struct -> RegisterMap is the identity on every register");
    // field-by-field against the kernel struct for the registers the debugger writes most
    let raw2: user_regs_struct = back.clone().into();
    assert!(raw2.rip == back.value(Register::Rip) && raw2.rsp == back.value(Register::Rsp) && raw2.rax == back.value(Register::Rax)
        && raw2.rdi == back.value(Register::Rdi) && raw2.rsi == back.value(Register::Rsi) && raw2.rdx == back.value(Register::Rdx)
        && raw2.rcx == back.value(Register::Rcx) && raw2.r8 == back.value(Register::R8) && raw2.r9 == back.value(Register::R9)
        && raw2.eflags == back.value(Register::Eflags) && raw2.orig_rax == back.value(Register::OrigRax),
        "C15.regs_conv.E2 each named register lands in the kernel field of the same name");
}
