//@ inject: src/debugger/debugee/tracer.rs
//@ anchor: src/debugger/debugee/tracer.rs :: impl Tracer / fn apply_new_status
//@ fragment: REWIND :: src/debugger/debugee/tracer.rs :: impl Tracer / fn apply_new_status :: `^code::TRAP_BRKPT | code::SI_KERNEL => { let current_pc = {` .. `^};`
//@ fragment: FINDBP :: src/debugger/debugee/tracer.rs :: impl Tracer / fn apply_new_status :: `let mb_hit_brkpt = tcx` .. `;`
//@ harness: name=c01_rewind prop=C01 unit=C01.rewind mode=complete fn="Tracer::apply_new_status (TRAP_BRKPT: pc rewind statements)" timeout=600
//@ assume: C01.rewind: nix::sys::ptrace::getregs/setregs replaced by a one-thread register-file model; `self.tracee_ctl.tracee_ensure(pid)` replaced by a recorder returning the trapped thread (std HashMap lookup)
//@ notcovered: that every arrival produces exactly one SIGTRAP, event ordering across threads, the continue loop and step-over re-arming (disable -> single step -> enable) as a whole: relations between the debuggee's execution trace and waitpid events are outside this family's reach
//
// After an INT3 trap the reported place is the breakpoint's own address: rip is rewound by exactly one byte
// (the size of INT3) and nothing else in the register file changes.
use super::*;
use crate::debugger::debugee::tracee::Tracee;

static mut REGS: [u64; 27] = [0; 27];
static mut SETS: u32 = 0;

fn stub_getregs(_pid: Pid) -> nix::Result<nix::libc::user_regs_struct> {
    unsafe { Ok(core::mem::transmute(REGS)) }
}
fn stub_setregs(_pid: Pid, regs: nix::libc::user_regs_struct) -> nix::Result<()> {
    unsafe { SETS += 1; REGS = core::mem::transmute(regs); }
    Ok(())
}

struct CtlOne { tracee: Tracee }
impl CtlOne { fn tracee_ensure(&self, _pid: Pid) -> &Tracee { &self.tracee } }
struct TracerOne { tracee_ctl: CtlOne }
impl TracerOne {
    fn rewind(&self, pid: Pid) -> Result<RelocatedAddress, Error> {
        let current_pc = {
            /*@@FRAGMENT:REWIND*/
        };
        Ok(current_pc)
    }
}

#[kani::proof]
#[kani::stub(nix::sys::ptrace::getregs, stub_getregs)]
#[kani::stub(nix::sys::ptrace::setregs, stub_setregs)]
fn c01_rewind() {
    let old: [u64; 27] = kani::any();
    unsafe { REGS = old; SETS = 0; }
    let raw_old: nix::libc::user_regs_struct = unsafe { core::mem::transmute(old) };
    kani::assume(raw_old.rip >= 1); // a trap was executed: rip points after the one-byte INT3
    let p: i32 = kani::any();
    let t = TracerOne { tracee_ctl: CtlOne { tracee: Tracee { number: 0, pid: Pid::from_raw(p), status: crate::debugger::debugee::tracee::TraceeStatus::Running } } };
    match t.rewind(Pid::from_raw(p)) {
        Err(e) => { core::mem::forget(e); panic!("C01.rewind.E0"); }
        Ok(pc) => {
            assert!(pc.as_u64() == raw_old.rip - 1, "C01.rewind.E1 the reported program counter is the address of the INT3 byte (the breakpoint address)");
            let now = unsafe { REGS };
            let mut o = raw_old;
            o.rip = raw_old.rip - 1;
            let o_words: [u64; 27] = unsafe { core::mem::transmute(o) };
            assert!(o_words == now, "C01.rewind.E2 the thread resumes at the original instruction: rip rewound by one, every other register unchanged");
            assert!(unsafe { SETS } == 1, "C01.rewind.E3 exactly one register write");
        }
    }
}
