//@ inject: src/debugger/debugee/tracer.rs
//@ anchor: src/debugger/debugee/tracer.rs :: impl Tracer / fn apply_new_status
//@ fragment: REWIND :: src/debugger/debugee/tracer.rs :: impl Tracer / fn apply_new_status :: `^code::TRAP_BRKPT | code::SI_KERNEL => { let current_pc = {` .. `^};`
//@ fragment: FINDBP :: src/debugger/debugee/tracer.rs :: impl Tracer / fn apply_new_status :: `let mb_hit_brkpt = tcx` .. `;`
//@ fragment: REPORT :: src/debugger/debugee/tracer.rs :: impl Tracer / fn apply_new_status :: `^return Ok(None); } }` .. `^} code::TRAP_HWBKPT =>`
//@ harness: name=c01_report prop=C01 unit=C01.report mode=complete fn="Tracer::apply_new_status (TRAP_BRKPT: stop bookkeeping and reported reason)" timeout=600
//@ assume: C01.report: `self.tracee_ctl.tracee_ensure_mut(pid).set_stop(..)` and `self.group_stop_interrupt(tcx, pid)` are replaced by recorders with the same call shape (std HashMap / ptrace behind them)
//@ harness: name=c01_rewind prop=C01 unit=C01.rewind mode=complete fn="Tracer::apply_new_status (TRAP_BRKPT: pc rewind statements)" timeout=600
//@ assume: C01.rewind: nix::sys::ptrace::getregs/setregs replaced by a one-thread register-file model; `self.tracee_ctl.tracee_ensure(pid)` replaced by a recorder returning the trapped thread (std HashMap lookup)
//@ notcovered: that every arrival produces exactly one SIGTRAP, event ordering across threads, the continue loop and step-over re-arming (disable -> single step -> enable) as a whole: relations between the debuggee's execution trace and waitpid events are outside this family's reach
//
// After an INT3 trap the reported place is the breakpoint's own address: rip is rewound by exactly one byte
// (the size of INT3) and nothing else in the register file changes.
use super::*;
use crate::debugger::debugee::tracee::Tracee;

static mut REGS: [u64; 27] = [0; 27];
static mut SETS: u32 = 0;

fn stub_getregs(_pid: Pid) -> nix::Result<nix::libc::user_regs_struct> {
    unsafe { Ok(core::mem::transmute(REGS)) }
}
fn stub_setregs(_pid: Pid, regs: nix::libc::user_regs_struct) -> nix::Result<()> {
    unsafe { SETS += 1; REGS = core::mem::transmute(regs); }
    Ok(())
}

struct CtlOne { tracee: Tracee }
impl CtlOne { fn tracee_ensure(&self, _pid: Pid) -> &Tracee { &self.tracee } }
struct TracerOne { tracee_ctl: CtlOne }
impl TracerOne {
    fn rewind(&self, pid: Pid) -> Result<RelocatedAddress, Error> {
        let current_pc = {
            /*@@FRAGMENT:REWIND*/
        };
        Ok(current_pc)
    }
}

#[kani::proof]
#[kani::stub(nix::sys::ptrace::getregs, stub_getregs)]
#[kani::stub(nix::sys::ptrace::setregs, stub_setregs)]
fn c01_rewind() {
    let old: [u64; 27] = kani::any();
    unsafe { REGS = old; SETS = 0; }
    let raw_old: nix::libc::user_regs_struct = unsafe { core::mem::transmute(old) };
    kani::assume(raw_old.rip >= 1); // a trap was executed: rip points after the one-byte INT3
    let p: i32 = kani::any();
    let t = TracerOne { tracee_ctl: CtlOne { tracee: Tracee { number: 0, pid: Pid::from_raw(p), status: crate::debugger::debugee::tracee::TraceeStatus::Running } } };
    match t.rewind(Pid::from_raw(p)) {
        Err(e) => { core::mem::forget(e); panic!("C01.rewind.E0"); }
        Ok(pc) => {
            assert!(pc.as_u64() == raw_old.rip - 1, "C01.rewind.E1 the reported program counter is the address of the INT3 byte (the breakpoint address)");
            let now = unsafe { REGS };
            let mut o = raw_old;
            o.rip = raw_old.rip - 1;
            let o_words: [u64; 27] = unsafe { core::mem::transmute(o) };
            assert!(o_words == now, "C01.rewind.E2 the thread resumes at the original instruction: rip rewound by one, every other register unchanged");
            assert!(unsafe { SETS } == 1, "C01.rewind.E3 exactly one register write");
        }
    }
}


// ---- C01.report: what is reported for a breakpoint trap -------------------------------------------------------
use crate::debugger::debugee::tracee::StopType;
struct TraceeRec2 { stop: Option<StopType> }
impl TraceeRec2 { fn set_stop(&mut self, t: StopType) { self.stop = Some(t); } }
struct CtlRec2 { tracee: TraceeRec2, asked_pid: i32 }
impl CtlRec2 { fn tracee_ensure_mut(&mut self, pid: Pid) -> &mut TraceeRec2 { self.asked_pid = pid.as_raw(); &mut self.tracee } }
struct TracerRep { tracee_ctl: CtlRec2, group_stops: u32, group_stop_initiator: i32 }
impl TracerRep {
    fn group_stop_interrupt(&mut self, _tcx: (), initiator_pid: Pid) -> Result<(), Error> {
        self.group_stops += 1;
        self.group_stop_initiator = initiator_pid.as_raw();
        Ok(())
    }
    fn report(&mut self, tcx: (), pid: Pid, current_pc: RelocatedAddress, brkpt: &Breakpoint) -> Result<Option<StopReason>, Error> {
        /*@@FRAGMENT:REPORT*/
    }
}

#[kani::proof]
fn c01_report() {
    let p: i32 = kani::any();       // the thread that trapped
    let q: i32 = kani::any();       // the thread recorded in the breakpoint (may differ: breakpoints are shared by all threads)
    let a: usize = kani::any();
    let pc = RelocatedAddress::from(a);
    let brkpt = Breakpoint::new_linker_map(pc, Pid::from_raw(q));
    let mut t = TracerRep { tracee_ctl: CtlRec2 { tracee: TraceeRec2 { stop: None }, asked_pid: 0 }, group_stops: 0, group_stop_initiator: 0 };
    let r = t.report((), Pid::from_raw(p), pc, &brkpt);
    match r {
        Ok(Some(StopReason::Breakpoint(rp, rpc))) => {
            assert!(rp.as_raw() == p, "C01.report.E1 the stop is attributed to the thread that executed the trap");
            assert!(rpc == pc, "C01.report.E2 the stop is reported at the rewound program counter (the breakpoint address)");
        }
        Ok(_) => panic!("C01.report.E3 an ordinary breakpoint trap is reported as a breakpoint stop"),
        Err(e) => { core::mem::forget(e); panic!("C01.report.E3 an ordinary breakpoint trap is reported as a breakpoint stop"); }
    }
    assert!(t.tracee_ctl.asked_pid == p && t.tracee_ctl.tracee.stop == Some(StopType::Interrupt), "C01.report.E4 the trapping thread is marked stopped");
    assert!(t.group_stops == 1 && t.group_stop_initiator == p, "C01.report.E5 the other threads are stopped once, on behalf of the trapping thread");
    core::mem::forget(brkpt);
}
