//@ inject: src/debugger/debugee/dwarf/unwind.rs
//@ anchor: src/debugger/debugee/dwarf/unwind.rs :: impl UnwindContext<'a> / fn next
//@ fragment: NEXT :: src/debugger/debugee/dwarf/unwind.rs :: impl UnwindContext<'a> / fn next :: `let mut next_frame_registers` .. `^UnwindContext::new(`
//@ harness: name=c05_next_sp prop=C05 unit=C05.next_sp mode=complete fn="UnwindContext::next (register hand-over statements)" timeout=600
//@ notcovered: UnwindContext::new (gimli CFI row lookup, register rules), the unwind loop, frame selection
//
// The register map handed to the caller's frame: RSP := CFA of the callee frame (DWARF: the CFA is the value of the
// stack pointer at the call site), every other register as restored from the callee's CFI.  The statements are the
// verbatim text of UnwindContext::next up to the call of UnwindContext::new.
use super::*;
use crate::debugger::register::verif_regs::{any_dwarf_map, val};

struct PrevFrame {
    registers: DwarfRegisterMap,
    cfa: RelocatedAddress,
}

fn next_frame_registers_of(previous_ucx: PrevFrame) -> DwarfRegisterMap {
    /*@@FRAGMENT:NEXT*/
    next_frame_registers
}

#[kani::proof]
#[kani::unwind(130)]
fn c05_next_sp() {
    let regs = any_dwarf_map();
    let cfa: usize = kani::any();
    let j: u16 = kani::any();
    kani::assume(j < 0x80 && j != 7);
    let before_j = val(&regs, j);
    let next = next_frame_registers_of(PrevFrame { registers: regs, cfa: RelocatedAddress::from(cfa) });
    assert!(val(&next, 7) == Some(cfa as u64), "C05.next_sp.E1 the caller frame's stack pointer (DWARF reg 7) is the callee frame's CFA");
    assert!(val(&next, j) == before_j, "C05.next_sp.E2 every other register is handed over unchanged");
    core::mem::forget(next);
}
