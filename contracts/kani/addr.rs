//@ inject: src/debugger/address.rs
//@ anchor: src/debugger/address.rs :: impl RelocatedAddress / fn remove_vas_region_offset
//@ anchor: src/debugger/address.rs :: impl RelocatedAddress / fn offset
//@ anchor: src/debugger/address.rs :: impl GlobalAddress / fn relocate
//@ anchor: src/debugger/address.rs :: impl GlobalAddress / fn in_range
//@ harness: name=c18_reloc prop=C18 unit=C18.reloc mode=complete fn="GlobalAddress::relocate, RelocatedAddress::remove_vas_region_offset"
//@ harness: name=c05_cfa_offset prop=C05 unit=C05.cfa_offset mode=complete fn="RelocatedAddress::offset"
//@ harness: name=c19_in_range prop=C19 unit=C19.in_range mode=complete fn="GlobalAddress::in_range"
//@ harness: name=c19_in_ranges prop=C19 unit=C19.in_ranges mode=bounded bound="slices of at most 4 ranges" fn="GlobalAddress::in_ranges"
//
// Address arithmetic (DESIGN 2/C18, 2/C05.cfa_offset, 2/C19.in_range).
use super::*;

#[kani::proof]
fn c18_reloc() {
    let g: usize = kani::any();
    let off: usize = kani::any();
    kani::assume(g.checked_add(off).is_some()); // recorded precondition: the mapped address fits the address space
    let r = GlobalAddress(g).relocate(off);
    assert!(r.0 == g + off, "C18.reloc.E1 relocate adds the mapping offset");
    let back = r.remove_vas_region_offset(off);
    assert!(back.0 == g, "C18.reloc.E2 remove_vas_region_offset inverts relocate for every load offset");
    // the other direction, with the recorded precondition off <= r (established by find_mapping_offset: C18.offset_le)
    let r2: usize = kani::any();
    let off2: usize = kani::any();
    kani::assume(off2 <= r2);
    let g2 = RelocatedAddress(r2).remove_vas_region_offset(off2);
    assert!(g2.0 == r2 - off2, "C18.reloc.E3 global = relocated - offset");
    assert!(g2.relocate(off2).0 == r2, "C18.reloc.E4 relocate inverts remove_vas_region_offset");
}

#[kani::proof]
fn c05_cfa_offset() {
    let a: usize = kani::any();
    let k: isize = kani::any();
    let exact = a as i128 + k as i128;
    kani::assume(exact >= 0 && exact <= usize::MAX as i128); // CFA = reg + offset must be an address
    let r = RelocatedAddress(a).offset(k);
    assert!(r.0 as i128 == exact, "C05.cfa_offset.E1 offset(k) is addr + k in the integers (CFA = register + offset)");
}

#[kani::proof]
fn c19_in_range() {
    let a: usize = kani::any();
    let r = gimli::Range { begin: kani::any(), end: kani::any() };
    let got = GlobalAddress(a).in_range(&r);
    assert!(got == (r.begin <= a as u64 && (a as u64) < r.end), "C19.in_range.E1 half-open: begin <= pc < end");
}

#[kani::proof]
#[kani::unwind(6)]
fn c19_in_ranges() {
    let a: usize = kani::any();
    let n: usize = kani::any();
    kani::assume(n <= 4);
    let rs: [gimli::Range; 4] = [
        gimli::Range { begin: kani::any(), end: kani::any() }, gimli::Range { begin: kani::any(), end: kani::any() },
        gimli::Range { begin: kani::any(), end: kani::any() }, gimli::Range { begin: kani::any(), end: kani::any() },
    ];
    let got = GlobalAddress(a).in_ranges(&rs[..n]);
    let mut want = false;
    let mut k = 0;
    while k < 4 {
        if k < n && rs[k].begin <= a as u64 && (a as u64) < rs[k].end { want = true; }
        k += 1;
    }
    assert!(got == want, "C19.in_ranges.E1 true iff some range contains the address");
}
