//@ inject: src/debugger/debugee/dwarf/utils.rs
//@ anchor: src/debugger/debugee/dwarf/utils.rs :: impl PathSearchIndex / fn get
//@ fragment: FILTER :: src/debugger/debugee/dwarf/utils.rs :: impl PathSearchIndex / fn get :: `^.filter(|&&idx| {` .. `^});`
//@ harness: name=c17_filter_pred prop=C17 unit=C17.filter_pred mode=bounded bound="stored tail and needle tail of at most 3 components each (every length combination, all symbol values)" fn="PathSearchIndex::get (filter closure: suffix test of one candidate)" timeout=900
//@ assume: C17.filter_pred validates, on bounded lengths, the contract the Verus unit C17.path_index assumes for the outlined `tail.ends_with(&expected_tail)` — and decides the closure when it is rewritten with iterator adapters that Verus cannot read
//
// The per-candidate predicate of PathSearchIndex::get, executed by CBMC on the real types.  The closure body is
// pasted from /repo on every run.  Oracle: component-wise suffix equality written as an index loop.
use super::*;
use string_interner::{DefaultSymbol, Symbol};

struct Ix { tails: Vec<Vec<DefaultSymbol>> }
struct Holder { index: Ix }

impl Holder {
    fn pred(&self, idx: usize, expected_tail: &Vec<DefaultSymbol>) -> bool {
        /*@@FRAGMENT:FILTER*/
    }
}

fn any_syms(n: usize) -> Vec<DefaultSymbol> {
    let mut v = Vec::new();
    let mut i = 0;
    while i < n {
        let raw: usize = kani::any();
        kani::assume(raw < 4); // four distinct symbols are enough to tell equal from different at three positions
        v.push(DefaultSymbol::try_from_usize(raw).unwrap());
        i += 1;
    }
    v
}

#[kani::proof]
#[kani::unwind(6)]
fn c17_filter_pred() {
    let nt: usize = kani::any();
    let ne: usize = kani::any();
    kani::assume(nt <= 3 && ne <= 3);
    let tail = any_syms(nt);
    let expected = any_syms(ne);
    // oracle: expected is a suffix of tail, component by component
    let mut oracle = ne <= nt;
    if oracle {
        let mut k = 0;
        while k < ne {
            if tail[nt - ne + k] != expected[k] { oracle = false; }
            k += 1;
        }
    }
    let h = Holder { index: Ix { tails: vec![tail] } };
    let got = h.pred(0, &expected);
    assert!(got == oracle, "C17.filter_pred.E1 a candidate is kept iff the needle's leading components are a component-wise suffix of its tail (no partial match, a needle longer than the path never matches)");
    kani::cover!(got && ne == 2, "a two-component match is reachable");
    kani::cover!(!got && ne <= nt, "a same-length mismatch is reachable");
}
