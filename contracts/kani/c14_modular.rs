//@ inject: src/debugger/register.rs :: mod debug
//@ anchor: src/debugger/register.rs :: mod debug / impl DebugControlRegister / fn dr_enabled
//@ anchor: src/debugger/register.rs :: mod debug / impl DebugControlRegister / fn set_dr
//@ attr: src/debugger/register.rs :: mod debug / impl DebugControlRegister / fn dr_enabled :: #[cfg_attr(kani, kani::ensures(|r: &bool| *r == (((self.0 >> ((dr as usize) * 2 + (global as usize))) & 1) == 1)))]
//@ harness: name=c14_contract_dr_enabled prop=C14 unit=C14.contract.dr_enabled mode=complete fn="DebugControlRegister::dr_enabled (Kani function contract, proof_for_contract)"
//@ harness: name=c14_set_dr_modular prop=C14 unit=C14.set_dr.modular mode=complete fn="DebugControlRegister::set_dr (callee dr_enabled replaced by its verified contract: stub_verified)"
//
// The modular Kani route (function contracts): `dr_enabled` carries a `kani::ensures` contract attached to the real
// function in the snapshot (attribute inserted above the item, guard cfg(kani)); the contract is proved once
// (`proof_for_contract`) and `set_dr` is then re-proved against the CONTRACT of its callee, not its body
// (`stub_verified`): a change inside `dr_enabled` is caught by the first harness, a change in `set_dr` by the second.
use super::*;
use super::verif_c14_regs::{any_dr, sdm_g, sdm_l};

#[kani::proof_for_contract(DebugControlRegister::dr_enabled)]
fn c14_contract_dr_enabled() {
    let r = DebugControlRegister(kani::any());
    let (dr, _) = any_dr();
    let global: bool = kani::any();
    let _ = r.dr_enabled(dr, global);
}

#[kani::proof]
#[kani::stub_verified(DebugControlRegister::dr_enabled)]
fn c14_set_dr_modular() {
    let old: usize = kani::any();
    let mut r = DebugControlRegister(old);
    let (dr, i) = any_dr();
    let global: bool = kani::any();
    let enable: bool = kani::any();
    r.set_dr(dr, global, enable);
    let idx = 2 * i + global as usize;
    let det = if global { 9 } else { 8 };
    assert!(((r.0 >> idx) & 1 == 1) == enable, "C14.set_dr.modular.E1 enable bit of the slot equals `enable`");
    let any_left = (0..4usize).any(|k| if global { sdm_g(r.0, k) } else { sdm_l(r.0, k) });
    let det_new = (r.0 >> det) & 1 == 1;
    if enable {
        assert!(det_new, "C14.set_dr.modular.E2 exact-breakpoint bit set when a slot is enabled");
    } else if !any_left {
        assert!(!det_new, "C14.set_dr.modular.E3 exact-breakpoint bit cleared when no slot of that kind remains");
    }
    let touched = (1usize << idx) | (1usize << det);
    assert!(r.0 & !touched == old & !touched, "C14.set_dr.modular.E5 frame: all other DR7 bits unchanged");
}
