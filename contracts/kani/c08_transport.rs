//@ inject: src/dap/transport.rs
//@ anchor: src/dap/transport.rs :: impl<W: Write + Send, R: Read + Send> DapTransport for Transport<W, R> / fn read_message
//@ fragment: HDR :: src/dap/transport.rs :: impl<W: Write + Send, R: Read + Send> DapTransport for Transport<W, R> / fn read_message :: `^if line.is_empty() { break; }` .. `^} let len = content_length`
//@ harness: name=c08_dap_header prop=C08 unit=C08.dap_header mode=bounded bound="header lines of at most 17 bytes of valid UTF-8 (covers the 15-byte field name plus a multi-byte character across its end)" fn="Transport::read_message (header-line statement)" timeout=1200
//@ assume: BufRead::read_line delivers valid UTF-8 (it returns an error otherwise); the `?` conversion into anyhow::Error is replaced by returning the ParseIntError itself
//@ notcovered: the body allocation `vec![0u8; len]` for a huge Content-Length (allocation failure is invisible to both tools), serde_json decoding, framing over several reads
//
// One header line of a DAP message, any bytes: either parsed, skipped or reported as an error - never a panic.
use super::*;

fn header_line(line: &str) -> Result<Option<usize>, core::num::ParseIntError> {
    let mut content_length: Option<usize> = None;
    /*@@FRAGMENT:HDR*/
    Ok(content_length)
}

#[kani::proof]
#[kani::unwind(20)]
fn c08_dap_header() {
    let bytes: [u8; 17] = kani::any();
    let len: usize = kani::any();
    kani::assume(len >= 1 && len <= 17);
    let s = match core::str::from_utf8(&bytes[..len]) {
        Ok(s) => s,
        Err(_) => { kani::assume(false); "" }
    };
    let r = header_line(s);
    kani::cover!(r.is_ok(), "C08.dap_header.cover a header line is accepted");
    core::mem::forget(r);
}
