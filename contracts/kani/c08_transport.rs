//@ inject: src/dap/transport.rs
//@ anchor: src/dap/transport.rs :: impl<W: Write + Send, R: Read + Send> DapTransport for Transport<W, R> / fn read_message
//@ fragment: HDR :: src/dap/transport.rs :: impl<W: Write + Send, R: Read + Send> DapTransport for Transport<W, R> / fn read_message :: `^if line.is_empty() { break; }` .. `^} let len = content_length`
//@ harness: name=c08_dap_header prop=C08 unit=C08.dap_header mode=bounded bound="lines made of 13..15 printable ASCII bytes followed by one two-byte UTF-8 character" fn="Transport::read_message (header-line statement)" timeout=900
//@ assume: BufRead::read_line delivers valid UTF-8 (it returns an error otherwise); the `?` conversion into anyhow::Error is replaced by returning the ParseIntError itself
//@ notcovered: the body allocation `vec![0u8; len]` for a huge Content-Length (allocation failure is invisible to both tools), serde_json decoding, framing over several reads
//
// One header line of a DAP message, any bytes: either parsed, skipped or reported as an error - never a panic.
use super::*;

fn header_line(line: &str) -> Result<Option<usize>, core::num::ParseIntError> {
    let mut content_length: Option<usize> = None;
    /*@@FRAGMENT:HDR*/
    Ok(content_length)
}

/// ASCII prefix of `k` bytes followed by one two-byte UTF-8 character: valid UTF-8 by construction,
/// with a character boundary missing at byte k+1
fn check_multibyte_at(k: usize) {
    let ascii: [u8; 16] = kani::any();
    let lead: u8 = kani::any();
    let cont: u8 = kani::any();
    kani::assume(lead >= 0xC2 && lead <= 0xDF && cont >= 0x80 && cont <= 0xBF);
    let mut buf = [b'x'; 18];
    let mut i = 0;
    // a header field other than Content-Length (first letter differs): the line must simply be skipped
    kani::assume(ascii[0] != b'C' && ascii[0] != b'c');
    while i < k {
        kani::assume(ascii[i] >= 0x20 && ascii[i] < 0x7f);
        buf[i] = ascii[i];
        i += 1;
    }
    buf[k] = lead;
    buf[k + 1] = cont;
    let s = unsafe { core::str::from_utf8_unchecked(&buf[..k + 2]) };
    let r = header_line(s);
    core::mem::forget(r);
}

#[kani::proof]
#[kani::unwind(20)]
fn c08_dap_header() {
    // a multi-byte character straddling each byte offset around the 15-byte field name
    check_multibyte_at(13);
    check_multibyte_at(14);
    check_multibyte_at(15);
}
