//@ inject: src/dap/yadap/session/breakpoint.rs
//@ anchor: src/dap/yadap/session/breakpoint.rs :: impl HitCondition / fn matches
//@ harness: name=c13_hit_matches prop=C13 unit=C13.hit_matches mode=complete fn="HitCondition::matches"
//@ notcovered: replacement semantics of the four set*Breakpoints requests, `verified`, address identity across start/restart, conditions, logpoints, hit bookkeeping (serde_json + three HashMaps + live debugger)
//
// Hit-count predicate (DESIGN 2/C13).
use super::*;

#[kani::proof]
fn c13_hit_matches() {
    let n: u64 = kani::any();
    let hits: u64 = kani::any();
    assert!(HitCondition::Exact(n).matches(hits) == (hits == n), "C13.hit_matches.E1 hitCondition N stops on the N-th hit and only then");
    assert!(HitCondition::GreaterOrEqual(n).matches(hits) == (hits >= n), "C13.hit_matches.E2 >=N");
    assert!(HitCondition::Greater(n).matches(hits) == (hits > n), "C13.hit_matches.E3 >N");
    assert!(HitCondition::Less(n).matches(hits) == (hits < n), "C13.hit_matches.E4 <N");
    assert!(HitCondition::LessOrEqual(n).matches(hits) == (hits <= n), "C13.hit_matches.E5 <=N");
    let inv = HitCondition::Invalid(String::new());
    assert!(inv.matches(hits), "C13.hit_matches.E6 an invalid hit condition never suppresses a stop");
    core::mem::forget(inv);
}
