//@ inject: src/debugger/debugee/dwarf/unit/parser.rs
//@ anchor: src/debugger/debugee/dwarf/unit/parser.rs :: fn parse_lines
//@ fragment: PACK :: src/debugger/debugee/dwarf/unit/parser.rs :: fn parse_lines :: `let mut flags = 0_u8;` .. `flags |= END_SEQUENCE; }`
//@ harness: name=c04_flag_pack prop=C04 unit=C04.flag_pack mode=complete fn="parse_lines (flag packing statements) + LineRow accessors"
//@ assume: gimli's LineRow::{is_stmt,prologue_end,epilogue_begin,end_sequence} decode the DWARF line program correctly (the four attributes are symbolic booleans here)
//
// The flag-packing statements of parse_lines, spliced verbatim, composed with the real accessors:
// every accessor returns exactly the gimli row attribute of the same name, for all 16 combinations.
use super::*;

struct GimliRow { is_stmt: bool, prologue_end: bool, epilogue_begin: bool, end_sequence: bool }
impl GimliRow {
    fn is_stmt(&self) -> bool { self.is_stmt }
    fn prologue_end(&self) -> bool { self.prologue_end }
    fn epilogue_begin(&self) -> bool { self.epilogue_begin }
    fn end_sequence(&self) -> bool { self.end_sequence }
}

fn pack(line_row: &GimliRow) -> u8 {
    /*@@FRAGMENT:PACK*/
    flags
}

#[kani::proof]
fn c04_flag_pack() {
    let g = GimliRow { is_stmt: kani::any(), prologue_end: kani::any(), epilogue_begin: kani::any(), end_sequence: kani::any() };
    let row = LineRow { address: kani::any(), file_index: kani::any(), line: kani::any(), column: kani::any(), flags: pack(&g) };
    assert!(row.is_stmt() == g.is_stmt, "C04.flag_pack.E1 is_stmt() is the row's DWARF is_stmt attribute");
    assert!(row.prolog_end() == g.prologue_end, "C04.flag_pack.E2 prolog_end() is the row's DWARF prologue_end attribute");
    assert!(row.epilog_begin() == g.epilogue_begin, "C04.flag_pack.E3 epilog_begin() is the row's DWARF epilogue_begin attribute");
    assert!(row.end_sequence() == g.end_sequence, "C04.flag_pack.E4 end_sequence() is the row's DWARF end_sequence attribute");
}
