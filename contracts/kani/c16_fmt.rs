//@ inject: src/debugger/call/fmt.rs
//@ anchor: src/debugger/call/fmt.rs :: fn make_formatter_bytes_rust_1_87_plus
//@ anchor: src/debugger/call/fmt.rs :: fn formatter_to_bytes
//@ harness: name=c16_formatter_1_87 prop=C16 unit=C16.formatter_1_87 mode=complete fn="make_formatter_bytes_rust_1_87_plus, formatter_to_bytes" timeout=600
//@ assume: C16.formatter_1_87: oracle = core::fmt of rustc >= 1.87 (library/core/src/fmt/mod.rs, `mod flags`): the fill character occupies bits 0..20 of FormattingOptions.flags, ALIGN_BITS = 0b11 << 29 with ALIGN_UNKNOWN = 3 << 29, ALWAYS_SET = 1 << 31, width/precision u16 = 0; the local mirror struct is laid out by the compiler like core::fmt::Formatter (two pointer words first, then the options word) -- this is the code's own assumption and is asserted for the Kani build only
//@ notcovered: the 1.85-1.87 and pre-1.85 formatter layouts, which layout is chosen for a debuggee (rustc version detection), the fmt function lookup
//
// `vard`/`argd` inject a call of <T as Debug>::fmt with a hand-built core::fmt::Formatter image.
// The image must be exactly: { buf data ptr, buf vtable ptr, options{flags = ' ' | ALIGN_UNKNOWN | ALWAYS_SET, width 0, precision 0} }.
use super::*;

#[kani::proof]
#[kani::unwind(26)]
fn c16_formatter_1_87() {
    let s: usize = kani::any();
    let v: usize = kani::any();
    let bytes = make_formatter_bytes_rust_1_87_plus(s, v);
    assert!(bytes.len() == 24, "C16.formatter_1_87.E1 the image has the size of core::fmt::Formatter (two pointers + 8 bytes of options)");
    let w = |k: usize| u64::from_le_bytes([bytes[k], bytes[k + 1], bytes[k + 2], bytes[k + 3], bytes[k + 4], bytes[k + 5], bytes[k + 6], bytes[k + 7]]);
    assert!(w(0) == s as u64, "C16.formatter_1_87.E2 first word: the String buffer pointer");
    assert!(w(8) == v as u64, "C16.formatter_1_87.E3 second word: the fmt::Write vtable pointer");
    // flags: fill ' ' (0x20) in the low 21 bits, alignment field (bits 29..30) = Unknown (0b11), bit 31 always set; no width/precision
    assert!(w(16) == 0x0000_0000_E000_0020u64, "C16.formatter_1_87.E4 options word: fill ' ', align unknown, always-set bit, width 0, precision 0 (core::fmt flags layout of rustc >= 1.87)");
}
