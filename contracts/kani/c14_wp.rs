//@ inject: src/debugger/watchpoint.rs
//@ anchor: src/debugger/watchpoint.rs :: impl HardwareBreakpoint / fn enable
//@ anchor: src/debugger/watchpoint.rs :: impl HardwareBreakpoint / fn disable
//@ anchor: src/debugger/watchpoint.rs :: impl HardwareBreakpoint / fn address_already_observed
//@ anchor: src/debugger/watchpoint.rs :: impl WatchpointRegistry / fn distribute_to_tracee
//@ anchor: src/debugger/watchpoint.rs :: impl Watchpoint / fn from_raw_addr
//@ anchor: src/debugger/watchpoint.rs :: impl WatchpointRegistry / fn refresh
//@ fragment: REFRESH :: src/debugger/watchpoint.rs :: impl WatchpointRegistry / fn refresh :: `^.filter_map(|wp| {` .. `^}) .collect()`
//@ harness: name=c14_registry_refresh prop=C14 unit=C14.registry_refresh mode=complete fn="WatchpointRegistry::refresh (per-watchpoint closure body)" timeout=600
//@ assume: C14.registry_refresh: Watchpoint::refresh is replaced by a recorder returning a symbolic register image or an error; iter_mut().filter_map() applies the closure to every watchpoint in order (std)
//@ harness: name=c14_hw_enable prop=C14 unit=C14.hw_enable mode=complete fn="HardwareBreakpoint::enable" timeout=600
//@ harness: name=c14_hw_disable prop=C14 unit=C14.hw_disable mode=complete fn="HardwareBreakpoint::disable" timeout=600
//@ harness: name=c14_observed prop=C14 unit=C14.observed mode=complete fn="HardwareBreakpoint::address_already_observed" timeout=600
//@ harness: name=c14_roundtrip prop=C14 unit=C14.roundtrip mode=complete fn="HardwareBreakpoint::enable, HardwareBreakpoint::disable" timeout=900
//@ harness: name=c14_distribute prop=C14 unit=C14.distribute mode=complete fn="WatchpointRegistry::distribute_to_tracee" timeout=600
//
// Slot allocation / release on the hardware-debug-register image, for ALL images.
// `HardwareDebugState::current/sync` are replaced by the one-thread register image model of
// c14_regs.rs (DESIGN 1.4).  The TraceeCtl has an empty thread map: the `for_each(sync)` fan-out
// over threads is NOT verified here (std HashMap iteration), the image transformation and the
// value returned to the registry are.
use super::*;
use crate::debugger::debugee::tracee::verif_tracee_util::empty_ctl;
use crate::debugger::register::debug::verif_c14_regs as m;
use crate::debugger::register::debug::verif_c14_regs::{sdm_g, sdm_l, sdm_len, sdm_len_code, sdm_rw, sdm_rw_code};

fn any_image() -> [usize; 6] {
    let img: [usize; 6] = kani::any();
    unsafe {
        m::IMG = img;
        m::CURRENT_CALLS = 0;
        m::SYNC_CALLS = 0;
        m::CURRENT_FAILS = false;
    }
    img
}

fn any_hw() -> (HardwareBreakpoint, usize, u8, bool) {
    let addr: usize = kani::any();
    let (size, bytes) = m::any_size();
    let (cond, rw) = m::any_cond();
    (HardwareBreakpoint::new(RelocatedAddress::from(addr), size, cond), addr, bytes, rw)
}

fn slot_eq(a: &[usize; 6], b: &[usize; 6], k: usize) -> bool {
    a[k] == b[k]
        && sdm_l(a[5], k) == sdm_l(b[5], k)
        && sdm_g(a[5], k) == sdm_g(b[5], k)
        && sdm_rw(a[5], k) == sdm_rw(b[5], k)
        && sdm_len(a[5], k) == sdm_len(b[5], k)
}

#[kani::proof]
#[kani::stub(crate::debugger::register::debug::HardwareDebugState::current, crate::debugger::register::debug::verif_c14_regs::stub_current)]
#[kani::stub(crate::debugger::register::debug::HardwareDebugState::sync, crate::debugger::register::debug::verif_c14_regs::stub_sync)]
fn c14_hw_enable() {
    let old = any_image();
    let (mut hw, addr, bytes, rw) = any_hw();
    let ctl = empty_ctl(Pid::from_raw(kani::any()));
    let all_used = (0..4usize).all(|k| sdm_l(old[5], k));
    let res = hw.enable(&ctl);
    match res {
        Err(e) => {
            assert!(all_used, "C14.hw_enable.E1 refused only when all four local slots are in use");
            assert!(matches!(e, Error::WatchpointLimitReached), "C14.hw_enable.E2 a fifth watchpoint is WatchpointLimitReached");
            assert!(hw.register.is_none(), "C14.hw_enable.E3 refusal leaves the watchpoint unregistered");
            assert!(unsafe { m::SYNC_CALLS } == 0, "C14.hw_enable.E4 refusal writes no debug register");
            core::mem::forget(e);
        }
        Ok(st) => {
            assert!(!all_used, "C14.hw_enable.E5 at most four: never succeeds with four slots in use");
            let new = m::image_of(&st);
            let i = match hw.register {
                Some(r) => r as usize,
                None => { panic!("C14.hw_enable.E6 slot recorded on success"); }
            };
            assert!(i < 4, "C14.hw_enable.E6 slot recorded on success");
            // every shift below is by a constant: k is a concrete loop index
            let mut k = 0usize;
            while k < 4 {
                if k == i {
                    assert!(!sdm_l(old[5], k), "C14.hw_enable.E7 the slot taken was free");
                    assert!(new[k] == addr, "C14.hw_enable.E9 DR_i holds the watch address");
                    assert!(sdm_l(new[5], k), "C14.hw_enable.E10 L_i set");
                    assert!(sdm_rw(new[5], k) == sdm_rw_code(rw), "C14.hw_enable.E11 R/W_i encodes the condition");
                    assert!(sdm_len(new[5], k) == sdm_len_code(bytes), "C14.hw_enable.E12 LEN_i encodes the length");
                    assert!(sdm_g(new[5], k) == sdm_g(old[5], k), "C14.hw_enable.E14 G_i untouched");
                    let touched = (1usize << (2 * k)) | (1usize << 8) | (0xFusize << (16 + 4 * k));
                    assert!(new[5] & !touched == old[5] & !touched, "C14.hw_enable.E16 no other DR7 bit changes");
                } else {
                    if k < i {
                        assert!(sdm_l(old[5], k), "C14.hw_enable.E8 the slot taken is the least free one (freed slots are reused)");
                    }
                    assert!(slot_eq(&old, &new, k), "C14.hw_enable.E13 the other three slots are bit-identical");
                }
                k += 1;
            }
            assert!(new[4] == old[4], "C14.hw_enable.E15 DR6 untouched");
            assert!((new[5] >> 8) & 1 == 1, "C14.hw_enable.E17 LE set");
            core::mem::forget(st);
        }
    }
    kani::cover!(all_used, "C14.hw_enable.cover refusal reachable");
    kani::cover!(!all_used && hw.register == Some(DebugRegisterNumber::DR3), "C14.hw_enable.cover last slot reachable");
}

#[kani::proof]
#[kani::stub(crate::debugger::register::debug::HardwareDebugState::current, crate::debugger::register::debug::verif_c14_regs::stub_current)]
#[kani::stub(crate::debugger::register::debug::HardwareDebugState::sync, crate::debugger::register::debug::verif_c14_regs::stub_sync)]
fn c14_hw_disable() {
    let old = any_image();
    let (mut hw, _addr, _bytes, _rw) = any_hw();
    let (dr, i) = m::any_dr();
    hw.register = Some(dr);
    let ctl = empty_ctl(Pid::from_raw(kani::any()));
    let res = hw.disable(&ctl);
    match res {
        Err(e) => { core::mem::forget(e); panic!("C14.hw_disable.E0 cannot fail when the registers are readable"); }
        Ok(st) => {
            let new = m::image_of(&st);
            assert!(!sdm_l(new[5], i), "C14.hw_disable.E1 L_i cleared");
            assert!((0..4usize).all(|k| k == i || sdm_l(new[5], k) == sdm_l(old[5], k)), "C14.hw_disable.E2 other slots keep their enable bit");
            let le_new = (new[5] >> 8) & 1 == 1;
            let any_left = (0..4usize).any(|k| sdm_l(new[5], k));
            assert!(any_left || !le_new, "C14.hw_disable.E3 no stale LE bit once the last watchpoint is gone");
            let touched = (1usize << (2 * i)) | (1usize << 8);
            assert!(new[5] & !touched == old[5] & !touched, "C14.hw_disable.E4 no other DR7 bit changes");
            assert!(new[0] == old[0] && new[1] == old[1] && new[2] == old[2] && new[3] == old[3] && new[4] == old[4],
                "C14.hw_disable.E5 address registers and DR6 untouched");
            assert!(hw.register.is_none(), "C14.hw_disable.E6 slot forgotten by the watchpoint");
            core::mem::forget(st);
        }
    }
}

#[kani::proof]
#[kani::stub(crate::debugger::register::debug::HardwareDebugState::current, crate::debugger::register::debug::verif_c14_regs::stub_current)]
fn c14_observed() {
    let old = any_image();
    let addr: usize = kani::any();
    let ctl = empty_ctl(Pid::from_raw(kani::any()));
    let res = HardwareBreakpoint::address_already_observed(&ctl, RelocatedAddress::from(addr));
    let want = (0..4usize).any(|k| sdm_l(old[5], k) && old[k] == addr);
    match res {
        Ok(b) => assert!(b == want, "C14.observed.E1 true iff an enabled local slot holds this address"),
        Err(e) => { core::mem::forget(e); panic!("C14.observed.E0 cannot fail when the registers are readable"); }
    }
    kani::cover!(want, "C14.observed.cover observed");
    kani::cover!(!want, "C14.observed.cover free");
}

#[kani::proof]
#[kani::stub(crate::debugger::register::debug::HardwareDebugState::current, crate::debugger::register::debug::verif_c14_regs::stub_current)]
#[kani::stub(crate::debugger::register::debug::HardwareDebugState::sync, crate::debugger::register::debug::verif_c14_regs::stub_sync)]
fn c14_roundtrip() {
    let old = any_image();
    kani::assume(!(0..4usize).all(|k| sdm_l(old[5], k)));
    // the representation invariant of images produced by this code: LE is set iff some L_i is set
    kani::assume(((old[5] >> 8) & 1 == 1) == (0..4usize).any(|k| sdm_l(old[5], k)));
    let (mut hw, _addr, _bytes, _rw) = any_hw();
    let ctl = empty_ctl(Pid::from_raw(kani::any()));
    let st1 = match hw.enable(&ctl) { Ok(s) => s, Err(e) => { core::mem::forget(e); panic!("C14.roundtrip.E0") } };
    let mid = m::image_of(&st1);
    let slot = hw.register;
    unsafe { m::IMG = mid; }
    let st2 = match hw.disable(&ctl) { Ok(s) => s, Err(e) => { core::mem::forget(e); panic!("C14.roundtrip.E0") } };
    let new = m::image_of(&st2);
    assert!((0..4usize).all(|k| sdm_l(new[5], k) == sdm_l(old[5], k)), "C14.roundtrip.E1 disable after enable restores the set of enabled slots");
    assert!((new[5] >> 8) & 1 == (old[5] >> 8) & 1, "C14.roundtrip.E2 LE restored");
    assert!(((new[5] >> 8) & 1 == 1) == (0..4usize).any(|k| sdm_l(new[5], k)), "C14.roundtrip.E3 invariant LE <=> some L_i preserved");
    // re-use: enabling again takes the same (freed) slot
    unsafe { m::IMG = new; }
    let st3 = match hw.enable(&ctl) { Ok(s) => s, Err(e) => { core::mem::forget(e); panic!("C14.roundtrip.E0") } };
    assert!(hw.register == slot, "C14.roundtrip.E4 a freed slot is reused");
    let again = m::image_of(&st3);
    assert!(again == mid, "C14.roundtrip.E5 re-enabling reproduces the same register image");
    core::mem::forget((st1, st2, st3));
}

#[kani::proof]
#[kani::stub(crate::debugger::register::debug::HardwareDebugState::sync, crate::debugger::register::debug::verif_c14_regs::stub_sync)]
fn c14_distribute() {
    let img: [usize; 6] = kani::any();
    let has: bool = kani::any();
    let reg = WatchpointRegistry {
        watchpoints: Vec::new(),
        last_seen_state: if has { Some(m::state_of(img)) } else { None },
    };
    let pid: i32 = kani::any();
    let tracee = Tracee { number: kani::any(), pid: Pid::from_raw(pid), status: crate::debugger::debugee::tracee::TraceeStatus::Running };
    unsafe { m::SYNC_CALLS = 0; }
    let r = reg.distribute_to_tracee(&tracee);
    assert!(r.is_ok(), "C14.distribute.E0 never fails");
    core::mem::forget(r);
    if has {
        assert!(unsafe { m::SYNC_CALLS } == 1, "C14.distribute.E1 a new thread receives the register image exactly once");
        assert!(unsafe { m::SYNC_IMG } == img, "C14.distribute.E2 the image pushed is the last one the registry recorded");
        assert!(unsafe { m::SYNC_PID } == pid, "C14.distribute.E3 it is written to the new thread");
    } else {
        assert!(unsafe { m::SYNC_CALLS } == 0, "C14.distribute.E4 nothing is written when no watchpoint was ever set");
    }
    core::mem::forget(reg);
}


// ---- re-enabling watchpoints after a restart (closure body of WatchpointRegistry::refresh, spliced verbatim)
/// a trivially droppable error type: debugger::Error's recursive drop glue makes CBMC unwind without bound
struct LightErr;
struct WpRec { ok: bool, img: [usize; 6] }
impl WpRec {
    fn scoped(&self) -> bool { false }
    fn refresh(&mut self, _tracee_ctl: &()) -> Result<HardwareDebugState, LightErr> {
        if self.ok { Ok(m::state_of(self.img)) } else { Err(LightErr) }
    }
}
struct DebugeeRec;
impl DebugeeRec { fn tracee_ctl(&self) -> &() { &() } }
struct RegistryRec { last_seen_state: Option<HardwareDebugState> }
impl RegistryRec {
    fn refresh_one(&mut self, wp: &mut WpRec, debugee: &DebugeeRec) -> Option<LightErr> {
        /*@@FRAGMENT:REFRESH*/
    }
}

#[kani::proof]
fn c14_registry_refresh() {
    let old: [usize; 6] = kani::any();
    let had: bool = kani::any();
    let mut reg = RegistryRec { last_seen_state: if had { Some(m::state_of(old)) } else { None } };
    let mut wp = WpRec { ok: kani::any(), img: kani::any() };
    let r = reg.refresh_one(&mut wp, &DebugeeRec);
    if wp.ok {
        assert!(r.is_none(), "C14.registry_refresh.E1 a re-enabled watchpoint reports no error");
        match &reg.last_seen_state {
            Some(s) => assert!(m::image_of(s) == wp.img, "C14.registry_refresh.E2 the registry records the register image of the re-enabled watchpoint (threads created later inherit it)"),
            None => panic!("C14.registry_refresh.E2 the registry records the register image of the re-enabled watchpoint (threads created later inherit it)"),
        }
    } else {
        assert!(r.is_some(), "C14.registry_refresh.E3 a failure is reported");
        match &reg.last_seen_state {
            Some(s) => assert!(had && m::image_of(s) == old, "C14.registry_refresh.E4 a failure leaves the recorded image unchanged"),
            None => assert!(!had, "C14.registry_refresh.E4 a failure leaves the recorded image unchanged"),
        }
    }
    core::mem::forget((r, reg));
}
