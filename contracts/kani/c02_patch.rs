//@ inject: src/debugger/breakpoint.rs
//@ anchor: src/debugger/breakpoint.rs :: impl Breakpoint / fn enable
//@ anchor: src/debugger/breakpoint.rs :: impl Breakpoint / fn disable
//@ anchor: src/debugger/breakpoint.rs :: impl Breakpoint / fn new_linker_map
//@ anchor: src/debugger/breakpoint.rs :: impl BreakpointRegistry / fn add_and_enable
//@ fragment: ADDEN :: src/debugger/breakpoint.rs :: impl BreakpointRegistry / fn add_and_enable :: `if let Some(existed) = self.breakpoints.get(&brkpt.addr) {` .. `brkpt.enable()?;`
//@ harness: name=c02_add_and_enable prop=C02 unit=C02.add_and_enable mode=complete fn="BreakpointRegistry::add_and_enable (disable-existing-then-enable statements)"
//@ assume: C02.add_and_enable: the registry's HashMap<RelocatedAddress, Breakpoint> is replaced by a one-slot map with the same `get` signature (std HashMap is outside CBMC's reach)
//@ anchor: src/debugger/breakpoint.rs :: impl BreakpointRegistry / fn decrease_companion_rc
//@ fragment: COMPRC :: src/debugger/breakpoint.rs :: impl BreakpointRegistry / fn decrease_companion_rc :: `if wps.len() == 1` .. `^Ok(())`
//@ harness: name=c14_companion_rc prop=C14 unit=C14.companion_rc mode=bounded bound="at most 3 watchpoints share one end-of-scope breakpoint" fn="BreakpointRegistry::decrease_companion_rc (reference-count decision)" timeout=600
//@ assume: C14.companion_rc: `self.remove_by_num` is replaced by a recorder; the companion is found by `values_mut().find(..)` over a std HashMap (not verified)
//@ anchor: src/debugger/breakpoint.rs :: impl Breakpoint / fn new_watchpoint_companion
//@ fragment: NEWCOMPALL :: src/debugger/breakpoint.rs :: impl Breakpoint / fn new_watchpoint_companion :: `BEGIN` .. `END`
//@ harness: name=c14_companion_new prop=C14,C02 unit=C14.companion_new mode=complete fn="Breakpoint::new_watchpoint_companion (number / watchpoint-list decision)" timeout=600
//@ assume: C14.companion_new: the registry is a one-slot map with the call shape of BreakpointRegistry::get_enabled; the whole body is spliced verbatim into an impl whose `Self::new_inner` records the (number, watchpoint list) arguments of the real constructor call
//@ harness: name=c02_enable prop=C02,C01 unit=C02.patch.enable mode=complete fn="Breakpoint::enable"
//@ harness: name=c02_disable prop=C02,C01 unit=C02.patch.disable mode=complete fn="Breakpoint::disable"
//@ harness: name=c02_roundtrip prop=C02,C01 unit=C02.patch.roundtrip mode=complete fn="Breakpoint::enable, Breakpoint::disable"
//@ harness: name=c02_reenable prop=C02,C01 unit=C02.patch.reenable mode=complete fn="Breakpoint::enable, Breakpoint::disable"
//@ assume: nix::sys::ptrace::read/write replaced by a one-word memory model: PEEKDATA(a) returns the word at a, POKEDATA(a,w) replaces exactly that word, either may fail and then changes nothing
//@ notcovered: temporary breakpoints removed after steps, disable_all_breakpoints on exit/restart/detach, the original instruction executing once when stepping over (ptrace sequencing), debuggee output/exit status
//
// The INT3 patch primitive (DESIGN 2/C02), for ALL 64-bit words, addresses and saved bytes.
use super::*;

static mut W_ADDR: usize = 0;
static mut W: i64 = 0;
static mut READ_FAILS: bool = false;
static mut WRITE_FAILS: bool = false;
static mut FOREIGN: bool = false;
static mut READS: u32 = 0;
static mut WRITES: u32 = 0;

fn stub_read(_pid: Pid, addr: sys::ptrace::AddressType) -> nix::Result<std::ffi::c_long> {
    unsafe {
        READS += 1;
        if addr as usize != W_ADDR { FOREIGN = true; }
        if READ_FAILS { Err(nix::errno::Errno::ESRCH) } else { Ok(W) }
    }
}
unsafe fn stub_write(_pid: Pid, addr: sys::ptrace::AddressType, data: *mut c_void) -> nix::Result<()> {
    unsafe {
        if addr as usize != W_ADDR { FOREIGN = true; }
        if WRITE_FAILS { return Err(nix::errno::Errno::ESRCH); }
        WRITES += 1;
        W = data as usize as i64;
        Ok(())
    }
}

fn setup() -> (Breakpoint, u64) {
    let addr: usize = kani::any();
    let word: i64 = kani::any();
    unsafe {
        W_ADDR = addr; W = word; FOREIGN = false; READS = 0; WRITES = 0;
        READ_FAILS = false; WRITE_FAILS = false;
    }
    let b = Breakpoint::new_linker_map(RelocatedAddress::from(addr), Pid::from_raw(kani::any()));
    b.saved_data.set(kani::any());
    b.enabled.set(kani::any());
    (b, word as u64)
}
fn mem() -> u64 { unsafe { W as u64 } }

#[kani::proof]
#[kani::stub(nix::sys::ptrace::read, stub_read)]
#[kani::stub(nix::sys::ptrace::write, stub_write)]
fn c02_enable() {
    let (b, old) = setup();
    let rf: bool = kani::any();
    let wf: bool = kani::any();
    unsafe { READ_FAILS = rf; WRITE_FAILS = wf; }
    let was_enabled = b.enabled.get();
    let was_saved = b.saved_data.get();
    let r = b.enable();
    assert!(!unsafe { FOREIGN }, "C02.patch.enable.E1 peek and poke touch exactly the breakpoint address");
    if r.is_ok() {
        assert!(!rf && !wf, "C02.patch.enable.E2 Ok only if both ptrace calls succeeded");
        assert!(mem() & 0xff == 0xCC, "C02.patch.enable.E3 low byte is INT3 (0xCC)");
        assert!(mem() & !0xff == old & !0xff, "C02.patch.enable.E4 the other seven bytes of the word are unchanged");
        assert!(b.saved_data.get() as u64 == old & 0xff, "C02.patch.enable.E5 the original low byte is saved");
        assert!(b.enabled.get(), "C02.patch.enable.E6 marked enabled");
        assert!(unsafe { WRITES } == 1, "C02.patch.enable.E7 exactly one poke");
    } else {
        assert!(rf || wf, "C02.patch.enable.E8 fails only when ptrace fails");
        assert!(mem() == old, "C02.patch.enable.E9 on error memory is unchanged");
        assert!(b.enabled.get() == was_enabled, "C02.patch.enable.E10 on error the enabled flag is unchanged");
        if rf { assert!(b.saved_data.get() == was_saved, "C02.patch.enable.E11 a failed peek leaves the saved byte alone"); }
    }
    kani::cover!(r.is_ok(), "C02.patch.enable.cover ok");
    kani::cover!(old & 0xff == 0xCC && r.is_ok(), "C02.patch.enable.cover already-patched word reachable (recorded precondition: callers disable first)");
    core::mem::forget(r);
    core::mem::forget(b);
}

#[kani::proof]
#[kani::stub(nix::sys::ptrace::read, stub_read)]
#[kani::stub(nix::sys::ptrace::write, stub_write)]
fn c02_disable() {
    let (b, old) = setup();
    let rf: bool = kani::any();
    let wf: bool = kani::any();
    unsafe { READ_FAILS = rf; WRITE_FAILS = wf; }
    let was_enabled = b.enabled.get();
    let saved = b.saved_data.get();
    let r = b.disable();
    assert!(!unsafe { FOREIGN }, "C02.patch.disable.E1 peek and poke touch exactly the breakpoint address");
    if r.is_ok() {
        assert!(mem() & 0xff == saved as u64, "C02.patch.disable.E2 low byte is the saved original byte");
        assert!(mem() & !0xff == old & !0xff, "C02.patch.disable.E3 the other seven bytes of the word are unchanged");
        assert!(!b.enabled.get(), "C02.patch.disable.E4 marked disabled");
        assert!(b.saved_data.get() == saved, "C02.patch.disable.E5 saved byte kept");
        assert!(unsafe { WRITES } == 1, "C02.patch.disable.E6 exactly one poke");
    } else {
        assert!(rf || wf, "C02.patch.disable.E7 fails only when ptrace fails");
        assert!(mem() == old, "C02.patch.disable.E8 on error memory is unchanged");
        assert!(b.enabled.get() == was_enabled, "C02.patch.disable.E9 on error the enabled flag is unchanged");
    }
    core::mem::forget(r);
    core::mem::forget(b);
}

#[kani::proof]
#[kani::stub(nix::sys::ptrace::read, stub_read)]
#[kani::stub(nix::sys::ptrace::write, stub_write)]
fn c02_roundtrip() {
    let (b, old) = setup();
    let r1 = b.enable();
    let r2 = b.disable();
    assert!(r1.is_ok() && r2.is_ok(), "C02.patch.roundtrip.E0");
    assert!(mem() == old, "C02.patch.roundtrip.E1 disable after enable restores the original word: no patched byte remains");
    assert!(!b.enabled.get(), "C02.patch.roundtrip.E2 not enabled afterwards");
    assert!(!unsafe { FOREIGN }, "C02.patch.roundtrip.E3 no other address touched");
    core::mem::forget((r1, r2, b));
}

#[kani::proof]
#[kani::stub(nix::sys::ptrace::read, stub_read)]
#[kani::stub(nix::sys::ptrace::write, stub_write)]
fn c02_reenable() {
    // step-over: disable -> (single step) -> enable, any number of times
    let (b, old) = setup();
    let r1 = b.enable();
    let patched = mem();
    let r2 = b.disable();
    let r3 = b.enable();
    assert!(r1.is_ok() && r2.is_ok() && r3.is_ok(), "C02.patch.reenable.E0");
    assert!(mem() == patched, "C02.patch.reenable.E1 re-arming reproduces the same patched word");
    assert!(b.saved_data.get() as u64 == old & 0xff, "C02.patch.reenable.E2 the saved byte is still the ORIGINAL instruction byte after a step-over");
    let r4 = b.disable();
    assert!(r4.is_ok() && mem() == old, "C02.patch.reenable.E3 final removal restores the original word");
    core::mem::forget((r1, r2, r3, r4, b));
}


// ---- replacing a breakpoint at an address that is already patched (first statements of add_and_enable)
struct OneSlotMap { slot: Breakpoint }
impl OneSlotMap {
    fn get(&self, addr: &RelocatedAddress) -> Option<&Breakpoint> {
        if self.slot.addr.as_usize() == addr.as_usize() { Some(&self.slot) } else { None }
    }
}
struct RegistryShim { breakpoints: OneSlotMap }
impl RegistryShim {
    fn add_and_enable_prefix(&self, brkpt: &Breakpoint) -> Result<(), Error> {
        /*@@FRAGMENT:ADDEN*/
        Ok(())
    }
}

#[kani::proof]
#[kani::stub(nix::sys::ptrace::read, stub_read)]
#[kani::stub(nix::sys::ptrace::write, stub_write)]
fn c02_add_and_enable() {
    let addr: usize = kani::any();
    let word: i64 = kani::any();
    unsafe { W_ADDR = addr; W = word; FOREIGN = false; READS = 0; WRITES = 0; READ_FAILS = false; WRITE_FAILS = false; }
    let orig = word as u64;
    // an active breakpoint already sits at this address
    let existed = Breakpoint::new_linker_map(RelocatedAddress::from(addr), Pid::from_raw(1));
    let r0 = existed.enable();
    assert!(r0.is_ok(), "C02.add_and_enable.E0");
    assert!(existed.saved_data.get() as u64 == orig & 0xff && mem() == (orig & !0xff) | 0xCC, "C02.add_and_enable.E0a the first breakpoint is armed and holds the original byte");
    let reg = RegistryShim { breakpoints: OneSlotMap { slot: existed } };
    let fresh = Breakpoint::new_linker_map(RelocatedAddress::from(addr), Pid::from_raw(1));
    let r1 = reg.add_and_enable_prefix(&fresh);
    assert!(r1.is_ok(), "C02.add_and_enable.E0");
    assert!(reg.breakpoints.get(&fresh.addr).is_some(), "C02.add_and_enable.DBG1 map finds the existing breakpoint");
    assert!(unsafe { READS } == 3, "C02.add_and_enable.DBG2 three peeks");
    assert!(unsafe { WRITES } == 3, "C02.add_and_enable.E0b the old breakpoint was disabled (one peek/poke) before the new one was armed (one peek/poke)");
    assert!(mem() & 0xff == 0xCC && mem() & !0xff == orig & !0xff, "C02.add_and_enable.E1 the address stays patched with INT3, other bytes untouched");
    assert!(fresh.saved_data.get() as u64 == orig & 0xff, "C02.add_and_enable.E2 the replacing breakpoint saved the ORIGINAL instruction byte, not the old patch");
    let r2 = fresh.disable();
    assert!(r2.is_ok() && mem() == orig, "C02.add_and_enable.E3 removing the replacing breakpoint restores the original word");
    assert!(!unsafe { FOREIGN }, "C02.add_and_enable.E4 no other address touched");
    core::mem::forget((r0, r1, r2, reg, fresh));
}


// ---- reference counting of the end-of-scope companion breakpoint (decision statement of decrease_companion_rc)
struct CompanionRec { r#type: BrkptType }
struct RemoveRec { removed: Option<u32> }
impl RemoveRec {
    fn remove_by_num(&mut self, number: u32) -> Result<Option<()>, Error> { self.removed = Some(number); Ok(None) }
    fn decide(&mut self, companion: &mut CompanionRec, num: u32, target_wp_num: u32) -> Result<(), Error> {
        let BrkptType::WatchpointCompanion(wps) = &companion.r#type else { panic!("not a watchpoint companion") };
        /*@@FRAGMENT:COMPRC*/
        Ok(())
    }
}

fn check_companion(n: usize) {
    // n is concrete: a companion shared by n watchpoints with symbolic, pairwise different numbers
    let ws: [u32; 3] = kani::any();
    kani::assume(ws[0] != ws[1] && ws[0] != ws[2] && ws[1] != ws[2]);
    let ti: usize = kani::any();
    kani::assume(ti < n);
    let target = ws[ti];
    let v: Vec<u32> = match n { 1 => vec![ws[0]], 2 => vec![ws[0], ws[1]], _ => vec![ws[0], ws[1], ws[2]] };
    let mut comp = CompanionRec { r#type: BrkptType::WatchpointCompanion(v) };
    let num: u32 = kani::any();
    let mut reg = RemoveRec { removed: None };
    let r = reg.decide(&mut comp, num, target);
    assert!(r.is_ok(), "C14.companion_rc.E0");
    core::mem::forget(r);
    if n == 1 {
        assert!(reg.removed == Some(num), "C14.companion_rc.E1 the end-of-scope breakpoint is removed with its last watchpoint");
    } else {
        assert!(reg.removed.is_none(), "C14.companion_rc.E2 the end-of-scope breakpoint stays while another watchpoint of the scope needs it");
        match &comp.r#type {
            BrkptType::WatchpointCompanion(left) => {
                assert!(left.len() == n - 1, "C14.companion_rc.E3 exactly the removed watchpoint is dropped from the companion");
                let mut j = 0;
                let mut idx = 0;
                while j < n {
                    if j != ti {
                        assert!(left[idx] == ws[j], "C14.companion_rc.E4 the other watchpoints stay registered, in order");
                        idx += 1;
                    }
                    j += 1;
                }
            }
            _ => panic!("C14.companion_rc.E3 exactly the removed watchpoint is dropped from the companion"),
        }
    }
    core::mem::forget(comp);
}

#[kani::proof]
#[kani::unwind(6)]
fn c14_companion_rc() {
    check_companion(1);
    check_companion(2);
    check_companion(3);
}


// ---- creating the end-of-scope companion of a watchpoint (statements of new_watchpoint_companion before new_inner)
struct RegistryOne { slot: Breakpoint }
impl RegistryOne {
    fn get_enabled(&self, addr: RelocatedAddress) -> Option<&Breakpoint> {
        if self.slot.addr.as_usize() == addr.as_usize() { Some(&self.slot) } else { None }
    }
}

/// stands for `Self::new_inner(addr, pid, number, None, BrkptType::WatchpointCompanion(list), PathBuf::default())`:
/// records the breakpoint number and the watchpoint list the real call receives
struct NewInnerArgs { number: u32, list: Vec<u32> }
impl NewInnerArgs {
    fn new_inner(_addr: RelocatedAddress, _pid: Pid, number: u32, _place: Option<PlaceDescriptorOwned>, ty: BrkptType, _file: PathBuf) -> NewInnerArgs {
        match ty { BrkptType::WatchpointCompanion(list) => NewInnerArgs { number, list }, _ => panic!("C14.companion_new.E0 a companion is created") }
    }
    fn companion(registry: &RegistryOne, wp_num: u32, addr: RelocatedAddress, pid: Pid) -> NewInnerArgs {
        /*@@FRAGMENT:NEWCOMPALL*/
    }
}

#[kani::proof]
#[kani::unwind(6)]
fn c14_companion_new() {
    let a: usize = kani::any();
    let other: usize = kani::any();
    let same: bool = kani::any();
    kani::assume(other != a);
    let n0: u32 = kani::any();
    let w0: u32 = kani::any();
    let wp: u32 = kani::any();
    let is_companion: bool = kani::any();
    let mut existing = Breakpoint::new_linker_map(RelocatedAddress::from(if same { a } else { other }), Pid::from_raw(1));
    existing.number = n0;
    if is_companion { existing.r#type = BrkptType::WatchpointCompanion(vec![w0]); }
    let reg = RegistryOne { slot: existing };
    let made = NewInnerArgs::companion(&reg, wp, RelocatedAddress::from(a), Pid::from_raw(1));
    let (num, list) = (made.number, made.list);
    if same && is_companion {
        assert!(num == n0, "C14.companion_new.E1 a second watchpoint of the same scope shares the existing end-of-scope breakpoint (same number, so the reference count can find it)");
        assert!(list.len() == 2 && list[0] == w0 && list[1] == wp, "C14.companion_new.E2 the new watchpoint is added to the companion's list, the earlier ones are kept");
    } else {
        assert!(list.len() == 1 && list[0] == wp, "C14.companion_new.E3 a fresh companion references exactly the new watchpoint");
    }
    core::mem::forget((reg, list));
}
