//@ inject: src/debugger/debugee/dwarf/unit/die_ref.rs
//@ anchor: src/debugger/debugee/dwarf/unit/die_ref.rs :: impl<'dbg> FatDieRef<'dbg, Variable> / fn valid_at
//@ fragment: VALID :: src/debugger/debugee/dwarf/unit/die_ref.rs :: impl<'dbg> FatDieRef<'dbg, Variable> / fn valid_at :: `BEGIN` .. `END`
//@ harness: name=c19_valid_at prop=C19 unit=C19.valid_at mode=bounded bound="enclosing blocks with at most 2 address ranges" fn="FatDieRef<Variable>::valid_at" timeout=600
//@ assume: C19.valid_at: `self.ranges()` (walk up the DIE parent index to the enclosing lexical_block / subprogram: gimli + IndexMap) is replaced by a recorder returning a symbolic range list or None
//@ notcovered: finding the enclosing block, the order in which candidate DIEs are visited (first valid match wins: observation, shadowed names resolve to the outermost valid binding), location lists
//
// The lexical-scope filter: a variable is in scope at pc iff pc lies in one of the half-open address ranges
// [begin, end) of its enclosing block (DWARF 2.17), or no enclosing block is known.
use super::*;

use gimli::Range;
struct VarRec { rs: Option<Vec<Range>> }
impl VarRec {
    fn ranges(&self) -> Option<Box<[Range]>> {
        self.rs.as_ref().map(|v| v.clone().into_boxed_slice())
    }
    fn valid_at(&self, pc: GlobalAddress) -> bool {
        /*@@FRAGMENT:VALID*/
    }
}

#[kani::proof]
#[kani::unwind(5)]
fn c19_valid_at() {
    let pc: usize = kani::any();
    let known: bool = kani::any();
    let n: u8 = kani::any();
    kani::assume(n <= 2);
    let r0 = Range { begin: kani::any(), end: kani::any() };
    let r1 = Range { begin: kani::any(), end: kani::any() };
    let v = match n { 0 => vec![], 1 => vec![r0], _ => vec![r0, r1] };
    let var = VarRec { rs: if known { Some(v) } else { None } };
    let got = var.valid_at(GlobalAddress::from(pc));
    let p = pc as u64;
    let in0 = n >= 1 && r0.begin <= p && p < r0.end;
    let in1 = n >= 2 && r1.begin <= p && p < r1.end;
    let want = !known || in0 || in1;
    assert!(got == want, "C19.valid_at.E1 in scope iff pc lies in a half-open range [begin, end) of the enclosing block (the first address after a block is outside it)");
    core::mem::forget(var);
}
