//@ inject: src/debugger/call/mod.rs
//@ anchor: src/debugger/call/mod.rs :: fn get_reg_for_no
//@ anchor: src/debugger/call/mod.rs :: impl CallArgs / fn prepare_registers
//@ harness: name=c16_reg_for_no prop=C16 unit=C16.reg_for_no mode=complete fn="get_reg_for_no"
//@ harness: name=c16_prepare prop=C16 unit=C16.prepare mode=complete fn="CallArgs::prepare_registers" timeout=600
//@ notcovered: liter_to_arg_bin_repr (needs a populated ComplexType HashMap), mmap/munmap/jump sequencing through ptrace, exactly-once execution, error paths of with_ccx, vard/argd formatting, the CallCache
//
// SysV argument placement (DESIGN 2/C16).  Oracle: psABI 3.2.3: INTEGER args in rdi, rsi, rdx, rcx, r8, r9.
use super::*;

fn sysv(n: usize) -> Register {
    match n { 0 => Register::Rdi, 1 => Register::Rsi, 2 => Register::Rdx, 3 => Register::Rcx, 4 => Register::R8, _ => Register::R9 }
}

const ALL: [Register; 27] = [
    Register::Rax, Register::Rbx, Register::Rcx, Register::Rdx, Register::Rdi, Register::Rsi, Register::Rbp,
    Register::Rsp, Register::R8, Register::R9, Register::R10, Register::R11, Register::R12, Register::R13,
    Register::R14, Register::R15, Register::Rip, Register::Eflags, Register::Cs, Register::OrigRax,
    Register::FsBase, Register::GsBase, Register::Fs, Register::Gs, Register::Ss, Register::Ds, Register::Es,
];

#[kani::proof]
fn c16_reg_for_no() {
    let n: usize = kani::any();
    kani::assume(n < 6); // recorded precondition (unreachable! otherwise); CallArgs::new establishes len <= 6
    assert!(get_reg_for_no(n, RegType::General) == sysv(n), "C16.reg_for_no.E1 argument n goes to the n-th SysV integer register");
}

fn check_prepare(n: usize) {
    // n is concrete here: a concrete-length argument list with symbolic values
    let vals: [u64; 6] = kani::any();
    let mut v: Vec<(u64, RegType)> = Vec::with_capacity(6);
    let mut k = 0;
    while k < n { v.push((vals[k], RegType::General)); k += 1; }
    let args = CallArgs(v.into_boxed_slice());
    let words: [u64; 27] = kani::any();
    let raw: nix::libc::user_regs_struct = unsafe { core::mem::transmute(words) };
    let mut m = RegisterMap::from(raw);   // every register symbolic
    let old = m.clone();
    args.prepare_registers(&mut m);
    let r_i: usize = kani::any();
    kani::assume(r_i < 27);
    let r = ALL[r_i];
    let mut is_arg = false;
    let mut a = 0;
    while a < n {
        if r == sysv(a) {
            is_arg = true;
            assert!(m.value(r) == vals[a], "C16.prepare.E1 the a-th argument register holds exactly the a-th argument");
        }
        a += 1;
    }
    if !is_arg {
        assert!(m.value(r) == old.value(r), "C16.prepare.E2 frame: every register that is not an argument register is unchanged");
    }
}

#[kani::proof]
#[kani::unwind(8)]
fn c16_prepare() {
    let mut n = 0;
    while n <= 6 { check_prepare(n); n += 1; }
}
