//@ inject: src/debugger/call/mod.rs
//@ anchor: src/debugger/call/mod.rs :: fn get_reg_for_no
//@ anchor: src/debugger/call/mod.rs :: impl CallArgs / fn prepare_registers
//@ anchor: src/debugger/call/mod.rs :: impl CallHelper / fn call_fn
//@ anchor: src/debugger/call/mod.rs :: impl CallHelper / fn jump
//@ fragment: CALLFN :: src/debugger/call/mod.rs :: impl CallHelper / fn call_fn :: `const CALL_FN: usize =` .. `;`
//@ fragment: CALLREGS :: src/debugger/call/mod.rs :: impl CallHelper / fn call_fn :: `let mut regs: RegisterMap = ccx.regs.clone();` .. `regs.update(Register::Rip, rip);`
//@ fragment: JMPTEXT :: src/debugger/call/mod.rs :: impl CallHelper / fn jump :: `const JMP_RAX: usize` .. `let new_text = (ccx.text & JMP_RAX_MASK) | JMP_RAX;`
//@ harness: name=c16_trampoline prop=C16 unit=C16.trampoline mode=complete fn="CallHelper::call_fn (trampoline word + register set-up statements), CallHelper::jump (jmp *%rax patch word)" timeout=600
//@ anchor: src/debugger/call/mod.rs :: impl CallContext<'a> / fn retrieve_original_state
//@ fragment: RESTORE :: src/debugger/call/mod.rs :: impl CallContext<'a> / fn retrieve_original_state :: `self.regs.clone().persist(self.pid)?;` .. `Ok(())`
//@ harness: name=c16_restore prop=C16 unit=C16.restore mode=complete fn="CallContext::retrieve_original_state" timeout=600
//@ assume: C16.restore: `self.dbg.write_memory` is replaced by a recorder with the signature of Debugger::write_memory (one PTRACE_POKEDATA); nix::sys::ptrace::setregs is stubbed by a recorder
//@ anchor: src/debugger/call/mod.rs :: impl Debugger / fn with_disabled_brkpts
//@ fragment: WDB :: src/debugger/call/mod.rs :: impl Debugger / fn with_disabled_brkpts :: `BEGIN` .. `END`
//@ harness: name=c16_with_disabled prop=C16,C02 unit=C16.with_disabled_brkpts mode=bounded bound="two active breakpoints" fn="Debugger::with_disabled_brkpts" timeout=900
//@ assume: C16.with_disabled_brkpts: `self.breakpoints.active_breakpoints()` is replaced by a two-element recorder list (std HashMap values) and Breakpoint::enable/disable by flag recorders (the patch primitive itself is proved as C02.patch.*)
//@ fragment: LITINT :: src/debugger/call/mod.rs :: fn liter_to_arg_bin_repr :: `let mut bytes = [0u8; 8];` .. `^(u64::from_le_bytes(bytes), RegType::General)`
//@ harness: name=c16_lit_int prop=C16 unit=C16.lit_int mode=complete fn="liter_to_arg_bin_repr (integer literal -> register image, statement fragment)" timeout=600
//@ assume: C16.lit_int: the two bail-out macros of liter_to_arg_bin_repr are replaced by `return Err(())`; the parameter type is reduced to (encoding, byte_size); oracle: an integer literal that FITS the parameter type is passed as the little-endian two's-complement image of the parameter's width in the low bytes of the register, upper bytes zero; literals that do not fit are truncated to the width (recorded behaviour of the code, not a claim of the property)
//@ harness: name=c16_reg_for_no prop=C16 unit=C16.reg_for_no mode=complete fn="get_reg_for_no"
//@ harness: name=c16_prepare prop=C16 unit=C16.prepare mode=complete fn="CallArgs::prepare_registers" timeout=600
//@ notcovered: liter_to_arg_bin_repr (needs a populated ComplexType HashMap), mmap/munmap/jump sequencing through ptrace, exactly-once execution, error paths of with_ccx, vard/argd formatting, the CallCache
//
// SysV argument placement (DESIGN 2/C16).  Oracle: psABI 3.2.3: INTEGER args in rdi, rsi, rdx, rcx, r8, r9.
use super::*;

fn sysv(n: usize) -> Register {
    match n { 0 => Register::Rdi, 1 => Register::Rsi, 2 => Register::Rdx, 3 => Register::Rcx, 4 => Register::R8, _ => Register::R9 }
}

const ALL: [Register; 27] = [
    Register::Rax, Register::Rbx, Register::Rcx, Register::Rdx, Register::Rdi, Register::Rsi, Register::Rbp,
    Register::Rsp, Register::R8, Register::R9, Register::R10, Register::R11, Register::R12, Register::R13,
    Register::R14, Register::R15, Register::Rip, Register::Eflags, Register::Cs, Register::OrigRax,
    Register::FsBase, Register::GsBase, Register::Fs, Register::Gs, Register::Ss, Register::Ds, Register::Es,
];

#[kani::proof]
fn c16_reg_for_no() {
    let n: usize = kani::any();
    kani::assume(n < 6); // recorded precondition (unreachable! otherwise); CallArgs::new establishes len <= 6
    assert!(get_reg_for_no(n, RegType::General) == sysv(n), "C16.reg_for_no.E1 argument n goes to the n-th SysV integer register");
}

fn check_prepare(n: usize) {
    // n is concrete here: a concrete-length argument list with symbolic values
    let vals: [u64; 6] = kani::any();
    let mut v: Vec<(u64, RegType)> = Vec::with_capacity(6);
    let mut k = 0;
    while k < n { v.push((vals[k], RegType::General)); k += 1; }
    let args = CallArgs(v.into_boxed_slice());
    let words: [u64; 27] = kani::any();
    let raw: nix::libc::user_regs_struct = unsafe { core::mem::transmute(words) };
    let mut m = RegisterMap::from(raw);   // every register symbolic
    let old = m.clone();
    args.prepare_registers(&mut m);
    let r_i: usize = kani::any();
    kani::assume(r_i < 27);
    let r = ALL[r_i];
    let mut is_arg = false;
    let mut a = 0;
    while a < n {
        if r == sysv(a) {
            is_arg = true;
            assert!(m.value(r) == vals[a], "C16.prepare.E1 the a-th argument register holds exactly the a-th argument");
        }
        a += 1;
    }
    if !is_arg {
        assert!(m.value(r) == old.value(r), "C16.prepare.E2 frame: every register that is not an argument register is unchanged");
    }
}

#[kani::proof]
#[kani::unwind(8)]
fn c16_prepare() {
    let mut n = 0;
    while n <= 6 { check_prepare(n); n += 1; }
}


// ---- trampoline words and register set-up (statement fragments of call_fn / jump, spliced verbatim)
struct Ccx { regs: RegisterMap, text: usize }

fn call_fn_word() -> usize {
    /*@@FRAGMENT:CALLFN*/
    CALL_FN
}

fn call_fn_regs(ccx: &Ccx, rip: u64, fn_addr: u64, args: CallArgs) -> RegisterMap {
    /*@@FRAGMENT:CALLREGS*/
    regs
}

fn jump_word(ccx: &Ccx) -> usize {
    /*@@FRAGMENT:JMPTEXT*/
    new_text
}

#[kani::proof]
#[kani::unwind(8)]
fn c16_trampoline() {
    // x86-64 encoding: FF D0 = call *%rax ; CC = int3 ; FF E0 = jmp *%rax
    let w = call_fn_word().to_le_bytes();
    assert!(w[0] == 0xFF && w[1] == 0xD0 && w[2] == 0xCC, "C16.trampoline.E1 the injected text is `call *%rax; int3`");
    assert!(w[3] == 0 && w[4] == 0 && w[5] == 0 && w[6] == 0 && w[7] == 0, "C16.trampoline.E2 nothing else is injected");

    let words: [u64; 27] = kani::any();
    let raw: nix::libc::user_regs_struct = unsafe { core::mem::transmute(words) };
    let ccx = Ccx { regs: RegisterMap::from(raw), text: kani::any() };
    let old = ccx.regs.clone();

    let j = jump_word(&ccx).to_le_bytes();
    let t = ccx.text.to_le_bytes();
    assert!(j[0] == 0xFF && j[1] == 0xE0, "C16.trampoline.E3 the jump patch is `jmp *%rax`");
    assert!(j[2] == t[2] && j[3] == t[3] && j[4] == t[4] && j[5] == t[5] && j[6] == t[6] && j[7] == t[7],
        "C16.trampoline.E4 the other six bytes of the patched word are the original code bytes");

    let rip: u64 = kani::any();
    let fn_addr: u64 = kani::any();
    let a0: u64 = kani::any();
    let a1: u64 = kani::any();
    let args = CallArgs(vec![(a0, RegType::General), (a1, RegType::General)].into_boxed_slice());
    let regs = call_fn_regs(&ccx, rip, fn_addr, args);
    assert!(regs.value(Register::Rax) == fn_addr, "C16.trampoline.E5 rax holds the function address the trampoline calls");
    assert!(regs.value(Register::Rip) == rip, "C16.trampoline.E6 rip points at the trampoline");
    assert!(regs.value(Register::Rdi) == a0 && regs.value(Register::Rsi) == a1, "C16.trampoline.E7 the arguments are in place");
    let r_i: usize = kani::any();
    kani::assume(r_i < 27);
    let r = ALL[r_i];
    if r != Register::Rax && r != Register::Rip && r != Register::Rdi && r != Register::Rsi {
        assert!(regs.value(r) == old.value(r), "C16.trampoline.E8 every other register keeps the value saved at the call (incl. rsp)");
    }
}


// ---- state restore after an injected call (body of retrieve_original_state, spliced verbatim)
static mut SETREGS_CALLS: u32 = 0;
static mut SETREGS_IMG: [u64; 27] = [0; 27];
static mut POKE_CALLS: u32 = 0;
static mut POKE_ADDR: usize = 0;
static mut POKE_VAL: usize = 0;

fn stub_setregs(_pid: nix::unistd::Pid, regs: nix::libc::user_regs_struct) -> nix::Result<()> {
    unsafe {
        SETREGS_CALLS += 1;
        SETREGS_IMG = core::mem::transmute(regs);
    }
    Ok(())
}

struct RecDbg;
impl RecDbg {
    fn write_memory(&self, addr: usize, value: usize) -> Result<(), Error> {
        unsafe { POKE_CALLS += 1; POKE_ADDR = addr; POKE_VAL = value; }
        Ok(())
    }
}

struct SavedState { dbg: RecDbg, pid: nix::unistd::Pid, pc: RelocatedAddress, regs: RegisterMap, text: usize }
impl SavedState {
    fn retrieve_original_state(self) -> Result<(), Error> {
        /*@@FRAGMENT:RESTORE*/
    }
}

#[kani::proof]
#[kani::stub(nix::sys::ptrace::setregs, stub_setregs)]
fn c16_restore() {
    let words: [u64; 27] = kani::any();
    let raw: nix::libc::user_regs_struct = unsafe { core::mem::transmute(words) };
    let pc: usize = kani::any();
    let text: usize = kani::any();
    let st = SavedState { dbg: RecDbg, pid: nix::unistd::Pid::from_raw(kani::any()), pc: RelocatedAddress::from(pc), regs: RegisterMap::from(raw), text };
    let r = st.retrieve_original_state();
    assert!(r.is_ok(), "C16.restore.E0");
    core::mem::forget(r);
    unsafe {
        assert!(SETREGS_CALLS == 1 && SETREGS_IMG == words, "C16.restore.E1 every register is restored to the value saved before the call");
        assert!(POKE_CALLS == 1 && POKE_ADDR == pc && POKE_VAL == text, "C16.restore.E2 the code word at the saved pc is restored to the saved text");
    }
}


// ---- breakpoints are disabled around an injected call and re-armed afterwards, also when the call is rejected
struct BpFlag { armed: core::cell::Cell<bool> }
impl BpFlag {
    fn disable(&self) -> Result<(), Error> { self.armed.set(false); Ok(()) }
    fn enable(&self) -> Result<(), Error> { self.armed.set(true); Ok(()) }
}
struct TwoBps { a: BpFlag, b: BpFlag }
impl TwoBps { fn active_breakpoints(&self) -> Vec<&BpFlag> { vec![&self.a, &self.b] } }
struct DbgShim { breakpoints: TwoBps, seen_disarmed: core::cell::Cell<bool> }
impl DbgShim {
    fn with_disabled_brkpts<F>(&self, f: F) -> Result<(), Error>
    where
        F: FnOnce(&Self) -> Result<(), Error>,
    {
        /*@@FRAGMENT:WDB*/
    }
}

#[kani::proof]
#[kani::unwind(4)]
fn c16_with_disabled() {
    let d = DbgShim { breakpoints: TwoBps { a: BpFlag { armed: core::cell::Cell::new(true) }, b: BpFlag { armed: core::cell::Cell::new(true) } }, seen_disarmed: core::cell::Cell::new(false) };
    let reject: bool = kani::any();
    let r = d.with_disabled_brkpts(|dd| {
        dd.seen_disarmed.set(!dd.breakpoints.a.armed.get() && !dd.breakpoints.b.armed.get());
        if reject { Err(Error::ProcessNotStarted) } else { Ok(()) }
    });
    assert!(d.seen_disarmed.get(), "C16.with_disabled_brkpts.E1 every breakpoint is disarmed while the injected call runs");
    assert!(d.breakpoints.a.armed.get() && d.breakpoints.b.armed.get(), "C16.with_disabled_brkpts.E2 every breakpoint is armed again afterwards, also when the call was rejected");
    assert!(r.is_err() == reject, "C16.with_disabled_brkpts.E3 the outcome of the call is reported");
    core::mem::forget(r);
}


// ---- integer literal -> SysV integer-register image (statement fragment of liter_to_arg_bin_repr) -----------
struct ScalarTy { byte_size: Option<u64> }
macro_rules! unsup_arg_bail { ($($t:tt)*) => { return Err(()) }; }
macro_rules! lit_cast_bail { ($($t:tt)*) => { return Err(()) }; }
fn lit_int_image(val: &i64, encoding: gimli::DwAte, scalar_type: &ScalarTy) -> Result<u64, ()> {
    let (no, to_type, root_type_id) = (0usize, (), ());
    let _ = (no, to_type, root_type_id);
    /*@@FRAGMENT:LITINT*/
    Ok(u64::from_le_bytes(bytes))
}

#[kani::proof]
fn c16_lit_int() {
    let val: i64 = kani::any();
    let size: u64 = kani::any();
    let which: u8 = kani::any();
    kani::assume(which < 4);
    let (encoding, signed, char_like) = match which {
        0 => (gimli::DW_ATE_signed, true, false),
        1 => (gimli::DW_ATE_unsigned, false, false),
        2 => (gimli::DW_ATE_signed_char, true, true),
        _ => (gimli::DW_ATE_unsigned_char, false, true),
    };
    let ty = ScalarTy { byte_size: Some(size) };
    let r = lit_int_image(&val, encoding, &ty);
    let width = if char_like { 1 } else { size };
    if !(width == 1 || width == 2 || width == 4 || width == 8) {
        assert!(r.is_err(), "C16.lit_int.E1 an integer parameter of an unsupported width is refused, not guessed");
        return;
    }
    let bits = width * 8;
    let fits = if width == 8 { signed || val >= 0 } else if signed { val >= -(1i64 << (bits - 1)) && val < (1i64 << (bits - 1)) } else { val >= 0 && val < (1i64 << bits) };
    match r {
        Err(_) => panic!("C16.lit_int.E2 supported widths are accepted"),
        Ok(img) => {
            let mask: u64 = if width == 8 { u64::MAX } else { (1u64 << bits) - 1 };
            assert!(img & !mask == 0, "C16.lit_int.E3 the bytes above the parameter's width are zero");
            if fits {
                assert!(img == (val as u64) & mask, "C16.lit_int.E4 a literal that fits is passed as its two's-complement image of the parameter's width");
            }
        }
    }
    kani::cover!(fits && width == 2 && val < 0, "negative 16-bit argument");
    kani::cover!(!fits && width == 4, "literal wider than the parameter");
}
