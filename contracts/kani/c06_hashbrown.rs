//@ inject: src/debugger/variable/value/specialization/hashbrown.rs
//@ anchor: src/debugger/variable/value/specialization/hashbrown.rs :: impl GroupReflection / fn match_empty_or_deleted
//@ anchor: src/debugger/variable/value/specialization/hashbrown.rs :: impl BitMask / fn invert
//@ anchor: src/debugger/variable/value/specialization/hashbrown.rs :: impl BitMask / fn remove_lowest_bit
//@ anchor: src/debugger/variable/value/specialization/hashbrown.rs :: impl BitMask / fn lowest_set_bit
//@ harness: name=c06_group_mask prop=C06 unit=C06.group_mask mode=complete fn="GroupReflection::match_empty_or_deleted, BitMask::invert" timeout=900
//@ harness: name=c06_bitmask_iter prop=C06 unit=C06.bitmask_iter mode=complete fn="BitMask::lowest_set_bit, BitMask::remove_lowest_bit, BitMask::trailing_zeros"
//@ notcovered: bucket address arithmetic (BucketReflection::next_n does ptr.sub on integer-derived pointers: rejected by Kani, no raw pointer arithmetic in Verus), the walk across groups, type-graph driven parsing, enum niches, B-tree walk, strings, rendering, type names
//
// hashbrown control-byte group scan (DESIGN 2/C06).  Oracle: hashbrown's generic Group::match_empty_or_deleted
// (EMPTY = 0xFF, DELETED = 0x80, FULL = 0x00..0x7F: "special" iff the top bit is set).
use super::*;

#[kani::proof]
#[kani::unwind(18)]
fn c06_group_mask() {
    let ctrl: [u8; 16] = kani::any();
    let i: usize = kani::any();
    kani::assume(i < 16);
    let mask = GroupReflection(ctrl).match_empty_or_deleted();
    assert!(((mask.0 >> i) & 1 == 1) == (ctrl[i] & 0x80 != 0), "C06.group_mask.E1 bit i of the mask is set iff control byte i is EMPTY or DELETED");
    let full = mask.invert();
    assert!(((full.0 >> i) & 1 == 1) == (ctrl[i] & 0x80 == 0), "C06.group_mask.E2 inverted mask marks exactly the FULL buckets");
}

#[kani::proof]
#[kani::unwind(18)]
fn c06_bitmask_iter() {
    // repeated lowest_set_bit / remove_lowest_bit enumerates exactly the set bits, ascending, each once
    let m0: u16 = kani::any();
    let mut m = BitMask(m0);
    let mut seen: u16 = 0;
    let mut last: i32 = -1;
    let mut steps = 0;
    while steps < 17 {
        match m.lowest_set_bit() {
            None => break,
            Some(i) => {
                assert!(i < 16, "C06.bitmask_iter.E1 index in the group");
                assert!((m0 >> i) & 1 == 1, "C06.bitmask_iter.E2 only set bits are reported (nothing invented)");
                assert!(i as i32 > last, "C06.bitmask_iter.E3 strictly ascending (nothing duplicated)");
                last = i as i32;
                seen |= 1 << i;
                assert!(m.0 != 0, "C06.bitmask_iter.E4 remove_lowest_bit is only called on a non-zero mask");
                m = m.remove_lowest_bit();
            }
        }
        steps += 1;
    }
    assert!(m.0 == 0 && seen == m0, "C06.bitmask_iter.E5 every set bit is reported (nothing missing) and the iteration ends");
    assert!(steps as u32 == m0.count_ones(), "C06.bitmask_iter.E6 exactly popcount steps");
}
