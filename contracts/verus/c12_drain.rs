//@ unit: C12.drain_events
//@ props: C12
//@ source: src/dap/yadap/session/mod.rs
//@ fn: DebugSession::drain_events
//@ shim: src/dap/yadap/session/mod.rs :: struct DebugSession :: events: Vec<InternalEvent>, terminated: bool, exit_code: Option<i32>
//@ assume: the send_* methods are replaced by recorders that append the KIND of each DAP event to a ghost `wire` sequence on the session shim: send_events(filter=Output) appends only `output` events, send_events(all) appends one event per queued internal event of the same kind, emit_process_end appends module/loadedSource/thread-exited events, send_event_body("exited", code) appends `exited(code)`, send_event("terminated") appends `terminated`; a failing send appends nothing more (serde_json + transport: external)
//@ assume: InternalEvent is reduced to the variants drain_events distinguishes (Exited{code}, Terminated, Output, everything else)
//@ notcovered: responses (one per request, request_seq), sequence numbers across the forwarder threads (concurrency), the 40 request handlers, stop/continue/thread events' causal order
use vstd::prelude::*;
verus! {
//@ include: prelude.rs

pub struct AnyErr;

pub enum InternalEvent {
    Exited { code: i32 },
    Terminated,
    Output,
    Other,
}

/// kind of a DAP event put on the wire
pub enum Wire { Output, ProcessEnd, Exited(i32), Terminated, Other }

pub struct DebugSession {
    pub events: Vec<InternalEvent>,
    pub terminated: bool,
    pub exit_code: Option<i32>,
    pub wire: Ghost<Seq<Wire>>,
}

/// `std::mem::take(&mut v)`: returns the old vector and leaves an empty one (std)
#[verifier::external_body]
fn outline_take_events(v: &mut Vec<InternalEvent>) -> (r: Vec<InternalEvent>)
    ensures r@ == old(v)@, final(v)@.len() == 0,
{ unimplemented!() }

pub open spec fn no_terminated(w: Seq<Wire>) -> bool { forall|i: int| 0 <= i < w.len() ==> !(#[trigger] w[i] is Terminated) }

/// lifecycle invariant: `terminated` is on the wire at most once, it is the last event, and the latch is set with it
pub open spec fn wf_session(s: &DebugSession) -> bool {
    if s.terminated {
        // the latch is set before the event is sent, so the event may still be missing if the send failed
        no_terminated(s.wire@) || (s.wire@.len() > 0 && s.wire@.last() is Terminated && no_terminated(s.wire@.drop_last()))
    } else {
        no_terminated(s.wire@)
    }
}

pub open spec fn has_exited(s: Seq<InternalEvent>) -> bool { exists|i: int| 0 <= i < s.len() && #[trigger] s[i] is Exited }
pub open spec fn has_term(s: Seq<InternalEvent>) -> bool { exists|i: int| 0 <= i < s.len() && #[trigger] s[i] is Terminated }

proof fn lemma_has_push(s: Seq<InternalEvent>, x: InternalEvent)
    ensures
        has_exited(s.push(x)) == (has_exited(s) || x is Exited),
        has_term(s.push(x)) == (has_term(s) || x is Terminated),
{
    let t = s.push(x);
    if has_exited(s) { let i = choose|i: int| 0 <= i < s.len() && #[trigger] s[i] is Exited; assert(t[i] is Exited); }
    if x is Exited { assert(t[s.len() as int] is Exited); }
    if has_exited(t) { let i = choose|i: int| 0 <= i < t.len() && #[trigger] t[i] is Exited; if i < s.len() { assert(s[i] is Exited); } }
    if has_term(s) { let i = choose|i: int| 0 <= i < s.len() && #[trigger] s[i] is Terminated; assert(t[i] is Terminated); }
    if x is Terminated { assert(t[s.len() as int] is Terminated); }
    if has_term(t) { let i = choose|i: int| 0 <= i < t.len() && #[trigger] t[i] is Terminated; if i < s.len() { assert(s[i] is Terminated); } }
}

impl DebugSession {
    /// self.send_events(|ev| matches!(ev, InternalEvent::Output { .. }), &drained)
    #[verifier::external_body]
    fn send_output_events(&mut self, drained: &Vec<InternalEvent>) -> (r: Result<(), AnyErr>)
        ensures
            final(self).events@ == old(self).events@, final(self).terminated == old(self).terminated, final(self).exit_code == old(self).exit_code,
            exists|suffix: Seq<Wire>| #[trigger] (old(self).wire@ + suffix) == final(self).wire@ && (forall|i: int| 0 <= i < suffix.len() ==> #[trigger] suffix[i] is Output),
    { unimplemented!() }

    /// self.send_events(|_| true, &drained)
    #[verifier::external_body]
    fn send_all_events(&mut self, drained: &Vec<InternalEvent>) -> (r: Result<(), AnyErr>)
        ensures
            final(self).events@ == old(self).events@, final(self).terminated == old(self).terminated, final(self).exit_code == old(self).exit_code,
            // one wire event per internal event, of the same kind; in particular `terminated` only for a Terminated
            exists|suffix: Seq<Wire>| #[trigger] (old(self).wire@ + suffix) == final(self).wire@ && (!has_term(drained@) ==> no_terminated(suffix)),
    { unimplemented!() }

    #[verifier::external_body]
    fn emit_process_end(&mut self) -> (r: Result<(), AnyErr>)
        ensures
            final(self).events@ == old(self).events@, final(self).terminated == old(self).terminated, final(self).exit_code == old(self).exit_code,
            exists|suffix: Seq<Wire>| #[trigger] (old(self).wire@ + suffix) == final(self).wire@ && (forall|i: int| 0 <= i < suffix.len() ==> #[trigger] suffix[i] is ProcessEnd),
    { unimplemented!() }

    /// self.send_event_body("exited", json!({ "exitCode": code }))
    #[verifier::external_body]
    fn send_exited(&mut self, code: i32) -> (r: Result<(), AnyErr>)
        ensures
            final(self).events@ == old(self).events@, final(self).terminated == old(self).terminated, final(self).exit_code == old(self).exit_code,
            r is Ok ==> final(self).wire@ == old(self).wire@.push(Wire::Exited(code)),
            r is Err ==> final(self).wire@ == old(self).wire@,
    { unimplemented!() }

    /// self.send_event("terminated")
    #[verifier::external_body]
    fn send_terminated(&mut self) -> (r: Result<(), AnyErr>)
        ensures
            final(self).events@ == old(self).events@, final(self).terminated == old(self).terminated, final(self).exit_code == old(self).exit_code,
            r is Ok ==> final(self).wire@ == old(self).wire@.push(Wire::Terminated),
            r is Err ==> final(self).wire@ == old(self).wire@,
    { unimplemented!() }

//@ extract: impl DebugSession / fn drain_events
//@   sig: fn drain_events(&mut self) -> (r: Result<(), AnyErr>)
//@   ensures E_latch: old(self).terminated ==> final(self).wire@ == old(self).wire@ && final(self).terminated
//@   ensures E_wf: wf_session(old(self)) ==> wf_session(final(self))
//@   ensures E_empty: final(self).events@.len() == 0
//@   ensures E_exit: r is Ok && !old(self).terminated && has_exited(old(self).events@) ==> final(self).terminated && final(self).exit_code is Some && final(self).wire@.len() >= 2 && final(self).wire@.last() is Terminated && final(self).wire@[final(self).wire@.len() - 2] == Wire::Exited(final(self).exit_code->Some_0)
//@   ensures E_term: r is Ok && !old(self).terminated && !has_exited(old(self).events@) && has_term(old(self).events@) ==> final(self).terminated && final(self).wire@.len() >= 1 && final(self).wire@.last() is Terminated
//@   ensures E_plain: !old(self).terminated && !has_exited(old(self).events@) && !has_term(old(self).events@) ==> !final(self).terminated && no_terminated(final(self).wire@.subrange(old(self).wire@.len() as int, final(self).wire@.len() as int))
//@   outline O_out: `self.send_events(|ev| matches!(ev, InternalEvent::Output { .. }), &drained)` => `self.send_output_events(&drained)`
//@   outline O_all: `self.send_events(|_| true, &drained)` => `self.send_all_events(&drained)`
//@   outline O_exited: `self.send_event_body("exited", json!({ "exitCode": code }))` => `self.send_exited(code)`
//@   outline O_term: `self.send_event("terminated")` => `self.send_terminated()`
//@   outline O_take: `std::mem::take(&mut self.events)` => `outline_take_events(&mut self.events)`
//@   loop 0 invariant I_de1: for_idx_1 <= drained@.len() && drained@ == old(self).events@ && self.wire@ == old(self).wire@ && self.terminated == old(self).terminated && self.events@.len() == 0
//@   loop 0 invariant I_de2: (exit_code is Some) == has_exited(drained@.take(for_idx_1 as int)) && has_terminated == has_term(drained@.take(for_idx_1 as int))
//@   loop 0 decreases: drained@.len() - for_idx_1
//@   proof before `for_idx_1 += 1;`: lemma_has_push(drained@.take(for_idx_1 as int), drained@[for_idx_1 as int]); assert(drained@.take(for_idx_1 + 1) =~= drained@.take(for_idx_1 as int).push(drained@[for_idx_1 as int]));
//@   proof before `if let Some(code) = exit_code`: assert(drained@.take(drained@.len() as int) =~= drained@);
//@ end
}

} // verus!
fn main() {}
