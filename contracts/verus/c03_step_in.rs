//@ unit: C03.step_in
//@ props: C03
//@ source: src/debugger/step.rs
//@ fn: Debugger::step_in (stop criterion loop), Debugger::single_step_instruction
//@ assume: step_over_prolog (instruction steps until a place outside a prologue is reached), get_cfa, ecx(), ecx_update_location, Tracer::single_step and step_over_breakpoint are external: what is verified is the DECISION made from their results; single_step / step_over_breakpoint execute one instruction of the thread they are given (ghost sequence `stepped` on the Debugger shim; step_over_breakpoint steps the focused thread: unit C01.step_over_brkpt + Tracer::single_step)
//@ assume: the stop criterion is asserted at the loop's `break` and its negation after the `if` (rewrite, ghost only): STOP <=> the place reached is a statement boundary (is_stmt) and (the frame changed: CFA differs, or file/line differ from the start place)
//@ notcovered: that the places visited are the places the real execution passes (instruction trace of the debuggee), `next` / `finish` (temporary breakpoints: C02.step_temps), prologue detection, signals/watchpoints cutting a step short beyond being passed on
use vstd::prelude::*;
verus! {
//@ include: prelude.rs

pub struct DbgError;
#[derive(Clone, Copy, PartialEq, Eq, Structural)] pub struct Pid(pub i32);
#[derive(Clone, Copy, PartialEq, Eq, Structural)] pub struct RelocatedAddress(pub usize);
#[derive(Clone, Copy, PartialEq, Eq, Structural)] pub struct Signal(pub i32);
#[derive(Clone, Copy, PartialEq, Eq, Structural)] pub struct PathId(pub u64);
pub struct WatchpointHitType(pub u8);
#[derive(Clone, Copy)] pub struct Location { pub pc: RelocatedAddress, pub pid: Pid }
pub struct PlaceDescriptorOwned { pub file: PathId, pub line_number: u64, pub is_stmt: bool }
pub enum PlaceOrStop { Place(PlaceDescriptorOwned), Signal(Signal), Watchpoint(Pid, RelocatedAddress, WatchpointHitType) }
pub enum StepResult { Done, SignalInterrupt(Signal), WatchpointInterrupt(Pid, RelocatedAddress, WatchpointHitType) }
impl StepResult {
    #[verifier::external_body] pub fn signal_interrupt(signal: Signal) -> (r: StepResult) ensures r == StepResult::SignalInterrupt(signal), { unimplemented!() }
    #[verifier::external_body] pub fn wp_interrupt(pid: Pid, addr: RelocatedAddress, ty: WatchpointHitType) -> (r: StepResult) ensures r is WatchpointInterrupt, { unimplemented!() }
}
pub enum StopReason { SignalStop(Pid, Signal), Other }
pub struct Ecx { pub loc: Location }
impl Ecx { #[verifier::external_body] pub fn location(&self) -> (r: Location) ensures r == self.loc, { unimplemented!() } }
pub struct BreakpointRef;
pub struct BreakpointRegistry;
impl BreakpointRegistry {
    #[verifier::external_body] pub fn get_enabled(&self, pc: RelocatedAddress) -> (r: Option<&BreakpointRef>) { unimplemented!() }
}

pub struct Debugger {
    pub ecx_: Ecx,
    pub breakpoints: BreakpointRegistry,
    /// ghost: threads that executed one instruction under PTRACE_SINGLESTEP, in order
    pub stepped: Ghost<Seq<Pid>>,
}

#[verifier::external_body]
fn step_over_prolog(debugger: &mut Debugger) -> (r: Result<PlaceOrStop, DbgError>) { unimplemented!() }

impl Debugger {
    #[verifier::external_body] pub fn ecx(&self) -> (r: &Ecx) ensures *r == self.ecx_, { unimplemented!() }
    #[verifier::external_body]
    pub fn ecx_update_location(&mut self) -> (r: Result<(), DbgError>) ensures final(self).stepped@ == old(self).stepped@, { unimplemented!() }
    /// `self.debugee.debug_info(location.pc)?.get_cfa(&self.debugee, &ExplorationContext::new(location, 0))`
    #[verifier::external_body]
    fn outline_cfa(&self, location: Location) -> (r: Result<RelocatedAddress, DbgError>) { unimplemented!() }
    #[verifier::external_body]
    pub fn step_over_breakpoint(&mut self) -> (r: Result<Option<StopReason>, DbgError>)
        ensures r is Ok ==> final(self).stepped@ == old(self).stepped@.push(old(self).ecx_.loc.pid),
    { unimplemented!() }
    /// `self.debugee.tracer_mut().single_step(TraceContext::new(..), pid)`
    #[verifier::external_body]
    fn outline_single_step(&mut self, pid: Pid) -> (r: Result<Option<StopReason>, DbgError>)
        ensures r is Ok ==> final(self).stepped@ == old(self).stepped@.push(pid), final(self).ecx_ == old(self).ecx_,
    { unimplemented!() }

//@ extract: impl Debugger / fn single_step_instruction
//@   sig: pub fn single_step_instruction(&mut self) -> (r: Result<Option<StopReason>, DbgError>)
//@   ensures E_one_insn: r is Ok ==> final(self).stepped@ == old(self).stepped@.push(old(self).ecx_.loc.pid)
//@   outline O_step: `self.debugee.tracer_mut().single_step( $a, $b, )?` => `self.outline_single_step($b)?`
//@ end

//@ extract: impl Debugger / fn step_in
//@   fragment: `loop { let next_place = match step_over_prolog(self)? {` .. `^self.ecx_update_location()?; Ok(StepResult::Done)`
//@   sig: fn step_in_criterion(&mut self, sp_file: PathId, sp_line: u64, start_cfa: RelocatedAddress) -> (r: Result<StepResult, DbgError>)
//@   attr: #[verifier::exec_allows_no_decreases_clause]
//@   tail: Ok(StepResult::Done)
//@   outline O_cfa: `self .debugee .debug_info(location.pc)? .get_cfa(&self.debugee, &ExplorationContext::new(location, 0))?` => `self.outline_cfa(location)?`
//@   rewrite W_stop: `if $c { break; }` => `if $c { assert(next_place.is_stmt && (start_cfa != next_cfa || !(sp_file == next_place.file && sp_line == next_place.line_number))); break; } assert(!(next_place.is_stmt && (start_cfa != next_cfa || !(sp_file == next_place.file && sp_line == next_place.line_number))));`
//@   rewrite W_cont: `continue;` => `{ assert(!next_place.is_stmt); continue; }`
//@ end
}

} // verus!
fn main() {}
