//@ unit: C11.attach_template
//@ props: C11
//@ source: src/debugger/process.rs
//@ fn: Child::<Installed>::from_external (the process template remembered for a later restart)
//@ assume: sysinfo's Process::cmd() is the command line of the attached process, argv[0] first; Child::install() starts `program` with `args` as the arguments AFTER argv[0] (std::process::Command semantics); `cmd()[1..].to_vec()` is rewritten to an external helper with the contract of slice indexing + to_vec (all elements but the first, in order; panics on an empty command line); <[T]>::to_vec copies all elements in order (assume_specification); the thread-set collect and PhantomData are outlined
//@ notcovered: the seize/interrupt rounds in front of the fragment (C09.attach), exe()/cwd() lookups
use vstd::prelude::*;
verus! {
//@ include: prelude.rs

pub struct Error;
#[derive(Clone, Copy, PartialEq, Eq, Structural)] pub struct Pid(pub i32);
#[derive(Clone, Copy, PartialEq, Eq, Structural)] pub struct Arg(pub u64);
pub struct Txt;
pub struct PipeWriter;
pub struct Marker;
pub struct ThreadSet;
pub struct ExternalInfo { pub threads: Vec<Pid> }
pub struct ExtProcess { pub cmdline: Vec<Arg> }
impl ExtProcess {
    pub fn cmd(&self) -> (r: &Vec<Arg>) ensures r@ == self.cmdline@, { &self.cmdline }
}
pub struct Child { pub stdout: PipeWriter, pub stderr: PipeWriter, pub program: Txt, pub args: Vec<Arg>, pub cwd: Option<Txt>, pub pid: Option<Pid>, pub external_info: Option<ExternalInfo>, pub _p: Marker }
#[verifier::external_body]
fn outline_tail_to_vec(cmd: &Vec<Arg>) -> (r: Vec<Arg>) requires cmd@.len() >= 1, ensures r@ == cmd@.skip(1), { unimplemented!() }
pub assume_specification<T: Clone>[ <[T]>::to_vec ](s: &[T]) -> (r: Vec<T>) ensures r@ == s@;
#[verifier::external_body]
fn outline_threads(t: ThreadSet) -> (r: Vec<Pid>) { unimplemented!() }

//@ extract: impl Child<Installed> / fn from_external
//@   fragment: `Ok(Self {` .. `_p: PhantomData, })`
//@   sig: fn template_of(pid: Pid, stdout: PipeWriter, stderr: PipeWriter, program_name: Txt, cwd: Option<Txt>, external_process: &ExtProcess, interrupted_threads: ThreadSet) -> (r: Result<Child, Error>)
//@   requires R_argv0: external_process.cmdline@.len() >= 1
//@   ensures E_args_without_argv0: r is Ok ==> r->Ok_0.args@ == external_process.cmdline@.skip(1)
//@   ensures E_same_pid: r is Ok ==> r->Ok_0.pid == Some(pid) && r->Ok_0.external_info is Some
//@   rewrite W_self: `Ok(Self {` => `Ok(Child {`
//@   rewrite W_tail: `external_process.cmd()[1..].to_vec()` => `outline_tail_to_vec(external_process.cmd())`
//@   outline O_threads: `interrupted_threads.into_iter().collect()` => `outline_threads(interrupted_threads)`
//@   rewrite W_pd: `_p: PhantomData` => `_p: Marker`
//@ end

} // verus!
fn main() {}
