//@ unit: C01.step_over_brkpt
//@ props: C01 C02
//@ source: src/debugger/step.rs
//@ fn: Debugger::step_over_breakpoint
//@ assume: Breakpoint::disable / enable act through `&self` (Cell + ptrace): their effect is tracked by a LOCAL ghost flag `armed` (true = the INT3 of the breakpoint under the pc is in place), flipped by proof blocks placed directly after the two calls; the patch primitive itself is proved by the Kani units C02.patch.*
//@ assume: every `return Ok(..)` and the final `Ok(None)` are preceded by `assert(armed)` (rewrite, ghost only): on every successful return the breakpoint the thread stood on is armed again -- "a breakpoint hit inside a loop or recursion keeps working on every later arrival"; single_step, pc(), get_enabled, ecx_update_location do not touch the flag
//@ notcovered: error returns (a failing single_step or enable leaves the breakpoint disarmed: observation, not claimed), continue_execution's dispatch, that the single step executes the original instruction exactly once
use vstd::prelude::*;
verus! {
//@ include: prelude.rs

pub struct DbgError;
#[derive(Clone, Copy, PartialEq, Eq)]
pub struct RelocatedAddress(pub usize);
#[derive(Clone, Copy)]
pub struct Pid(pub i32);
pub struct StopReason(pub u8);
pub struct Tracee { pub pid: Pid }
impl Tracee {
    #[verifier::external_body] pub fn pc(&self) -> (r: Result<RelocatedAddress, DbgError>) { unimplemented!() }
}
pub struct Breakpoint { pub addr: RelocatedAddress }
impl Breakpoint {
    #[verifier::external_body] pub fn is_enabled(&self) -> (r: bool) { unimplemented!() }
    #[verifier::external_body] pub fn disable(&self) -> (r: Result<(), DbgError>) { unimplemented!() }
    #[verifier::external_body] pub fn enable(&self) -> (r: Result<(), DbgError>) { unimplemented!() }
}
pub struct BreakpointRegistry;
impl BreakpointRegistry {
    #[verifier::external_body] pub fn get_enabled(&self, addr: RelocatedAddress) -> (r: Option<&Breakpoint>) { unimplemented!() }
}
pub struct Ecx;
impl Ecx { #[verifier::external_body] pub fn pid_on_focus(&self) -> (r: Pid) { unimplemented!() } }
pub struct Debugee;
impl Debugee {
    #[verifier::external_body] pub fn get_tracee_ensure(&self, pid: Pid) -> (r: &Tracee) { unimplemented!() }
    /// `self.debugee.tracer_mut().single_step(TraceContext::new(..), pid)`
    #[verifier::external_body] pub fn single_step_(&mut self, pid: Pid) -> (r: Result<Option<StopReason>, DbgError>) { unimplemented!() }
}
pub struct Debugger { pub breakpoints: BreakpointRegistry, pub debugee: Debugee, pub ecx_: Ecx }

impl Debugger {
    #[verifier::external_body] pub fn ecx(&self) -> (r: &Ecx) { unimplemented!() }
    #[verifier::external_body] pub fn ecx_update_location(&mut self) -> (r: Result<(), DbgError>) { unimplemented!() }

//@ extract: impl Debugger / fn step_over_breakpoint
//@   sig: pub fn step_over_breakpoint(&mut self) -> (r: Result<Option<StopReason>, DbgError>)
//@   proof before `let tracee = self.debugee.get_tracee_ensure(self.ecx().pid_on_focus());`: let ghost mut armed: bool = true;
//@   rewrite W_dis: `brkpt.disable()?;` => `brkpt.disable()?; proof { armed = false; }`
//@   rewrite W_en: `brkpt.enable()?;` => `brkpt.enable()?; proof { armed = true; }`
//@   outline O_step: `self.debugee.tracer_mut().single_step($a, $b)?` => `self.debugee.single_step_($b)?`
//@   rewrite W_ret: `return Ok($x);` => `{ assert(armed); return Ok($x); }`
//@   rewrite W_end: `Ok(None)` => `{ assert(armed); Ok(None) }`
//@ end
}

} // verus!
fn main() {}
