//@ unit: C07.array_slice
//@ props: C07 C08
//@ implicit: C08
//@ source: src/debugger/variable/value/mod.rs
//@ fn: ArrayValue::slice
//@ shim: src/debugger/variable/value/mod.rs :: struct ArrayValue :: items: Option<Vec<ArrayItem>>
//@ shim: src/debugger/variable/value/mod.rs :: struct ArrayItem :: index: i64
//@ assume: ArrayItem.value (the element's Value tree) is dropped from the shim: slice() only moves whole items
//@ notcovered: the chumsky grammar and operator precedence, canonical-text round trip, match_literal, map/set keys, deref/address-of/cast (type graph + ptrace), Value::index
use vstd::prelude::*;
verus! {
//@ include: prelude.rs

pub struct ArrayItem {
    pub index: i64,
}

pub struct ArrayValue {
    pub items: Option<Vec<ArrayItem>>,
}

#[verifier::external_body]
fn outline_drain_to(items: &mut Vec<ArrayItem>, end: usize)
    requires end <= old(items)@.len(),     // std: Vec::drain panics if the end point is greater than the length
    ensures final(items)@ == old(items)@.subrange(end as int, old(items)@.len() as int),
{
    items.drain(..end);
}

#[verifier::external_body]
fn outline_drain_from(items: &mut Vec<ArrayItem>, r: core::ops::RangeFrom<usize>)
    requires r.start <= old(items)@.len(), // std: Vec::drain panics if the starting point is greater than the length
    ensures final(items)@ == old(items)@.subrange(0, r.start as int),
{
    items.drain(r);
}

#[verifier::external_body]
fn outline_min(a: usize, b: usize) -> (r: usize)
    ensures r == (if a <= b { a } else { b }),
{
    a.min(b)
}

impl ArrayValue {
//@ extract: impl ArrayValue / fn slice
//@   ensures E_none: old(self).items is None ==> final(self).items is None
//@   ensures E_slice: old(self).items is Some ==> ({ let s = old(self).items->Some_0@; let l = (if left is Some { left->Some_0 as int } else { 0 }); let r = (if right is Some { right->Some_0 as int } else { s.len() as int }); l <= r <= s.len() ==> final(self).items is Some && final(self).items->Some_0@ == s.subrange(l, r) })
//@   ensures E_clamp: old(self).items is Some ==> ({ let s = old(self).items->Some_0@; let l0 = (if left is Some { left->Some_0 as int } else { 0 }); let l = (if l0 <= s.len() { l0 } else { s.len() as int }); let r0 = (if right is Some { right->Some_0 as int } else { s.len() as int }); let r = (if r0 < l { l } else if r0 > s.len() { s.len() as int } else { r0 }); final(self).items is Some && final(self).items->Some_0@ == s.subrange(l, r) })
//@   outline O_drain_to: `items.drain(..$e);` => `let drain_end_ = $e; outline_drain_to(items, drain_end_);`
//@   outline O_min: `left.min($b)` => `outline_min(left, $b)`
//@   outline O_drain_from: `items.drain(remove_range);` => `outline_drain_from(items, remove_range);`
//@ end
}

} // verus!
fn main() {}
