//@ unit: C06.bucket_iter
//@ props: C06 C08
//@ implicit: C08
//@ source: src/debugger/variable/value/specialization/hashbrown.rs
//@ fn: BucketIterator::next, BucketReflection::next_n, BucketReflection::location, HashmapReflection::buckets
//@ shim: src/debugger/variable/value/specialization/hashbrown.rs :: struct BucketReflection :: size: usize, ptr: *const u8
//@ shim: src/debugger/variable/value/specialization/hashbrown.rs :: struct BucketIterator :: data: BucketReflection, current_group: BitMask, next_ctrl: *const u8, end: *const u8, pid: Pid
//@ assume: raw `*const u8` pointers are modelled by their addresses (usize): `p.add(n)` is rewritten to `p + n`, `p.sub(n)` to `p - n` (exact for byte pointers); the shim fields `ptr`, `next_ctrl`, `end` are usize
//@ assume: GroupReflection::load(..)?.match_empty_or_deleted().invert() yields the FULL-bucket mask of the 16 control bytes at that address (proved for all 2^128 groups by the Kani unit C06.group_mask); BitMask::lowest_set_bit / remove_lowest_bit as proved by C06.bitmask_iter (index < 16)
//@ assume: recorded layout preconditions of a live hashbrown table: the data region below the control bytes is large enough for every group that starts before `end` (R_layout), so the address arithmetic does not wrap
//@ notcovered: which bit of the mask belongs to which bucket beyond index < 16 (bit-level facts live in the Kani units), element decoding, the B-tree walk
use vstd::prelude::*;
verus! {
//@ include: prelude.rs

pub struct Errno(pub i32);
#[derive(Clone, Copy)]
pub struct BitMask(pub u16);
pub struct Pid(pub i32);

impl BitMask {
    #[verifier::external_body]
    pub fn lowest_set_bit(self) -> (r: Option<usize>)
        ensures r is None <==> self.0 == 0, r is Some ==> r->Some_0 < 16,
    { unimplemented!() }
    #[verifier::external_body]
    pub fn remove_lowest_bit(self) -> (r: BitMask)
        requires self.0 != 0,
    { unimplemented!() }
}

pub struct BucketReflection {
    pub size: usize,
    pub ptr: usize,
}

pub struct BucketIterator {
    pub data: BucketReflection,
    pub current_group: BitMask,
    pub next_ctrl: usize,
    pub end: usize,
    pub pid: Pid,
}

/// GroupReflection::load(pid, ptr)?.match_empty_or_deleted().invert()
#[verifier::external_body]
fn outline_load_full_mask(pid: &Pid, ctrl: usize) -> (r: Result<BitMask, Errno>)
{ unimplemented!() }

#[verifier::external_body]
fn outline_group_width() -> (r: usize) ensures r == 16 { 16 }

/// the group in `current_group` starts before the end of the control bytes: the iterator never
/// looks at the trailing mirror group, so it cannot invent buckets
pub open spec fn wf_iter(it: &BucketIterator) -> bool {
    &&& it.next_ctrl >= 16
    &&& it.next_ctrl - 16 < it.end
}

/// address of the i-th bucket of the group whose data pointer is `base` (hashbrown: buckets grow downwards)
pub open spec fn bucket_at(base: int, size: int, i: int) -> int { base - i * size }

/// number of 16-bucket groups (plus slack of two) that may still be visited
pub open spec fn groups_left(it: &BucketIterator) -> int {
    if it.end + 16 > it.next_ctrl { (it.end + 16 - it.next_ctrl) / 16 + 2 } else { 2 }
}

/// enough room below the control bytes for every group that still starts before `end`
pub open spec fn layout_ok(it: &BucketIterator) -> bool {
    &&& it.end + 32 <= usize::MAX
    &&& it.data.size * 16 <= 0x1_0000_0000
    &&& it.data.ptr >= groups_left(it) * (16 * it.data.size)
}

proof fn lemma_mul_step(s: int, d: int)
    ensures s * (d + 16) == s * d + 16 * s,
{
    assert(s * (d + 16) == s * d + 16 * s) by (nonlinear_arith);
}

proof fn lemma_room(ptr: int, k: int, s16: int)
    requires ptr >= k * s16, k >= 2, s16 >= 0,
    ensures ptr >= s16, ptr - s16 >= (k - 1) * s16,
{
    assert(k * s16 >= 2 * s16) by (nonlinear_arith) requires k >= 2, s16 >= 0;
    assert((k - 1) * s16 == k * s16 - s16) by (nonlinear_arith);
}

impl BucketReflection {
//@ extract: impl BucketReflection / fn next_n
//@   ret: r
//@   requires R_nn: offset * self.size <= self.ptr
//@   ensures E_nn: r.size == self.size && r.ptr == self.ptr - offset * self.size
//@   rewrite W_sub: `self.ptr.sub($n)` => `(self.ptr - $n)`
//@ end
}

impl BucketIterator {
//@ extract: impl FallibleIterator for BucketIterator / fn next
//@   sig: pub fn next(&mut self) -> (r: Result<Option<BucketReflection>, Errno>)
//@   attr: #[verifier::exec_allows_no_decreases_clause]
//@   requires R_wf: wf_iter(old(self))
//@   requires R_layout: layout_ok(old(self))
//@   ensures E_wf: wf_iter(final(self))
//@   ensures E_sync: final(self).end == old(self).end && final(self).data.size == old(self).data.size && (old(self).data.ptr - final(self).data.ptr) == old(self).data.size * (final(self).next_ctrl - old(self).next_ctrl)
//@   ensures E_none: r is Ok && r->Ok_0 is None ==> final(self).next_ctrl >= final(self).end && final(self).current_group.0 == 0
//@   ensures E_some: r is Ok && r->Ok_0 is Some ==> r->Ok_0->Some_0.size == final(self).data.size && exists|i: int| 0 <= i < 16 && #[trigger] bucket_at(final(self).data.ptr as int, final(self).data.size as int, i) == r->Ok_0->Some_0.ptr
//@   outline O_load: `GroupReflection::load(self.pid, self.next_ctrl)? .match_empty_or_deleted() .invert()` => `outline_load_full_mask(&self.pid, self.next_ctrl)?`
//@   outline O_w: `GroupReflection::width()` => `outline_group_width()`
//@   rewrite W_add: `self.next_ctrl.add($n)` => `(self.next_ctrl + $n)`
//@   proof before `self.data = self.data.next_n(`: lemma_room(self.data.ptr as int, groups_left(self), 16 * self.data.size);
//@   proof before `return Ok(Some(self.data.next_n(index)));`: lemma_room(self.data.ptr as int, groups_left(self), 16 * self.data.size); assert(index * self.data.size <= 16 * self.data.size) by (nonlinear_arith) requires index < 16, self.data.size >= 0; assert(bucket_at(self.data.ptr as int, self.data.size as int, index as int) == self.data.ptr - index * self.data.size);
//@   proof after `self.next_ctrl = self.next_ctrl.add(GroupReflection::width());`: lemma_mul_step(old(self).data.size as int, (self.next_ctrl - 16) - old(self).next_ctrl);
//@   loop 0 invariant I_bi1: wf_iter(self) && self.end == old(self).end && self.data.size == old(self).data.size
//@   loop 0 invariant I_bi2: (old(self).data.ptr - self.data.ptr) == old(self).data.size * (self.next_ctrl - old(self).next_ctrl) && self.next_ctrl >= old(self).next_ctrl
//@   loop 0 invariant I_bi3: layout_ok(self)
//@ end
}

} // verus!
fn main() {}
