//@ unit: C01.step_temps
//@ props: C01
//@ source: src/debugger/step.rs
//@ fn: (same extraction as C02.step_temps; this copy owns the obligations for C01: a user breakpoint that sits on a temporary breakpoint's address, e.g. exactly at the return address, is still armed after the step -- it keeps working on every later arrival) Debugger::step_out_frame, Debugger::step_over_any (temporary-breakpoint install / continue / remove statements)
//@ assume: the set of code addresses currently patched with INT3 by the registry is a ghost set on the BreakpointRegistry shim: add_and_enable inserts the breakpoint's address, Debugger::remove_breakpoint removes it, get_enabled(a).is_some() <=> a is in the set (the bodies use a std HashMap + the patch primitive proved as C02.patch.*); continue_execution, return_addr, debug_info and ecx_update_location leave the set unchanged (continue_execution re-arms what it disables)
//@ assume: step_over_any: at the start of the fragment `to_delete` lists exactly the addresses of `step_over_breakpoints`, none of which is patched yet (the loop before the fragment pushes to both after `get_enabled(load_addr).is_none()`)
//@ notcovered: error paths (a failing continue_execution/add_and_enable returns early and leaves the temporaries: observation, the contract speaks about Ok returns only), step_in, the statement selection loop of step_over_any, detach/exit/restart clean-up
use vstd::prelude::*;
verus! {
//@ include: prelude.rs

pub struct DbgError;
#[derive(Clone, Copy, PartialEq, Eq)]
pub struct RelocatedAddress(pub usize);
#[derive(Clone, Copy)]
pub struct Pid(pub i32);
#[derive(Clone, Copy)]
pub struct Signal(pub i32);
pub enum Address { Relocated(RelocatedAddress), Global(usize) }
#[derive(Clone, Copy)]
pub struct Location { pub pc: RelocatedAddress, pub pid: Pid }
pub struct Ecx { pub loc: Location }
impl Ecx {
    #[verifier::external_body] pub fn location(&self) -> (r: Location) ensures r == self.loc { unimplemented!() }
    #[verifier::external_body] pub fn pid_on_focus(&self) -> (r: Pid) { unimplemented!() }
}
pub struct DebugInfo;
impl DebugInfo { #[verifier::external_body] pub fn pathname(&self) -> (r: u64) { unimplemented!() } }
pub struct Breakpoint { pub addr: RelocatedAddress }
impl Breakpoint {
    #[verifier::external_body]
    pub fn new_temporary(file: u64, addr: RelocatedAddress, pid: Pid) -> (r: Breakpoint) ensures r.addr == addr { unimplemented!() }
}
pub struct BreakpointRegistry { pub patched: Ghost<Set<usize>> }
impl BreakpointRegistry {
    #[verifier::external_body]
    pub fn get_enabled(&self, addr: RelocatedAddress) -> (r: Option<&Breakpoint>)
        ensures r is Some <==> self.patched@.contains(addr.0),
    { unimplemented!() }
    #[verifier::external_body]
    pub fn add_and_enable(&mut self, brkpt: Breakpoint) -> (r: Result<(), DbgError>)
        ensures r is Ok ==> final(self).patched@ == old(self).patched@.insert(brkpt.addr.0), r is Err ==> final(self).patched@ == old(self).patched@,
    { unimplemented!() }
}
pub struct Debugee;
impl Debugee {
    #[verifier::external_body] pub fn debug_info(&self, pc: RelocatedAddress) -> (r: Result<DebugInfo, DbgError>) { unimplemented!() }
    #[verifier::external_body] pub fn return_addr(&self, pid: Pid) -> (r: Result<Option<RelocatedAddress>, DbgError>) { unimplemented!() }
    #[verifier::external_body] pub fn is_exited(&self) -> (r: bool) { unimplemented!() }
}
pub enum WatchTy { A }
pub enum StopReason { DebugeeExit(i32), Breakpoint(Pid, RelocatedAddress), SignalStop(Pid, Signal), Watchpoint(Pid, RelocatedAddress, WatchTy), Other }
pub enum StepResult { Done, SignalInterrupt, WatchpointInterrupt }
impl StepResult {
    #[verifier::external_body] pub fn signal_interrupt_quiet(sign: Signal) -> (r: StepResult) { unimplemented!() }
    #[verifier::external_body] pub fn wp_interrupt_quite(pid: Pid, addr: RelocatedAddress, ty: WatchTy) -> (r: StepResult) { unimplemented!() }
}

pub struct Debugger {
    pub breakpoints: BreakpointRegistry,
    pub debugee: Debugee,
    pub ecx_: Ecx,
}

pub open spec fn in_addrs(v: Seq<RelocatedAddress>, a: usize) -> bool {
    exists|i: int| 0 <= i < v.len() && #[trigger] v[i].0 == a
}

proof fn lemma_in_addrs_push(v: Seq<RelocatedAddress>, x: RelocatedAddress)
    ensures forall|a: usize| #[trigger] in_addrs(v.push(x), a) <==> (in_addrs(v, a) || x.0 == a),
{
    let t = v.push(x);
    assert forall|a: usize| #[trigger] in_addrs(t, a) <==> (in_addrs(v, a) || x.0 == a) by {
        if in_addrs(v, a) { let i = choose|i: int| 0 <= i < v.len() && #[trigger] v[i].0 == a; assert(t[i].0 == a); }
        if x.0 == a { assert(t[v.len() as int].0 == a); }
        if in_addrs(t, a) { let i = choose|i: int| 0 <= i < t.len() && #[trigger] t[i].0 == a; if i < v.len() { assert(v[i].0 == a); } }
    }
}

impl Debugger {
    #[verifier::external_body] pub fn ecx(&self) -> (r: &Ecx) ensures *r == self.ecx_ { unimplemented!() }
    #[verifier::external_body]
    pub fn continue_execution(&mut self) -> (r: Result<StopReason, DbgError>)
        ensures final(self).breakpoints.patched@ == old(self).breakpoints.patched@,
    { unimplemented!() }
    #[verifier::external_body]
    pub fn remove_breakpoint(&mut self, addr: Address) -> (r: Result<(), DbgError>)
        ensures
            r is Ok && addr is Relocated ==> final(self).breakpoints.patched@ == old(self).breakpoints.patched@.remove(addr->Relocated_0.0),
            r is Err ==> final(self).breakpoints.patched@ == old(self).breakpoints.patched@,
    { unimplemented!() }
    #[verifier::external_body]
    pub fn ecx_update_location(&mut self) -> (r: Result<(), DbgError>)
        ensures final(self).breakpoints.patched@ == old(self).breakpoints.patched@,
    { unimplemented!() }

    /// step_over_breakpoints.into_iter().try_for_each(|load_addr| self.breakpoints.add_and_enable(Breakpoint::new_temporary(..)).map(|_| ()))
    #[verifier::external_body]
    fn install_temps(&mut self, addrs: Vec<RelocatedAddress>, file: u64, pid: Pid) -> (r: Result<(), DbgError>)
        ensures r is Ok ==> forall|a: usize| #[trigger] final(self).breakpoints.patched@.contains(a) <==> (old(self).breakpoints.patched@.contains(a) || in_addrs(addrs@, a)),
    { unimplemented!() }

    /// to_delete.into_iter().try_for_each(|addr| self.remove_breakpoint(Address::Relocated(addr)).map(|_| ()))
    #[verifier::external_body]
    fn remove_temps(&mut self, addrs: Vec<RelocatedAddress>) -> (r: Result<(), DbgError>)
        ensures r is Ok ==> forall|a: usize| #[trigger] final(self).breakpoints.patched@.contains(a) <==> (old(self).breakpoints.patched@.contains(a) && !in_addrs(addrs@, a)),
    { unimplemented!() }

//@ extract: impl Debugger / fn step_out_frame
//@   sig: pub fn step_out_frame(&mut self) -> (r: Result<(), DbgError>)
//@   ensures E_out: r is Ok ==> final(self).breakpoints.patched@ =~= old(self).breakpoints.patched@
//@   rewrite W_exit: `return Err(ProcessExit(0));` => `return Err(DbgError);`
//@ end

//@ extract: impl Debugger / fn step_over_any
//@   fragment: `step_over_breakpoints .into_iter()` .. `^let new_location = self.ecx().location();`
//@   sig: fn step_over_tail(&mut self, step_over_breakpoints: Vec<RelocatedAddress>, to_delete_in: Vec<RelocatedAddress>, dwarf: &DebugInfo, current_location: Location) -> (r: Result<Option<StepResult>, DbgError>)
//@   tail: Ok(None)
//@   requires R_paired: to_delete_in@ == step_over_breakpoints@
//@   requires R_fresh: forall|a: usize| #[trigger] in_addrs(step_over_breakpoints@, a) ==> !old(self).breakpoints.patched@.contains(a)
//@   ensures E_over: r is Ok ==> final(self).breakpoints.patched@ =~= old(self).breakpoints.patched@
//@   proof after `to_delete.push(ret_addr);`: lemma_in_addrs_push(to_delete_in@, ret_addr);
//@   outline O_install: `step_over_breakpoints .into_iter() .try_for_each($c)?` => `let mut to_delete = to_delete_in; self.install_temps(step_over_breakpoints, dwarf.pathname(), current_location.pid)?`
//@   outline O_remove: `to_delete .into_iter() .try_for_each($c)?` => `self.remove_temps(to_delete)?`
//@   rewrite W_ret1: `return Ok(StepResult::signal_interrupt_quiet(sign));` => `return Ok(Some(StepResult::signal_interrupt_quiet(sign)));`
//@   rewrite W_ret2: `return Ok(StepResult::wp_interrupt_quite(pid, addr, ty));` => `return Ok(Some(StepResult::wp_interrupt_quite(pid, addr, ty)));`
//@ end
}

} // verus!
fn main() {}
