//@ unit: C15.reg_focus
//@ props: C15
//@ source: src/debugger/mod.rs
//@ fn: Debugger::set_register_value, Debugger::get_register_value
//@ assume: RegisterMap::current(pid) / persist(pid) are PTRACE_GETREGS / SETREGS of thread `pid` (register-file model: ghost map thread -> register file on the shim; update/value have the 27-register frame proved by the Kani unit C15.regs); register-name parsing is outlined; the macro `disable_when_not_stared!(self)` is rewritten to its definition's early return
//@ notcovered: that the kernel applies SETREGS, other threads' registers at the hardware level
use vstd::prelude::*;
verus! {
//@ include: prelude.rs

pub enum DbgError { ProcessNotStarted, RegisterNameNotFound, Other }
pub type Error = DbgError;
#[derive(Clone, Copy, PartialEq, Eq, Structural)] pub struct Pid(pub i32);
#[derive(Clone, Copy, PartialEq, Eq, Structural)] pub struct Register(pub u8);
pub struct Ecx { pub focus: Pid }
impl Ecx { #[verifier::external_body] pub fn pid_on_focus(&self) -> (r: Pid) ensures r == self.focus, { unimplemented!() } }

/// a register file read from some thread
pub struct RegisterMap { pub of: Ghost<Pid>, pub vals: Ghost<Map<Register, u64>> }
/// ghost: what PTRACE_GETREGS returns for each thread (the model of the threads' register files)
pub uninterp spec fn regs_of(p: Pid) -> Map<Register, u64>;
/// ghost log of SETREGS calls is modelled by the result type of persist: it says which thread received which file
pub struct Persisted { pub to: Ghost<Pid>, pub vals: Ghost<Map<Register, u64>> }

impl RegisterMap {
    #[verifier::external_body]
    pub fn current(pid: Pid) -> (r: Result<RegisterMap, DbgError>) ensures r is Ok ==> r->Ok_0.of@ == pid && r->Ok_0.vals@ == regs_of(pid), { unimplemented!() }
    #[verifier::external_body]
    pub fn update(&mut self, r: Register, v: u64) ensures final(self).of@ == old(self).of@, final(self).vals@ == old(self).vals@.insert(r, v), { unimplemented!() }
    #[verifier::external_body]
    pub fn value(&self, r: Register) -> (v: u64) ensures v == self.vals@[r], { unimplemented!() }
    /// PTRACE_SETREGS(pid, self)
    #[verifier::external_body]
    pub fn persist(self, pid: Pid) -> (r: Result<Persisted, DbgError>) ensures r is Ok ==> r->Ok_0.to@ == pid && r->Ok_0.vals@ == self.vals@, { unimplemented!() }
}
pub uninterp spec fn reg_named(name: &str) -> Option<Register>;
#[verifier::external_body]
fn outline_parse_reg(name: &str) -> (r: Result<Register, DbgError>) ensures r is Ok == reg_named(name) is Some, r is Ok ==> r->Ok_0 == reg_named(name)->Some_0, { unimplemented!() }

pub struct TraceeCtl { pub main: Pid }
impl TraceeCtl { #[verifier::external_body] pub fn proc_pid(&self) -> (r: Pid) ensures r == self.main, { unimplemented!() } }
pub struct Debugee { pub ctl: TraceeCtl }
impl Debugee { #[verifier::external_body] pub fn tracee_ctl(&self) -> (r: &TraceeCtl) ensures *r == self.ctl, { unimplemented!() } }
pub struct Debugger { pub ecx_: Ecx, pub started: bool, pub debugee: Debugee }
impl Debugger {
    #[verifier::external_body] pub fn ecx(&self) -> (r: &Ecx) ensures *r == self.ecx_, { unimplemented!() }
    #[verifier::external_body] fn outline_not_started(&self) -> (r: bool) ensures r == !self.started, { unimplemented!() }

//@ extract: impl Debugger / fn set_register_value
//@   sig: pub fn set_register_value(&self, register_name: &str, val: u64) -> (r: Result<Persisted, Error>)
//@   ensures E_set_focus: r is Ok ==> r->Ok_0.to@ == self.ecx_.focus
//@   ensures E_set_value: r is Ok ==> reg_named(register_name) is Some && r->Ok_0.vals@ == regs_of(self.ecx_.focus).insert(reg_named(register_name)->Some_0, val)
//@   rewrite W_macro: `disable_when_not_stared!(self);` => `if self.outline_not_started() { return Err(DbgError::ProcessNotStarted); }`
//@   outline O_reg: `Register::try_from(register_name) .map_err(|_| RegisterNameNotFound(register_name.into()))?` => `outline_parse_reg(register_name)?`
//@ end

//@ extract: impl Debugger / fn get_register_value
//@   ret: r
//@   ensures E_get_focus: r is Ok ==> reg_named(register_name) is Some && r->Ok_0 == regs_of(self.ecx_.focus)[reg_named(register_name)->Some_0]
//@   rewrite W_macro: `disable_when_not_stared!(self);` => `if self.outline_not_started() { return Err(DbgError::ProcessNotStarted); }`
//@   outline O_reg: `Register::from_str(register_name) .map_err(|_| RegisterNameNotFound(register_name.into()))?` => `outline_parse_reg(register_name)?`
//@ end
}

} // verus!
fn main() {}
