//@ unit: C09.thread_table
//@ props: C09
//@ source: src/debugger/debugee/tracer.rs
//@ fn: Tracer::apply_new_status (thread-lifecycle arms: Exited, PTRACE_EVENT_EXEC / CLONE / STOP / EXIT)
//@ assume: thread-table model: TraceeCtl is a ghost set `table` of thread ids plus a ghost map `stopped`; add(p) inserts p (stopped), remove(p) deletes p, tracee_mut(p) is Some iff p is in the table (their bodies are std HashMap insert/remove/get_mut); ptrace event codes are the constants of ptrace(2) (EXEC 4, CLONE 3, EXIT 6, STOP 128), typed into the unit independently of the libc crate; PTRACE_GETEVENTMSG of a clone event yields the new thread id
//@ assume: `weak_error!(tcx.watchpoints.distribute_to_tracee(t))` is recorded in a LOCAL ghost set `distributed` (rewrite); the hardware-debug image that is pushed is covered by the Kani unit C14.distribute
//@ notcovered: all-stop itself (group_stop_interrupt: two PTRACE_INTERRUPT rounds over the thread HashMap with nested event absorption), every interleaving question of the property (kernel scheduling; no thread support in Kani, no permission types in the real code), exactly-once reporting of breakpoint arrivals per thread, the SIGTRAP / signal arms (C01.report, C10.push)
use vstd::prelude::*;
verus! {
//@ include: prelude.rs

pub enum DbgError { Ptrace, Other }
pub type Error = DbgError;
#[derive(Clone, Copy, PartialEq, Eq, Structural)]
pub struct Pid(pub i32);
pub mod libc {
    // ptrace(2): PTRACE_EVENT_* values
    pub const PTRACE_EVENT_CLONE: i32 = 3;
    pub const PTRACE_EVENT_EXEC: i32 = 4;
    pub const PTRACE_EVENT_EXIT: i32 = 6;
    pub const PTRACE_EVENT_STOP: i32 = 128;
}
pub enum StopType { Interrupt, Other }
pub enum WaitStatus { Exited(Pid, i32), Other }
pub enum StopReason { DebugeeExit(i32), DebugeeStart, Other }
pub struct Signal(pub i32);

pub struct Tracee { pub pid: Pid, pub stopped_: bool }
impl Tracee {
    #[verifier::external_body]
    pub fn wait_one(&self) -> (r: Result<WaitStatus, DbgError>) { unimplemented!() }
    #[verifier::external_body]
    pub fn set_stop(&mut self, t: StopType) ensures final(self).pid == old(self).pid, final(self).stopped_, { unimplemented!() }
    #[verifier::external_body]
    pub fn r#continue(&mut self, sig: Option<Signal>) -> (r: Result<(), DbgError>) ensures final(self).pid == old(self).pid, { unimplemented!() }
}

pub struct TraceeCtl { pub table: Ghost<Set<Pid>>, pub process_pid: Pid,
    /// ghost: which threads the tracer believes to be stopped (meaningful for members of `table`)
    pub marks: Ghost<Map<Pid, bool>> }
impl TraceeCtl {
    #[verifier::external_body]
    pub fn add(&mut self, pid: Pid) -> (r: &Tracee)
        ensures final(self).table@ == old(self).table@.insert(pid), final(self).process_pid == old(self).process_pid, r.pid == pid,
            final(self).marks@ == old(self).marks@.insert(pid, true),   // Tracee::new_stopped
    { unimplemented!() }
    #[verifier::external_body]
    pub fn remove(&mut self, pid: Pid) -> (r: Option<Tracee>)
        ensures final(self).table@ == old(self).table@.remove(pid), final(self).process_pid == old(self).process_pid,
            r is Some == old(self).table@.contains(pid), r is Some ==> r->Some_0.pid == pid,
            forall|p: Pid| p != pid ==> #[trigger] final(self).marks@[p] == old(self).marks@[p],
    { unimplemented!() }
    #[verifier::external_body]
    pub fn tracee_mut(&mut self, pid: Pid) -> (r: Option<&mut Tracee>)
        ensures final(self).table@ == old(self).table@, final(self).process_pid == old(self).process_pid, r is Some == old(self).table@.contains(pid),
            r is Some ==> r->Some_0.pid == pid && r->Some_0.stopped_ == old(self).marks@[pid] && final(self).marks@ == old(self).marks@.insert(pid, final(r->Some_0).stopped_),
            r is None ==> final(self).marks@ == old(self).marks@,
    { unimplemented!() }
    #[verifier::external_body]
    pub fn tracee_ensure_mut(&mut self, pid: Pid) -> (r: &mut Tracee)
        ensures final(self).table@ == old(self).table@, final(self).process_pid == old(self).process_pid,
            r.pid == pid && final(self).marks@ == old(self).marks@.insert(pid, final(r).stopped_),
    { unimplemented!() }
    #[verifier::external_body]
    pub fn proc_pid(&self) -> (r: Pid) ensures r == self.process_pid, { unimplemented!() }
}

#[derive(Clone, Copy)]
pub struct TraceContext;
pub uninterp spec fn event_msg(pid: Pid) -> Pid;
/// `Pid::from_raw(sys::ptrace::getevent(pid).map_err(Ptrace)? as pid_t)` without the `?`
#[verifier::external_body]
fn outline_getevent(pid: Pid) -> (r: Result<Pid, DbgError>) ensures r is Ok ==> r->Ok_0 == event_msg(pid), { unimplemented!() }

pub struct Tracer { pub tracee_ctl: TraceeCtl }

//@ extract: impl Tracer / fn apply_new_status
//@   fragment: `^WaitStatus::PtraceEvent(pid, _signal, code) => {` .. `^} WaitStatus::Stopped(pid, signal) =>`
//@   splice: F_event
//@   outline O_ev: `Pid::from_raw(sys::ptrace::getevent(pid).map_err(Ptrace)? as pid_t)` => `outline_getevent(pid)?`
//@   rewrite W_dist: `weak_error!(tcx.watchpoints.distribute_to_tracee($t));` => `proof { distributed = distributed.insert($t.pid); }`
//@ end
//@ extract: impl Tracer / fn apply_new_status
//@   fragment: `^WaitStatus::Exited(pid, code) => {` .. `^} WaitStatus::PtraceEvent(pid, _signal, code) =>`
//@   splice: F_exited
//@ end

impl Tracer {
//@ begin_fn: src/debugger/debugee/tracer.rs :: apply_new_status [PtraceEvent arm]
    fn ptrace_event_arm(&mut self, tcx: TraceContext, pid: Pid, code: i32) -> (r: Result<Option<StopReason>, Error>)
        ensures
            // a thread that is being created is known to the debugger from now on (unless it is already gone)
            r is Ok && code == 3 ==> old(self).tracee_ctl.table@.subset_of(final(self).tracee_ctl.table@.insert(event_msg(pid)))
                && final(self).tracee_ctl.table@.subset_of(old(self).tracee_ctl.table@.insert(event_msg(pid))), /*@@E_clone*/
            r is Ok && code == 3 && old(self).tracee_ctl.table@.contains(event_msg(pid)) ==> final(self).tracee_ctl.table@ == old(self).tracee_ctl.table@, /*@@E_clone_known*/
            // a thread that announces itself with PTRACE_EVENT_STOP is in the table afterwards, nobody else changes
            r is Ok && code == 128 ==> final(self).tracee_ctl.table@ =~= old(self).tracee_ctl.table@.insert(pid), /*@@E_stop*/
            // an exiting thread leaves the table
            r is Ok && code == 6 ==> final(self).tracee_ctl.table@ == old(self).tracee_ctl.table@.remove(pid), /*@@E_exit*/
            // exec: the main thread of the new program
            r is Ok && code == 4 ==> final(self).tracee_ctl.table@ == old(self).tracee_ctl.table@.insert(pid) && r->Ok_0 is Some && r->Ok_0->Some_0 is DebugeeStart, /*@@E_exec*/
            // any other event leaves the table alone
            r is Ok && code != 3 && code != 4 && code != 6 && code != 128 ==> final(self).tracee_ctl.table@ == old(self).tracee_ctl.table@, /*@@E_other*/
            // a clone event stops the PARENT; the mark of every other thread that is already known stays what it was
            // (a thread that registered itself with PTRACE_EVENT_STOP before its parent's clone event may be running again)
            r is Ok && code == 3 ==> forall|p: Pid| old(self).tracee_ctl.table@.contains(p) && p != pid ==> #[trigger] final(self).tracee_ctl.marks@[p] == old(self).tracee_ctl.marks@[p], /*@@E_clone_marks*/
            // only exec is reported as a stop
            r is Ok && code != 4 ==> r->Ok_0 is None, /*@@E_silent*/
    {
        let ghost mut distributed: Set<Pid> = Set::empty();
        let ghost table0 = self.tracee_ctl.table@;
        let res = { /*@@SPLICE:F_event*/ };
        proof {
            // "threads created later inherit it": every thread that ENTERED the table through a clone/stop event got the watchpoints
            assert(forall|p: Pid| self.tracee_ctl.table@.contains(p) && !table0.contains(p) ==> distributed.contains(p)); /*@@E_inherit*/
        }
        res
    }
//@ end_fn

//@ begin_fn: src/debugger/debugee/tracer.rs :: apply_new_status [Exited arm]
    fn exited_arm(&mut self, pid: Pid, code: i32) -> (r: Result<Option<StopReason>, Error>)
        ensures
            r is Ok, /*@@E_ex_ok*/
            final(self).tracee_ctl.table@ == old(self).tracee_ctl.table@.remove(pid), /*@@E_ex_removed*/
            // the program's exit is reported exactly when the thread that exited is the main thread
            (r->Ok_0 is Some) == (pid == old(self).tracee_ctl.process_pid), /*@@E_ex_main*/
            r->Ok_0 is Some ==> r->Ok_0->Some_0 == StopReason::DebugeeExit(code), /*@@E_ex_code*/
    {
        /*@@SPLICE:F_exited*/
    }
//@ end_fn
}

} // verus!
fn main() {}
