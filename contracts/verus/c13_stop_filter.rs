//@ unit: C13.stop_filter
//@ props: C13
//@ source: src/dap/yadap/session/control.rs
//@ fn: DebugSession::emit_stop_reason (filter loop in front of the `stopped` event)
//@ assume: should_stop_on_exception is a pure predicate `reportable` of the stop; should_skip_breakpoint (unit C13.should_skip) records the stop it was asked about and its answer in a ghost field; continue_debugee_with_reason resumes the debuggee once (ghost counter) and yields the next stop; `anyhow!` / `.context(..)` outlined
//@ notcovered: the event that is built from the surviving stop (reason strings, thread id, stack trace), exception filters' contents
use vstd::prelude::*;
verus! {
//@ include: prelude.rs

pub struct AnyErr;
#[derive(Clone, Copy, PartialEq, Eq, Structural)] pub struct Pid(pub i32);
#[derive(Clone, Copy, PartialEq, Eq, Structural)] pub struct RelocatedAddress(pub usize);
pub mod debugger {
    pub enum StopReason { DebugeeExit(i32), DebugeeStart, Breakpoint(super::Pid, super::RelocatedAddress), Watchpoint(super::Pid, super::RelocatedAddress, u8), SignalStop(super::Pid, i32), NoSuchProcess(super::Pid) }
}
use debugger::StopReason;
pub uninterp spec fn reportable(s: &StopReason) -> bool;

pub struct Dbg;
pub struct DebugSession {
    /// ghost: how often the debuggee was resumed by this loop
    pub resumed: Ghost<nat>,
    /// ghost: stops that were filtered out (exception filter or breakpoint options)
    pub filtered: Ghost<nat>,
    /// ghost: the breakpoint stop should_skip_breakpoint was asked about last, and its answer
    pub last_skip: Ghost<Option<(Pid, RelocatedAddress, bool)>>,
}

impl DebugSession {
    #[verifier::external_body]
    fn should_stop_on_exception(&self, stop: &StopReason) -> (r: bool) ensures r == reportable(stop), { unimplemented!() }
    #[verifier::external_body]
    fn should_skip_breakpoint(&mut self, pid: Pid, addr: RelocatedAddress) -> (r: Result<bool, AnyErr>)
        ensures final(self).resumed@ == old(self).resumed@,
            r is Ok ==> final(self).last_skip@ == Some((pid, addr, r->Ok_0)) && final(self).filtered@ == old(self).filtered@ + (if r->Ok_0 { 1nat } else { 0nat }),
    { unimplemented!() }
    /// debugger lookup + `dbg.continue_debugee_with_reason().context(..)`
    #[verifier::external_body]
    fn outline_continue(&mut self) -> (r: Result<StopReason, AnyErr>)
        ensures final(self).filtered@ == old(self).filtered@, final(self).last_skip@ == old(self).last_skip@,
            r is Ok ==> final(self).resumed@ == old(self).resumed@ + 1,
    { unimplemented!() }
    #[verifier::external_body]
    fn note_filtered(&mut self) ensures final(self).filtered@ == old(self).filtered@ + 1, final(self).resumed@ == old(self).resumed@, final(self).last_skip@ == old(self).last_skip@, { unimplemented!() }

//@ extract: impl super::DebugSession / fn emit_stop_reason
//@   fragment: `let mut stop = stop;` .. `^let (reason, thread_id, description, exited, last_reason, signal) = match stop {`
//@   sig: fn stop_filter(&mut self, stop: StopReason) -> (r: Result<StopReason, AnyErr>)
//@   attr: #[verifier::exec_allows_no_decreases_clause]
//@   tail: Ok(stop)
//@   requires R_fresh: old(self).resumed@ == old(self).filtered@
//@   ensures E_reportable: r is Ok ==> reportable(&r->Ok_0)
//@   ensures E_not_skipped: r is Ok && r->Ok_0 is Breakpoint ==> final(self).last_skip@ == Some((r->Ok_0->Breakpoint_0, r->Ok_0->Breakpoint_1, false))
//@   ensures E_resumed_once_each: r is Ok ==> final(self).resumed@ == final(self).filtered@
//@   outline O_c1: `let dbg = self .debugger .as_mut() .ok_or_else(|| anyhow!("continue: debugger not initialized"))?; stop = dbg .continue_debugee_with_reason() .context("continue after exception filter")?;` => `self.note_filtered(); stop = self.outline_continue()?;`
//@   outline O_c2: `let dbg = self .debugger .as_mut() .ok_or_else(|| anyhow!("continue: debugger not initialized"))?; stop = dbg .continue_debugee_with_reason() .context("continue after breakpoint filter")?;` => `stop = self.outline_continue()?;`
//@   loop 0 invariant I_sf_outer: self.resumed@ == self.filtered@
//@   loop 1 invariant I_sf_inner: self.resumed@ == self.filtered@
//@ end
}

} // verus!
fn main() {}
