//@ unit: C13.record_addresses
//@ props: C13
//@ source: src/dap/yadap/session/breakpoint.rs
//@ fn: DebugSession::handle_set_function_breakpoints, DebugSession::handle_set_breakpoints (the match arm that records an installed breakpoint), DebugSession::handle_set_instruction_breakpoints (both arms)
//@ assume: the debugger installed one location per returned view (a line or function in generic / inlined code has several); the arm is spliced verbatim (header included) into a composing `match`; `json!`, the id closure (`alloc_id()` -> ext fn on the counter) and `views.iter().map(|view| view.addr).collect()` are outlined (the latter with the contract: the addresses of ALL views, in order); Vec::remove / vec! per vstd
//@ notcovered: the other arms (nothing installed), options parsing, the events queued
use vstd::prelude::*;
verus! {
//@ include: prelude.rs

pub struct DbgErr;
#[derive(Clone, Copy, PartialEq, Eq, Structural)] pub struct Address(pub u64);
pub struct BpView { pub addr: Address }
#[derive(Clone, Copy)] pub struct Txt(pub u64);
#[derive(Clone, Copy)] pub struct Hc(pub u64);
pub struct Options { pub condition: Option<Txt>, pub hit_condition: Option<Hc>, pub log_message: Option<Txt> }
pub struct BreakpointRecord { pub id: i64, pub addresses: Vec<Address>, pub condition: Option<Txt>, pub hit_condition: Option<Hc>, pub log_message: Option<Txt>, pub hit_count: u64 }
pub struct JsonV;
impl JsonV { #[verifier::external_body] pub fn clone(&self) -> (r: JsonV) { unimplemented!() } }
pub enum InternalEvent { Breakpoint { reason: &'static str, breakpoint: JsonV } }
#[verifier::external_body] fn outline_json() -> (r: JsonV) { unimplemented!() }
#[verifier::external_body] fn outline_alloc_id(next_id: &mut i64) -> (r: i64) { unimplemented!() }
pub open spec fn addrs_of(v: Seq<BpView>) -> Seq<Address> { v.map(|i: int, x: BpView| x.addr) }
#[verifier::external_body]
fn outline_addrs(views: &Vec<BpView>) -> (r: Vec<Address>) ensures r@ == addrs_of(views@), { unimplemented!() }

//@ extract: impl DebugSession / fn handle_set_function_breakpoints
//@   fragment: `^match dbg.set_breakpoint_at_fn(name) {` .. `^Ok(_) => { let id = alloc_id();`
//@   splice: F_fn_arm
//@   rewrite W_id: `alloc_id()` => `outline_alloc_id(next_id)`
//@   outline O_json: `json!($x)` => `outline_json()`
//@   outline O_addrs: `views.iter().map(|view| view.addr).collect()` => `outline_addrs(&views)`
//@ end

//@ begin_fn: src/dap/yadap/session/breakpoint.rs :: handle_set_function_breakpoints [arm: locations installed]
fn record_fn_bp(installed: Result<Vec<BpView>, DbgErr>, options: Options, next_id: &mut i64, new_breakpoints: &mut Vec<BreakpointRecord>, rsp_bps: &mut Vec<JsonV>, pending_events: &mut Vec<InternalEvent>)
    ensures
        // every location the debugger installed for this request is remembered, so that a later set*Breakpoints removes ALL of them
        // and the stop bookkeeping finds the record at ANY of them
        installed is Ok && installed->Ok_0@.len() > 0 ==> final(new_breakpoints)@.len() == old(new_breakpoints)@.len() + 1
            && final(new_breakpoints)@.last().addresses@ =~= addrs_of(installed->Ok_0@), /*@@E_fn_all_locations*/
{
    match installed {
        /*@@SPLICE:F_fn_arm*/
        _ => {}
    }
}
//@ end_fn

//@ extract: impl DebugSession / fn handle_set_breakpoints
//@   fragment: `^match views {` .. `^_ => { let id = alloc_id();`
//@   splice: F_src_arm
//@   rewrite W_id: `alloc_id()` => `outline_alloc_id(next_id)`
//@   outline O_json: `json!($x)` => `outline_json()`
//@   outline O_addrs: `v.iter().map(|view| view.addr).collect()` => `outline_addrs(&v)`
//@ end

//@ begin_fn: src/dap/yadap/session/breakpoint.rs :: handle_set_breakpoints [arm: locations installed]
fn record_src_bp(views: Result<Vec<BpView>, DbgErr>, options: Options, line: u64, client_source_path: Txt, next_id: &mut i64, new_breakpoints: &mut Vec<BreakpointRecord>, rsp_bps: &mut Vec<JsonV>, pending_events: &mut Vec<InternalEvent>)
    ensures
        views is Ok && views->Ok_0@.len() > 0 ==> final(new_breakpoints)@.len() == old(new_breakpoints)@.len() + 1
            && final(new_breakpoints)@.last().addresses@ =~= addrs_of(views->Ok_0@), /*@@E_src_all_locations*/
{
    match views {
        /*@@SPLICE:F_src_arm*/
        _ => {}
    }
}
//@ end_fn

//@ extract: impl DebugSession / fn handle_set_instruction_breakpoints
//@   fragment: `Ok(view) => { let id = alloc_id();` .. `^} } } self.next_breakpoint_id = next_id;`
//@   splice: F_insn_arms
//@   rewrite W_id: `alloc_id()` => `outline_alloc_id(next_id)`
//@   outline O_json: `json!($x)` => `outline_json()`
//@ end

//@ begin_fn: src/dap/yadap/session/breakpoint.rs :: handle_set_instruction_breakpoints [arms: installed / refused]
fn record_insn_bp(installed_one: Result<BpView, DbgErr>, options: Options, next_id: &mut i64, new_breakpoints: &mut Vec<BreakpointRecord>, rsp_bps: &mut Vec<JsonV>, pending_events: &mut Vec<InternalEvent>)
    ensures
        final(new_breakpoints)@.len() == old(new_breakpoints)@.len() + 1, /*@@E_insn_one_record*/
        installed_one is Ok ==> final(new_breakpoints)@.last().addresses@ =~= seq![installed_one->Ok_0.addr], /*@@E_insn_location*/
        // a breakpoint the debugger refused owns no location: a later stop at ANY address is never attributed to it
        installed_one is Err ==> final(new_breakpoints)@.last().addresses@.len() == 0, /*@@E_insn_refused_owns_nothing*/
{
    match installed_one {
        /*@@SPLICE:F_insn_arms*/
    }
}
//@ end_fn

} // verus!
fn main() {}
