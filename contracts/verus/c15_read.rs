//@ unit: C15.read
//@ props: C15 C08
//@ implicit: C08
//@ source: src/debugger/mod.rs
//@ fn: debugger::read_memory_by_pid
//@ assume: trusted environment model: `sys::ptrace::read(pid, a)` is replaced by Mem::peek (PTRACE_PEEKDATA returns the word whose native-endian bytes are m[a..a+8], or fails); the parameter `pid: Pid` is replaced by `mem: &Mem`
//@ assume: recorded precondition R_cap: read_n <= isize::MAX (std's documented panic condition of Vec::with_capacity); allocation failure below that size is not modelled
//@ assume: recorded precondition R_fit: addr + 8*ceil(read_n/8) does not wrap (PEEKDATA fails long before: user addresses are < 2^47)
//@ assume: stated limitation of the real function: it peeks whole words, so up to 7 bytes after addr+read_n must be readable
//@ notcovered: agreement with /proc/<pid>/mem, behaviour of the kernel on unmapped memory
use vstd::prelude::*;
use vstd::raw_ptr::*;
verus! {
//@ include: prelude.rs
//@ include: memmodel.rs

impl Mem {
    #[verifier::external_body]
    pub fn peek(&self, addr: *mut i64) -> (r: Result<i64, Errno>)
        ensures r is Ok ==> word_at(self.m@, addr@.addr as int, r->Ok_0),
    {
        unimplemented!() // PTRACE_PEEKDATA: environment
    }
}

#[verifier::external_body]
fn outline_with_capacity(read_n: usize) -> (v: Vec<u8>)
    requires read_n <= 0x7fff_ffff_ffff_ffff,   // std: panics with "capacity overflow" above isize::MAX bytes
    ensures v@.len() == 0,
{
    //@ verbatim: O_cap
}

#[verifier::external_body]
fn outline_size_of_c_long() -> (r: usize)
    ensures r == 8,
{
    8 // mem::size_of::<c_long>() on x86-64 linux-gnu (c_long == i64)
}

#[verifier::external_body]
fn outline_as_ptr(addr: usize) -> (p: *mut i64)
    ensures p@.addr == addr,
{
    addr as *mut i64
}

#[verifier::external_body]
fn outline_ptr_offset1(addr: *mut i64) -> (p: *mut i64)
    requires addr@.addr + 8 <= usize::MAX,   // pointer::offset must not wrap
    ensures p@.addr == addr@.addr + 8,
{
    //@ verbatim: O_off
}

#[verifier::external_body]
fn outline_extend_take(result: &mut Vec<u8>, value: i64, read_reminder: isize)
    requires read_reminder > 0,
    ensures
        final(result)@ == old(result)@ + ne_bytes(value).subrange(0, if read_reminder < 8 { read_reminder as int } else { 8 }),
{
    //@ verbatim: O_ext
}

//@ extract: fn read_memory_by_pid
//@   sig: pub fn read_memory_by_pid(mem: &Mem, addr: usize, read_n: usize) -> (r: Result<Vec<u8>, Errno>)
//@   requires R_cap: read_n <= 0x7fff_ffff_ffff_ffff
//@   requires R_fit: addr + 8 * ((read_n + 7) / 8) <= usize::MAX
//@   ensures E_len: r is Ok ==> r->Ok_0@.len() == read_n
//@   ensures E_bytes: r is Ok ==> forall|i: int| 0 <= i < read_n ==> #[trigger] r->Ok_0@[i] == mem.m@[addr + i]
//@   proof before `let mut read_reminder = read_n as isize;`: let ghost addr0 = addr;
//@   outline O_cap: `Vec::with_capacity(read_n)` => `outline_with_capacity(read_n)`
//@   outline O_sz: `mem::size_of::<c_long>()` => `outline_size_of_c_long()`
//@   outline O_ptr: `addr as *mut c_long` => `outline_as_ptr(addr)`
//@   outline O_peek: `sys::ptrace::read(pid, addr as *mut c_void)` => `mem.peek(addr)`
//@   outline O_ext: `result.extend(value.to_ne_bytes().into_iter().take(read_reminder as usize))` => `outline_extend_take(&mut result, value, read_reminder)`
//@   outline O_off: `unsafe { addr.offset(1) }` => `outline_ptr_offset1(addr)`
//@   proof before `let value =`: let ghost k0 = (read_n - read_reminder) / 8;
//@   loop 0 invariant I_rem: read_reminder <= read_n && (read_n - read_reminder) % 8 == 0 && read_reminder > -8
//@   loop 0 invariant I_addr: addr@.addr == addr0 + (read_n - read_reminder)
//@   loop 0 invariant I_len: result@.len() == (if read_reminder > 0 { read_n - read_reminder } else { read_n as int })
//@   loop 0 invariant I_bytes: forall|i: int| 0 <= i < result@.len() ==> #[trigger] result@[i] == mem.m@[addr0 + i]
//@   loop 0 invariant I_sz: single_read_size == 8
//@   loop 0 decreases: read_reminder + 8
//@ end

} // verus!
fn main() {}
