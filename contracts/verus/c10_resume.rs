//@ unit: C10.resume_queue
//@ props: C10
//@ source: src/debugger/debugee/tracer.rs
//@ fn: Tracer::resume
//@ shim: src/debugger/debugee/tracer.rs :: struct Tracer :: tracee_ctl: TraceeCtl, inject_signal_queue: VecDeque<(Pid, Signal)>
//@ assume: (now backed by the Verus unit C10.cont_stopped, which proves the per-thread injection discipline of the real cont_stopped_ex / cont_stopped on a sequence model of the thread table) TraceeCtl::cont_stopped_ex(req, exclude) continues every stopped thread not in `exclude` and delivers req.1 to thread req.0 when that thread is continued, nobody else receives a signal (its body iterates a std HashMap with a closure: not verified); TraceeCtl::cont_stopped delivers nothing. The deliveries are recorded in a ghost sequence `delivered` on the TraceeCtl shim
//@ assume: waitpid / apply_new_status / group_stop_interrupt deliver no signal; apply_new_status may append at most one (thread, signal) pair at the back of the queue, for a thread that is not already queued (a thread in signal-delivery-stop cannot receive a second signal-stop before it is resumed: kernel semantics); when it reports SignalStop(_, s) it has queued s unless s is SIGINT (proved for the arm itself by the Kani unit C10.push)
//@ assume: recorded precondition R_distinct: the threads in the queue are pairwise distinct (see above); termination is not claimed (the loop waits for the debuggee)
//@ assume: (asserted at the call, ghost only) every thread that still has a queued signal is kept stopped while another signal is injected: resuming it without its signal would make the kernel discard that signal
//@ notcovered: signals arriving inside single_step, step/stepi resumption paths, multi-thread interleavings, whether the kernel delivers an injected signal exactly once
use vstd::prelude::*;
use std::collections::VecDeque;
use std::collections::HashSet;
verus! {
//@ include: prelude.rs

#[derive(Clone, Copy, PartialEq, Eq)]
pub struct Pid(pub i32);
#[derive(Clone, Copy, PartialEq, Eq)]
pub struct Signal(pub i32);
pub struct DbgError;
pub struct WaitStatus(pub i32);
#[derive(Clone, Copy)]
pub struct TraceContext;
pub struct Excluded { pub pids: Ghost<Set<Pid>> }

pub enum StopReason {
    DebugeeExit(i32),
    DebugeeStart,
    Breakpoint(Pid, usize),
    SignalStop(Pid, Signal),
    NoSuchProcess(Pid),
}

pub struct TraceeCtl {
    /// ghost history: every (thread, signal) pair injected into the debuggee with PTRACE_CONT, in order
    pub delivered: Ghost<Seq<(Pid, Signal)>>,
    pub process_pid: Pid,
}

pub struct Tracer {
    pub tracee_ctl: TraceeCtl,
    pub inject_signal_queue: VecDeque<(Pid, Signal)>,
}

pub open spec fn queued(q: Seq<(Pid, Signal)>, p: Pid) -> bool {
    exists|i: int| 0 <= i < q.len() && #[trigger] q[i].0 == p
}

pub open spec fn distinct_pids(q: Seq<(Pid, Signal)>) -> bool {
    forall|i: int, j: int| 0 <= i < j < q.len() ==> #[trigger] q[i].0 != #[trigger] q[j].0
}

pub open spec fn prefix_of(a: Seq<(Pid, Signal)>, b: Seq<(Pid, Signal)>) -> bool {
    a.len() <= b.len() && forall|i: int| 0 <= i < a.len() ==> #[trigger] a[i] == b[i]
}

proof fn lemma_pop_keeps_ledger(d: Seq<(Pid, Signal)>, q: Seq<(Pid, Signal)>)
    requires q.len() > 0,
    ensures d.push(q[0]) + q.subrange(1, q.len() as int) =~= d + q,
{
}

proof fn lemma_distinct_head(q: Seq<(Pid, Signal)>)
    requires distinct_pids(q), q.len() > 0,
    ensures !queued(q.subrange(1, q.len() as int), q[0].0), distinct_pids(q.subrange(1, q.len() as int)),
{
    let t = q.subrange(1, q.len() as int);
    assert forall|i: int| 0 <= i < t.len() implies #[trigger] t[i].0 != q[0].0 by {
        assert(t[i] == q[i + 1]);
    }
    assert forall|i: int, j: int| 0 <= i < j < t.len() implies #[trigger] t[i].0 != #[trigger] t[j].0 by {
        assert(t[i] == q[i + 1] && t[j] == q[j + 1]);
    }
}

proof fn lemma_push_prefix(a: Seq<(Pid, Signal)>, d: Seq<(Pid, Signal)>, q: Seq<(Pid, Signal)>, x: (Pid, Signal))
    requires prefix_of(a, d + q),
    ensures prefix_of(a, d + q.push(x)),
{
    assert forall|i: int| 0 <= i < a.len() implies #[trigger] a[i] == (d + q.push(x))[i] by {
        assert(a[i] == (d + q)[i]);
    }
}

proof fn lemma_push_distinct(q: Seq<(Pid, Signal)>, x: (Pid, Signal))
    requires distinct_pids(q), !queued(q, x.0),
    ensures distinct_pids(q.push(x)),
{
    let t = q.push(x);
    assert forall|i: int, j: int| 0 <= i < j < t.len() implies #[trigger] t[i].0 != #[trigger] t[j].0 by {
        if j == q.len() {
            assert(t[i] == q[i]);
            if t[i].0 == x.0 { assert(queued(q, x.0)); }
        } else {
            assert(t[i] == q[i] && t[j] == q[j]);
        }
    }
}

/// the signals the debugger is responsible for: already delivered ones followed by the queued ones
pub open spec fn ledger(t: &Tracer) -> Seq<(Pid, Signal)> {
    t.tracee_ctl.delivered@ + t.inject_signal_queue@
}

impl TraceeCtl {
    #[verifier::external_body]
    pub fn cont_stopped_ex(&mut self, inject_request: Option<(Pid, Signal)>, exclude: Excluded) -> (r: Result<(), DbgError>)
        ensures
            final(self).process_pid == old(self).process_pid,
            // the requested signal reaches its thread iff that thread is continued, i.e. not excluded
            inject_request is Some && !exclude.pids@.contains(inject_request->Some_0.0)
                ==> final(self).delivered@ == old(self).delivered@.push(inject_request->Some_0),
            inject_request is None || exclude.pids@.contains(inject_request->Some_0.0)
                ==> final(self).delivered@ == old(self).delivered@,
    { unimplemented!() }

    #[verifier::external_body]
    pub fn cont_stopped(&mut self) -> (r: Result<(), DbgError>)
        ensures final(self).delivered@ == old(self).delivered@, final(self).process_pid == old(self).process_pid,
    { unimplemented!() }

    #[verifier::external_body]
    pub fn proc_pid(&self) -> (r: Pid) ensures r == self.process_pid { unimplemented!() }
}

pub enum WaitOutcome { Status(WaitStatus), NoChild, Failed }

#[verifier::external_body]
fn outline_waitpid_any() -> (r: WaitOutcome) { unimplemented!() }

#[verifier::external_body]
fn outline_is_quiet(signal: &Signal) -> (r: bool) { unimplemented!() }
#[verifier::external_body]
fn outline_is_transparent(signal: &Signal) -> (r: bool) { unimplemented!() }

impl Tracer {
    /// `self.inject_signal_queue.iter().map(|(pid, _)| *pid).collect()`
    #[verifier::external_body]
    fn outline_queued_pids(&self) -> (r: Excluded)
        ensures forall|p: Pid| r.pids@.contains(p) <==> #[trigger] queued(self.inject_signal_queue@, p),
    { unimplemented!() }

    /// `self.inject_signal_queue.iter().skip(n).map(|(pid, _)| *pid).collect()`: the pids of the queue WITHOUT its first n entries
    #[verifier::external_body]
    fn outline_queued_pids_skip(&self, n: usize) -> (r: Excluded)
        ensures forall|p: Pid| r.pids@.contains(p) <==> #[trigger] queued(self.inject_signal_queue@.skip(n as int), p),
    { unimplemented!() }

    /// `self.inject_signal_queue.front().copied()`
    #[verifier::external_body]
    fn outline_front(&self) -> (r: Option<(Pid, Signal)>)
        ensures
            self.inject_signal_queue@.len() == 0 ==> r is None,
            self.inject_signal_queue@.len() > 0 ==> r == Some(self.inject_signal_queue@[0]),
    { unimplemented!() }

    #[verifier::external_body]
    fn group_stop_interrupt(&mut self, tcx: TraceContext, initiator_pid: Pid) -> (r: Result<(), DbgError>)
        ensures final(self).inject_signal_queue@ == old(self).inject_signal_queue@, final(self).tracee_ctl == old(self).tracee_ctl,
    { unimplemented!() }

    #[verifier::external_body]
    fn apply_new_status(&mut self, tcx: TraceContext, status: WaitStatus) -> (r: Result<Option<StopReason>, DbgError>)
        ensures
            final(self).tracee_ctl.delivered@ == old(self).tracee_ctl.delivered@,
            final(self).tracee_ctl.process_pid == old(self).tracee_ctl.process_pid,
            // at most one new signal, queued at the back, for a thread that is not queued yet
            final(self).inject_signal_queue@ == old(self).inject_signal_queue@
                || (exists|x: (Pid, Signal)| #[trigger] old(self).inject_signal_queue@.push(x) == final(self).inject_signal_queue@
                        && !queued(old(self).inject_signal_queue@, x.0)),
    { unimplemented!() }

//@ extract: impl Tracer / fn resume
//@   sig: pub fn resume(&mut self, tcx: TraceContext) -> (r: Result<StopReason, DbgError>)
//@   attr: #[verifier::exec_allows_no_decreases_clause]
//@   requires R_distinct: distinct_pids(old(self).inject_signal_queue@)
//@   ensures E_ledger: r is Ok ==> prefix_of(ledger(old(self)), ledger(final(self)))
//@   ensures E_distinct: r is Ok ==> distinct_pids(final(self).inject_signal_queue@)
//@   ensures E_restop: r is Ok && old(self).inject_signal_queue@.len() >= 2 ==> final(self).tracee_ctl.delivered@ == old(self).tracee_ctl.delivered@.push(old(self).inject_signal_queue@[0]) && r->Ok_0 == StopReason::SignalStop(old(self).inject_signal_queue@[1].0, old(self).inject_signal_queue@[1].1) && final(self).inject_signal_queue@ == old(self).inject_signal_queue@.subrange(1, old(self).inject_signal_queue@.len() as int)
//@   outline O_excl_skip: `self.inject_signal_queue .iter() .skip($n) .map(|(pid, _)| *pid) .collect()` => `self.outline_queued_pids_skip($n)`
//@   outline O_excl: `self.inject_signal_queue .iter() .map(|(pid, _)| *pid) .collect()` => `self.outline_queued_pids()`
//@   rewrite W_keep_stopped: `self.tracee_ctl.cont_stopped_ex( Some(req), $e, )?;` => `let excl_ = $e; proof { assert(forall|p: Pid| #[trigger] queued(self.inject_signal_queue@, p) ==> excl_.pids@.contains(p)); } self.tracee_ctl.cont_stopped_ex(Some(req), excl_)?;`
//@   outline O_front: `self.inject_signal_queue.front().copied()` => `self.outline_front()`
//@   rewrite W_pid: `Pid::from_raw(-1)` => `Pid(-1)`
//@   outline O_multi: `self.tracee_ctl.cont_stopped().map_err(MultipleErrors)?` => `self.tracee_ctl.cont_stopped()?`
//@   rewrite W_wait: `match waitpid(Pid(-1), None) { Ok(status) => status, Err(Errno::ECHILD) => { return Ok(StopReason::NoSuchProcess(self.tracee_ctl.proc_pid())); } Err(e) => return Err(Waitpid(e)), }` => `match outline_waitpid_any() { WaitOutcome::Status(status) => status, WaitOutcome::NoChild => { return Ok(StopReason::NoSuchProcess(self.tracee_ctl.proc_pid())); } WaitOutcome::Failed => return Err(DbgError), }`
//@   outline O_quiet: `QUIET_SIGNALS.contains(&$s)` => `outline_is_quiet(&$s)`
//@   outline O_transp: `TRANSPARENT_SIGNALS.contains(&$s)` => `outline_is_transparent(&$s)`
//@   proof before `if let Some(req) = self.inject_signal_queue.pop_front()`: let ghost q_pre = self.inject_signal_queue@; let ghost d_pre = self.tracee_ctl.delivered@; assert(q_pre.len() > 0 ==> (!queued(q_pre.subrange(1, q_pre.len() as int), q_pre[0].0) && distinct_pids(q_pre.subrange(1, q_pre.len() as int)) && d_pre.push(q_pre[0]) + q_pre.subrange(1, q_pre.len() as int) =~= d_pre + q_pre)) by { if q_pre.len() > 0 { lemma_distinct_head(q_pre); lemma_pop_keeps_ledger(d_pre, q_pre); } }
//@   proof before `if let Some(stop) = self.apply_new_status(tcx, status)?`: let ghost q_mid = self.inject_signal_queue@; let ghost d_mid = self.tracee_ctl.delivered@;
//@   proof after `if let Some(stop) = self.apply_new_status(tcx, status)? {`: assert(prefix_of(ledger(old(self)), ledger(self)) && distinct_pids(self.inject_signal_queue@)) by { if self.inject_signal_queue@ != q_mid { let x = choose|x: (Pid, Signal)| #[trigger] q_mid.push(x) == self.inject_signal_queue@ && !queued(q_mid, x.0); lemma_push_prefix(ledger(old(self)), d_mid, q_mid, x); lemma_push_distinct(q_mid, x); } }
//@   loop 0 invariant I_rq1: distinct_pids(self.inject_signal_queue@)
//@   loop 0 invariant I_rq2: prefix_of(ledger(old(self)), ledger(self))
//@   loop 0 invariant I_rq4: old(self).inject_signal_queue@.len() >= 2 ==> (self.inject_signal_queue@ == old(self).inject_signal_queue@ && self.tracee_ctl.delivered@ == old(self).tracee_ctl.delivered@)
//@ end
}

} // verus!
fn main() {}
