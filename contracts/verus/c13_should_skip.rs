//@ unit: C13.should_skip
//@ props: C13
//@ source: src/dap/yadap/session/control.rs
//@ fn: DebugSession::should_skip_breakpoint
//@ shim: src/dap/yadap/session/breakpoint.rs :: struct BreakpointHitInfo :: id: i64, condition: Option<String>, hit_condition: Option<HitCondition>, log_message: Option<String>, hit_count: u64
//@ assume: record_breakpoint_hit returns the options of the record that owns the stop address with its hit counter already advanced (lookup predicate: unit C13.record_lookup); evaluate_condition_expression is, within one call, a function `eval_of` of the condition text (Some(b) = evaluated to b, None = error); HitCondition::matches is the relation proved by the Kani unit C13.hit_matches (`spec_matches` repeats it); enqueue_event appends one event to the ghost event list, drain_events / format_log_message / set_thread_into_focus_by_pid append nothing
//@ assume: signature substitution: anyhow::Result<bool> -> Result<bool, AnyErr>; `anyhow!`, `format!` and the newline handling of the log text are outlined (no effect on the decision)
//@ notcovered: condition evaluation itself (literal first, then DQE truthiness), log-message interpolation, that emit_stop_reason continues the debuggee when told to skip, behaviour of options across start/restart
use vstd::prelude::*;
verus! {
//@ include: prelude.rs

pub struct AnyErr;
#[derive(Clone, Copy)]
pub struct Pid(pub i32);
#[derive(Clone, Copy)]
pub struct RelocatedAddress(pub usize);
pub enum Address { Relocated(RelocatedAddress), Global(usize) }
mod debugger { pub mod address { pub use super::super::Address; } }

pub enum HitCondition {
    Exact(u64),
    GreaterOrEqual(u64),
    Greater(u64),
    Less(u64),
    LessOrEqual(u64),
    Invalid(String),
}

/// the relation proved for the real `HitCondition::matches` by the Kani unit C13.hit_matches
pub open spec fn spec_matches(h: &HitCondition, hits: u64) -> bool {
    match h {
        HitCondition::Exact(n) => hits == *n,
        HitCondition::GreaterOrEqual(n) => hits >= *n,
        HitCondition::Greater(n) => hits > *n,
        HitCondition::Less(n) => hits < *n,
        HitCondition::LessOrEqual(n) => hits <= *n,
        HitCondition::Invalid(_) => true,
    }
}

impl HitCondition {
    #[verifier::external_body]
    pub fn matches(&self, hits: u64) -> (r: bool) ensures r == spec_matches(self, hits), { unimplemented!() }
}

pub struct BreakpointHitInfo {
    pub id: i64,
    pub condition: Option<String>,
    pub hit_condition: Option<HitCondition>,
    pub log_message: Option<String>,
    pub hit_count: u64,
}

pub enum InternalEvent { Output { category: &'static str, output: String } }

pub struct Dbg;
impl Dbg {
    #[verifier::external_body]
    pub fn set_thread_into_focus_by_pid(&mut self, pid: Pid) -> (r: Result<(), AnyErr>) { unimplemented!() }
}

pub struct DebugSession {
    /// ghost: number of output events enqueued so far
    pub outputs: Ghost<nat>,
    pub dbg: Dbg,
}

/// what evaluating a condition text yields during this call: Some(b) or None for an error
pub uninterp spec fn eval_of(c: Seq<char>) -> Option<bool>;
/// the record options found for a stop address (None: no adapter record owns the address)
pub uninterp spec fn hit_for(a: RelocatedAddress) -> Option<BreakpointHitInfo>;

pub open spec fn is_invalid(h: &HitCondition) -> bool { h is Invalid }

/// property C13: "a conditional breakpoint stops only when its condition holds, hitCondition N on the N-th hit,
/// and a logpoint logs and never stops" -- true = do not stop
pub open spec fn skip_spec(hit: Option<BreakpointHitInfo>) -> bool {
    match hit {
        None => false,
        Some(h) => {
            if h.condition is Some && eval_of(h.condition->Some_0@) == Some(false) { true }
            else if h.condition is Some && eval_of(h.condition->Some_0@) is None { false }
            else if h.hit_condition is Some && !is_invalid(&h.hit_condition->Some_0) && !spec_matches(&h.hit_condition->Some_0, h.hit_count) { true }
            else { h.log_message is Some }
        }
    }
}

/// a log line is produced exactly when the stop is a logpoint whose condition and hit condition let it through
pub open spec fn logs_spec(hit: Option<BreakpointHitInfo>) -> bool {
    match hit {
        None => false,
        Some(h) => {
            (h.condition is None || eval_of(h.condition->Some_0@) == Some(true))
            && (h.hit_condition is None || is_invalid(&h.hit_condition->Some_0) || spec_matches(&h.hit_condition->Some_0, h.hit_count))
            && h.log_message is Some
        }
    }
}

#[verifier::external_body]
fn outline_format() -> (r: String) { unimplemented!() }
#[verifier::external_body]
fn outline_needs_newline(s: &String) -> (r: bool) { unimplemented!() }
#[verifier::external_body]
fn outline_push_newline(s: &mut String) { unimplemented!() }
#[verifier::external_body]
fn outline_as_deref(o: &Option<String>) -> (r: Option<&str>)
    ensures r is Some == o is Some, r is Some ==> r->Some_0@ == o->Some_0@,
{ unimplemented!() }

impl DebugSession {
    #[verifier::external_body]
    fn record_breakpoint_hit(&mut self, addr: Address) -> (r: Option<BreakpointHitInfo>)
        ensures final(self).outputs@ == old(self).outputs@,
            addr matches Address::Relocated(a) ==> r == hit_for(a),
    { unimplemented!() }

    #[verifier::external_body]
    fn outline_debugger(&mut self) -> (r: Result<&mut Dbg, AnyErr>)
        ensures final(self).outputs@ == old(self).outputs@,
    { unimplemented!() }

    #[verifier::external_body]
    fn evaluate_condition_expression(&mut self, expr: &str) -> (r: Result<bool, AnyErr>)
        ensures final(self).outputs@ == old(self).outputs@,
            r is Ok ==> eval_of(expr@) == Some(r->Ok_0),
            r is Err ==> eval_of(expr@) is None,
    { unimplemented!() }

    #[verifier::external_body]
    fn enqueue_event(&mut self, ev: InternalEvent)
        ensures final(self).outputs@ == old(self).outputs@ + 1,
    { unimplemented!() }

    #[verifier::external_body]
    fn drain_events(&mut self) -> (r: Result<(), AnyErr>)
        ensures final(self).outputs@ == old(self).outputs@,
    { unimplemented!() }

    #[verifier::external_body]
    fn format_log_message(&mut self, template: &str) -> (r: Result<String, AnyErr>)
        ensures final(self).outputs@ == old(self).outputs@,
    { unimplemented!() }

//@ extract: impl super::DebugSession / fn should_skip_breakpoint
//@   sig: fn should_skip_breakpoint(&mut self, pid: Pid, addr: RelocatedAddress) -> (r: Result<bool, AnyErr>)
//@   ensures E_decision: r is Ok ==> r->Ok_0 == skip_spec(hit_for(addr))
//@   ensures E_logs_once: r is Ok && logs_spec(hit_for(addr)) ==> final(self).outputs@ >= old(self).outputs@ + 1
//@   ensures E_quiet_skip: r is Ok && hit_for(addr) is Some && hit_for(addr)->Some_0.condition is Some && eval_of(hit_for(addr)->Some_0.condition->Some_0@) == Some(false) ==> final(self).outputs@ == old(self).outputs@
//@   outline O_dbg: `self .debugger .as_mut() .ok_or_else(|| anyhow!($m))?` => `self.outline_debugger()?`
//@   outline O_deref1: `hit.condition.as_deref()` => `outline_as_deref(&hit.condition)`
//@   outline O_deref2: `hit.log_message.as_deref()` => `outline_as_deref(&hit.log_message)`
//@   outline O_fmt: `format!($a)` => `outline_format()`
//@   rewrite W_path: `super::breakpoint::HitCondition` => `HitCondition`
//@   outline O_nl: `!output.ends_with('\n')` => `outline_needs_newline(&output)`
//@   outline O_push: `output.push('\n')` => `outline_push_newline(&mut output)`
//@ end
}

} // verus!
fn main() {}
