// ---- prelude.rs: spec functions and ghost models only (no executable code) ----
global size_of usize == 8;

pub open spec fn sorted_u64(s: Seq<u64>) -> bool {
    forall|i: int, j: int| 0 <= i <= j < s.len() ==> s[i] <= s[j]
}
