//@ unit: C05.frame_info
//@ props: C05
//@ source: src/debugger/debugee/mod.rs
//@ fn: Debugee::frame_info (from the unwind of the focused thread to the end)
//@ assume: Debugee::unwind returns the backtrace of the thread (C05.unwind); Debugee::return_addr(pid) is the return address of the INNERMOST frame (one unwind step from the thread's registers); `iter().enumerate().find(..).expect(..)` outlined as "first frame whose ip is the pc of the frame in focus" (panics if none); `backtrace.get(i).map(|f| f.ip)` rewritten to the equivalent bounds test (Vec::get); frame.clone() external
//@ notcovered: cfa / frame base computation in front of the fragment (C05.cfa)
use vstd::prelude::*;
verus! {
//@ include: prelude.rs

pub struct Error;
#[derive(Clone, Copy, PartialEq, Eq, Structural)] pub struct RelocatedAddress(pub u64);
#[derive(Clone, Copy, PartialEq, Eq, Structural)] pub struct Pid(pub i32);
pub struct FrameSpan { pub ip: RelocatedAddress, pub fn_start: u64 }
impl FrameSpan { #[verifier::external_body] pub fn clone(&self) -> (r: FrameSpan) ensures r == *self, { unimplemented!() } }
pub struct Location { pub pc: RelocatedAddress, pub pid: Pid }
pub struct ExplorationContext { pub loc: Location }
impl ExplorationContext {
    pub fn location(&self) -> (r: &Location) ensures *r == self.loc, { &self.loc }
    pub fn pid_on_focus(&self) -> (r: Pid) ensures r == self.loc.pid, { self.loc.pid }
}
pub struct FrameInfo { pub frame: FrameSpan, pub num: u32, pub cfa: RelocatedAddress, pub base_addr: RelocatedAddress, pub return_addr: Option<RelocatedAddress> }
pub struct Debugee;
/// the call stack of thread `pid`, innermost frame first
pub uninterp spec fn stack_of(d: &Debugee, pid: Pid) -> Seq<FrameSpan>;
pub open spec fn first_at(bt: Seq<FrameSpan>, pc: RelocatedAddress, k: int) -> bool {
    0 <= k < bt.len() && bt[k].ip == pc && forall|j: int| 0 <= j < k ==> bt[j].ip != pc
}
#[verifier::external_body]
fn outline_find<'a>(backtrace: &'a Vec<FrameSpan>, ecx: &ExplorationContext) -> (r: (usize, &'a FrameSpan))
    ensures first_at(backtrace@, ecx.loc.pc, r.0 as int), *r.1 == backtrace@[r.0 as int],
{ unimplemented!() }
impl Debugee {
    #[verifier::external_body]
    pub fn unwind(&self, pid: Pid) -> (r: Result<Vec<FrameSpan>, Error>) ensures r is Ok ==> r->Ok_0@ == stack_of(self, pid) && r->Ok_0@.len() < 0x1_0000_0000, { unimplemented!() }
    #[verifier::external_body]
    pub fn return_addr(&self, pid: Pid) -> (r: Result<Option<RelocatedAddress>, Error>)
        ensures r is Ok ==> r->Ok_0 == (if stack_of(self, pid).len() > 1 { Some(stack_of(self, pid)[1].ip) } else { None::<RelocatedAddress> }),
    { unimplemented!() }

//@ extract: impl Debugee / fn frame_info
//@   fragment: `let backtrace = self.unwind(ecx.pid_on_focus())?;` .. `return_addr, })`
//@   sig: fn frame_info_tail(&self, ecx: &ExplorationContext, cfa: RelocatedAddress, base_addr: RelocatedAddress) -> (r: Result<FrameInfo, Error>)
//@   ensures E_num: r is Ok ==> first_at(stack_of(self, ecx.loc.pid), ecx.loc.pc, r->Ok_0.num as int) && r->Ok_0.frame == stack_of(self, ecx.loc.pid)[r->Ok_0.num as int]
//@   ensures E_return_addr_of_selected_frame: r is Ok ==> r->Ok_0.return_addr == (if r->Ok_0.num as int + 1 < stack_of(self, ecx.loc.pid).len() { Some(stack_of(self, ecx.loc.pid)[r->Ok_0.num as int + 1].ip) } else { None::<RelocatedAddress> })
//@   outline O_find: `backtrace .iter() .enumerate() .find(|(_, frame)| frame.ip == ecx.location().pc) .expect("frame must exists")` => `outline_find(&backtrace, ecx)`
//@   rewrite W_get: `backtrace.get(bt_frame_num + 1).map(|f| f.ip)` => `(if bt_frame_num + 1 < backtrace.len() { Some(backtrace[bt_frame_num + 1].ip) } else { None })`
//@ end
}

} // verus!
fn main() {}
