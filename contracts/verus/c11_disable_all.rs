//@ unit: C11.disable_all
//@ props: C11
//@ source: src/debugger/breakpoint.rs
//@ fn: BreakpointRegistry::disable_all_breakpoints (per-breakpoint loop body)
//@ assume: `for (_, brkpt) in breakpoints.drain()` visits every installed breakpoint exactly once (std HashMap::drain); the loop body is spliced verbatim into `disable_one`; add_uninit records the template in a ghost sequence on the registry shim (its body is a HashMap insert keyed by the template address); new_inherited / new_entry_point keep the address they are given (and number, place, file of the breakpoint); into_global is `addr - load offset of its object` (unit C18.try_into_brkpt E_glob)
//@ notcovered: re-enabling after restart (enable_all_breakpoints / try_into_brkpt: C18.try_into_brkpt), update_pid, that the new process is loaded at a different address
use vstd::prelude::*;
verus! {
//@ include: prelude.rs

pub struct DbgError;
pub type Error = DbgError;
#[derive(Clone, Copy, PartialEq, Eq)]
pub struct RelocatedAddress(pub usize);
#[derive(Clone, Copy, PartialEq, Eq)]
pub struct GlobalAddress(pub usize);
#[derive(Clone, Copy, PartialEq, Eq)]
pub enum Address { Relocated(RelocatedAddress), Global(GlobalAddress) }
#[derive(Clone, Copy)]
pub struct Pid(pub i32);
pub struct PathBuf(pub u64);
pub struct Debugee;
pub struct Rc0;
pub enum BrkptType { EntryPoint, UserDefined, WatchpointCompanion(Vec<u32>), Temporary, TemporaryAsync, LinkerMapFn, Transparent(Rc0) }

/// load offset of the object that contains a run-time address (see C18.try_into_brkpt)
pub uninterp spec fn off_of(a: usize) -> usize;

impl RelocatedAddress {
    #[verifier::external_body]
    pub fn into_global(self, debugee: &Debugee) -> (r: Result<GlobalAddress, DbgError>)
        ensures r is Ok ==> r->Ok_0.0 == self.0 - off_of(self.0),
    { unimplemented!() }
}

pub struct Breakpoint { pub addr: RelocatedAddress, pub pid: Pid, pub number: u32, pub r#type: BrkptType, pub debug_info_file: PathBuf }
impl Breakpoint {
    #[verifier::external_body] pub fn disable(&self) -> (r: Result<(), DbgError>) { unimplemented!() }
}

/// a not-installed breakpoint template: where it will be installed again, and which user breakpoint it is
pub struct UninitBreakpoint { pub addr: Address, pub number: u32 }
impl UninitBreakpoint {
    #[verifier::external_body]
    pub fn new_entry_point(file: Option<PathBuf>, addr: Address, pid: Pid) -> (r: UninitBreakpoint)
        ensures r.addr == addr, r.number == 0,
    { unimplemented!() }
    #[verifier::external_body]
    pub fn new_inherited(addr: Address, brkpt: Breakpoint) -> (r: UninitBreakpoint)
        ensures r.addr == addr, r.number == brkpt.number,
    { unimplemented!() }
}

pub struct BreakpointRegistry { pub templates: Ghost<Seq<UninitBreakpoint>> }
impl BreakpointRegistry {
    #[verifier::external_body]
    pub fn add_uninit(&mut self, t: UninitBreakpoint)
        ensures final(self).templates@ == old(self).templates@.push(t),
    { unimplemented!() }

//@ extract: impl BreakpointRegistry / fn disable_all_breakpoints
//@   fragment: `^for (_, brkpt) in breakpoints.drain() {` .. `^} Ok(errors)`
//@   splice: F_one
//@   rewrite W_cont: `continue;` => `return Ok(());`
//@ end

//@ begin_fn: src/debugger/breakpoint.rs :: disable_all_breakpoints [loop body for one breakpoint]
    fn disable_one(&mut self, brkpt: Breakpoint, debugee: &Debugee, errors: &mut Vec<Error>) -> (r: Result<(), Error>)
        ensures
            // "restart re-creates the process with all user breakpoints intact so they hit again at the same places":
            // a user (or entry-point) breakpoint is kept as ONE template keyed by its load-independent address, with its number
            r is Ok && (brkpt.r#type is UserDefined || brkpt.r#type is EntryPoint) ==> final(self).templates@.len() == old(self).templates@.len() + 1
                && final(self).templates@.last().addr == Address::Global(GlobalAddress((brkpt.addr.0 - off_of(brkpt.addr.0)) as usize)), /*@@E_key*/
            r is Ok && brkpt.r#type is UserDefined ==> final(self).templates@.last().number == brkpt.number, /*@@E_number*/
            // internal breakpoints (temporary, linker map, companions, transparent) do not survive
            r is Ok && !(brkpt.r#type is UserDefined || brkpt.r#type is EntryPoint) ==> final(self).templates@ == old(self).templates@, /*@@E_internal*/
    {
        /*@@SPLICE:F_one*/
        Ok(())
    }
//@ end_fn
}

} // verus!
fn main() {}
