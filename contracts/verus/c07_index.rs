//@ unit: C07.index
//@ props: C07 C08
//@ implicit: C08
//@ source: src/debugger/variable/value/mod.rs
//@ fn: Value::index (Array arm: the closure handed to Option::and_then)
//@ shim: src/debugger/variable/value/mod.rs :: struct ArrayItem :: index: i64, value: Value
//@ assume: Option::and_then(f) applies f to the items of an array value that has items and yields None otherwise (std); the closure body is spliced verbatim into `index_array`; the element `Value` is an opaque payload (Val); Literal keeps only the Int variant and a catch-all
//@ assume: recorded precondition R_len: the item vector is shorter than 2^63 (Rust allocations never exceed isize::MAX bytes), so a negative index cast to usize is out of range
//@ notcovered: the other arms of Value::index (enums, vectors delegate to this arm; maps and sets use match_literal), the grammar
use vstd::prelude::*;
verus! {
//@ include: prelude.rs

pub struct Val(pub u64);
pub struct ArrayItem { pub index: i64, pub value: Val }
pub enum Literal { Int(i64), Other(u8) }

pub open spec fn in_range(idx: &Literal, len: nat) -> bool { idx is Int && 0 <= idx->Int_0 < len }

//@ extract: impl Value / fn index
//@   fragment: `^Value::Array(array) => array.items.and_then(|mut items| {` .. `^}),`
//@   splice: F_idx
//@   proof before `let idx = *idx as usize;`: let ghost v: i64 = *idx; assert(v < 0 ==> (v as usize) >= 0x8000_0000_0000_0000usize) by(bit_vector);
//@ end

//@ begin_fn: src/debugger/variable/value/mod.rs :: index [Array arm closure]
fn index_array(mut items: Vec<ArrayItem>, idx: &Literal) -> (r: Option<Val>)
    requires items@.len() < 0x8000_0000_0000_0000, /*@@R_len*/
    ensures
        // "a[i] is the i-th element": position i of the (possibly sliced) sequence, not the item whose label is i
        in_range(idx, items@.len()) ==> r == Some(items@[idx->Int_0 as int].value), /*@@E_ith*/
        // "an operator that does not apply yields no result"
        !in_range(idx, items@.len()) ==> r is None, /*@@E_none*/
{
    /*@@SPLICE:F_idx*/
}
//@ end_fn

} // verus!
fn main() {}
