//@ unit: C06.btree_walk
//@ props: C06 C08
//@ implicit: C08
//@ source: src/debugger/variable/value/specialization/btree.rs
//@ fn: Handle::next_leaf_edge, Handle::first_leaf_edge, Handle::node_is_leaf, Handle::is_right_kv
//@ shim: src/debugger/variable/value/specialization/btree.rs :: struct Node :: data: LeafOrInternal, height: usize
//@ shim: src/debugger/variable/value/specialization/btree.rs :: struct Handle :: node: Node, idx: usize
//@ assume: BTreeReflection::make_node(evcx, ptr, h) reads the node stored at `ptr` in the debuggee (`node_at(ptr, h)`), of the requested height, Leaf iff h == 0 (read_memory + DWARF member lookup: external); edge pointers are modelled by their addresses (`edges: [usize; 12]`), Leaf keeps only `len`
//@ assume: recorded precondition R_idx: for an internal node self.idx + 1 < 12 (the caller checks is_right_kv: idx < len <= 11)
//@ notcovered: key/value byte extraction (Handle::data), try_ascend, KVIterator::next as a whole, node decoding from memory
use vstd::prelude::*;
verus! {
//@ include: prelude.rs

pub struct Leaf { pub len: u16 }
pub struct Internal { pub leaf: Leaf, pub edges: [usize; 12] }
pub enum LeafOrInternal { Leaf(Leaf), Internal(Internal) }
pub struct Node { pub data: LeafOrInternal, pub height: usize }
pub struct Handle { pub node: Node, pub idx: usize }
pub struct BTreeReflection;
pub struct EvaluationContext;
pub struct ParsingError;

/// the node stored at address `ptr` of the debuggee, read as a node of height `h`
pub uninterp spec fn node_at(ptr: usize, h: usize) -> Node;

pub open spec fn wf_node(n: Node) -> bool { (n.height == 0) <==> (n.data is Leaf) }

/// std BTreeMap: the leftmost leaf of the subtree rooted at `n` (a node of height `h`)
pub open spec fn leftmost(n: Node, h: nat) -> Node
    decreases h,
{
    if h == 0 || !(n.data is Internal) { n } else { leftmost(node_at(n.data->Internal_0.edges[0], (h - 1) as usize), (h - 1) as nat) }
}

impl LeafOrInternal {
    #[verifier::external_body]
    pub fn internal(&self) -> (r: &Internal)
        requires self is Internal,      // the real body panics ("not an internal") otherwise
        ensures *r == self->Internal_0,
    { unimplemented!() }
    #[verifier::external_body]
    pub fn len(&self) -> (r: u16)
    { unimplemented!() }
}

impl BTreeReflection {
    #[verifier::external_body]
    pub fn make_node(&self, evcx: &EvaluationContext, node_ptr: usize, height: usize) -> (r: Result<Node, ParsingError>)
        ensures r is Ok ==> r->Ok_0 == node_at(node_ptr, height) && r->Ok_0.height == height && wf_node(r->Ok_0),
    { unimplemented!() }
}

impl Handle {
//@ extract: impl Handle / fn node_is_leaf
//@   ret: r
//@   ensures E_leaf: r == (self.node.height == 0)
//@ end

//@ extract: impl Handle / fn next_leaf_edge
//@   ret: r
//@   requires R_wf: wf_node(self.node)
//@   requires R_idx: self.idx < usize::MAX && (self.node.height != 0 ==> self.idx + 1 < 12)
//@   ensures E_nle_leaf: r is Ok && self.node.height == 0 ==> r->Ok_0.node == self.node && r->Ok_0.idx == self.idx + 1
//@   ensures E_nle_int: r is Ok && self.node.height != 0 ==> r->Ok_0.idx == 0 && r->Ok_0.node.height == 0 && r->Ok_0.node == leftmost(node_at(self.node.data->Internal_0.edges[self.idx + 1], (self.node.height - 1) as usize), (self.node.height - 1) as nat)
//@   proof before `while node.height != 0`: let ghost first = node;
//@   loop 0 invariant I_nle1: wf_node(node) && leftmost(node, node.height as nat) == leftmost(first, first.height as nat)
//@   loop 0 decreases: node.height
//@ end

//@ extract: impl Handle / fn first_leaf_edge
//@   ret: r
//@   requires R_wf: wf_node(self.node)
//@   ensures E_fle: r is Ok ==> r->Ok_0.node == leftmost(self.node, self.node.height as nat) && r->Ok_0.node.height == 0 && (self.node.height != 0 ==> r->Ok_0.idx == 0)
//@   loop 0 invariant I_fle1: wf_node(handle.node) && leftmost(handle.node, handle.node.height as nat) == leftmost(self.node, self.node.height as nat) && handle.node.height <= self.node.height && (handle.node.height != self.node.height ==> handle.idx == 0) && (handle.node.height == self.node.height ==> handle == self)
//@   loop 0 decreases: handle.node.height
//@ end
}

} // verus!
fn main() {}
