//@ unit: C18.find_range
//@ props: C18
//@ source: src/debugger/debugee/registry.rs
//@ fn: DwarfRegistry::find_range (comparator closure + lookup), DwarfRegistry::find_by_addr, DwarfRegistry::find_mapping_offset
//@ shim: src/debugger/debugee/registry.rs :: struct DwarfRegistry :: ranges: Vec<(PathBuf, RegionRange)>, files: HashMap<PathBuf, DebugInformation>, mappings: HashMap<PathBuf, usize>
//@ shim: src/debugger/debugee/registry.rs :: struct RegionRange :: from: RelocatedAddress, to: RelocatedAddress
//@ assume: data-structure invariant wf_ranges (sorted by `from`, from <= to, to[i] <= from[i+1]) is assumed at the lookup; it is established by update_mappings' sort plus disjointness of /proc/<pid>/maps regions (environment)
//@ assume: std contract of slice::binary_search_by for a comparator that partitions the slice (Less* Equal* Greater*), composed with `.ok().map(|idx| &self.ranges[idx])`
//@ notcovered: reading /proc/<pid>/maps, rendezvous, deferred-breakpoint retry, dlopen histories, `sharedlib info`; observation: the comparator's upper bound is closed (`addr <= range.to`) although `to` is one past the last mapped byte
use vstd::prelude::*;
use core::cmp::Ordering;
use std::collections::HashMap;
use vstd::std_specs::hash::*;
verus! {
//@ include: prelude.rs

#[derive(Clone, Copy, PartialEq, Eq, PartialOrd, Ord)]
pub struct RelocatedAddress(pub usize);
#[derive(PartialEq, Eq, Hash)]
pub struct PathBuf(pub u64);
pub struct DebugInformation(pub u64);
pub struct RegionRange {
    pub from: RelocatedAddress,
    pub to: RelocatedAddress,
}
pub struct DwarfRegistry {
    pub ranges: Vec<(PathBuf, RegionRange)>,
    pub files: HashMap<PathBuf, DebugInformation>,
    pub mappings: HashMap<PathBuf, usize>,
}
/// `opt.copied()`
#[verifier::external_body]
fn outline_copied(o: Option<&usize>) -> (r: Option<usize>) ensures r is Some == o is Some, r is Some ==> r->Some_0 == *o->Some_0, { unimplemented!() }

pub open spec fn rfrom(s: &DwarfRegistry, i: int) -> int { s.ranges@[i].1.from.0 as int }
pub open spec fn rto(s: &DwarfRegistry, i: int) -> int { s.ranges@[i].1.to.0 as int }

pub open spec fn wf_ranges(s: &DwarfRegistry) -> bool {
    &&& forall|i: int| 0 <= i < s.ranges@.len() ==> #[trigger] rfrom(s, i) <= rto(s, i)
    &&& forall|i: int, j: int| 0 <= i < j < s.ranges@.len() ==> #[trigger] rto(s, i) <= #[trigger] rfrom(s, j)
}

/// the comparator of find_range as a mathematical function
pub open spec fn spec_cmp(addr: RelocatedAddress, range: &RegionRange) -> Ordering {
    if addr.0 >= range.from.0 && addr.0 <= range.to.0 { Ordering::Equal }
    else if range.from.0 > addr.0 { Ordering::Greater }
    else { Ordering::Less }
}

/// std's requirement on the comparator of binary_search_by: Less* Equal* Greater*
pub open spec fn partitioned(s: &DwarfRegistry, addr: RelocatedAddress) -> bool {
    forall|i: int, j: int| 0 <= i < j < s.ranges@.len() ==> {
        &&& (#[trigger] spec_cmp(addr, &s.ranges@[i].1) == Ordering::Greater ==> #[trigger] spec_cmp(addr, &s.ranges@[j].1) == Ordering::Greater)
        &&& (spec_cmp(addr, &s.ranges@[i].1) == Ordering::Equal ==> spec_cmp(addr, &s.ranges@[j].1) != Ordering::Less)
    }
}

proof fn lemma_wf_partitioned(s: &DwarfRegistry, addr: RelocatedAddress)
    requires wf_ranges(s),
    ensures partitioned(s, addr),
{
    assert forall|i: int, j: int| 0 <= i < j < s.ranges@.len() implies {
        &&& (#[trigger] spec_cmp(addr, &s.ranges@[i].1) == Ordering::Greater ==> #[trigger] spec_cmp(addr, &s.ranges@[j].1) == Ordering::Greater)
        &&& (spec_cmp(addr, &s.ranges@[i].1) == Ordering::Equal ==> spec_cmp(addr, &s.ranges@[j].1) != Ordering::Less)
    } by {
        assert(rfrom(s, i) <= rto(s, i));
        assert(rto(s, i) <= rfrom(s, j));
        assert(rfrom(s, j) <= rto(s, j));
    }
}

// ---- the comparator closure body, extracted verbatim as a function of its captured variables
//@ extract: impl DwarfRegistry / fn find_range
//@   fragment: `if addr >= range.from && addr <= range.to {` .. `Ordering::Less }`
//@   sig: fn find_range_cmp(addr: RelocatedAddress, range: &RegionRange) -> (r: Ordering)
//@   ensures E_cmp: r == spec_cmp(addr, range)
//@   rewrite W_ge: `addr >= range.from` => `addr.0 >= range.from.0`
//@   rewrite W_le: `addr <= range.to` => `addr.0 <= range.to.0`
//@   rewrite W_gt: `range.from > addr` => `range.from.0 > addr.0`
//@ end

impl DwarfRegistry {
    #[verifier::external_body]
    fn outline_lookup(&self, addr: RelocatedAddress) -> (r: Option<&(PathBuf, RegionRange)>)
        requires partitioned(self, addr),
        ensures
            r is Some ==> exists|i: int| 0 <= i < self.ranges@.len() && #[trigger] self.ranges@[i] == *r->Some_0 && spec_cmp(addr, &self.ranges@[i].1) == Ordering::Equal,
            r is None ==> forall|i: int| 0 <= i < self.ranges@.len() ==> spec_cmp(addr, &(#[trigger] self.ranges@[i]).1) != Ordering::Equal,
    {
        //@ verbatim: O_lookup
    }

//@ extract: impl DwarfRegistry / fn find_range
//@   ret: r
//@   requires R_wf: wf_ranges(self)
//@   ensures E_some: r is Some ==> r->Some_0.1.from.0 <= addr.0 <= r->Some_0.1.to.0 && exists|i: int| 0 <= i < self.ranges@.len() && #[trigger] self.ranges@[i] == *r->Some_0
//@   ensures E_none: r is None ==> forall|i: int| 0 <= i < self.ranges@.len() ==> !(#[trigger] rfrom(self, i) <= addr.0 <= rto(self, i))
//@   outline O_lookup: `self.ranges .binary_search_by($c) .ok() .map(|idx| &self.ranges[idx])` => `{ proof { lemma_wf_partitioned(self, addr); } self.outline_lookup(addr) }`
//@ end

//@ extract: impl DwarfRegistry / fn find_by_addr
//@   ret: r
//@   requires R_wf: wf_ranges(self) && obeys_key_model::<PathBuf>()
//@   ensures E_fba: r is Some ==> exists|i: int| 0 <= i < self.ranges@.len() && rfrom(self, i) <= addr.0 <= rto(self, i) && self.files@.contains_key(#[trigger] self.ranges@[i].0) && *r->Some_0 == self.files@[self.ranges@[i].0]
//@   proof begin: broadcast use group_hash_axioms;
//@ end

//@ extract: impl DwarfRegistry / fn find_mapping_offset
//@   ret: r
//@   requires R_wf: wf_ranges(self) && obeys_key_model::<PathBuf>()
//@   ensures E_fmo: r is Some ==> exists|i: int| 0 <= i < self.ranges@.len() && rfrom(self, i) <= addr.0 <= rto(self, i) && self.mappings@.contains_key(#[trigger] self.ranges@[i].0) && r->Some_0 == self.mappings@[self.ranges@[i].0]
//@   proof begin: broadcast use group_hash_axioms;
//@   outline O_cp: `self.mappings.get(path).copied()` => `outline_copied(self.mappings.get(path))`
//@ end
}

} // verus!
fn main() {}
