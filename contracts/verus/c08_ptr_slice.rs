//@ unit: C07.ptr_slice
//@ props: C07 C08
//@ implicit: C08
//@ source: src/debugger/variable/value/mod.rs
//@ fn: PointerValue::slice (address / count arithmetic fragment)
//@ assume: the statements are spliced verbatim from the closure passed to `self.value.and_then(..)`; `ptr as usize` is rewritten to a usize parameter; read_memory_by_pid and element parsing are outside the fragment
//@ assume: chunks(deref_size) panics iff deref_size == 0 (std); the fragment proves deref_size != 0 on every path that reaches it
//@ notcovered: reading and parsing the elements, allocation for huge counts (Vec::with_capacity)
use vstd::prelude::*;
verus! {
//@ include: prelude.rs

//@ extract: impl PointerValue / fn slice
//@   fragment: `let left = left.unwrap_or_default();` .. `^let raw_data`
//@   splice: F_addr
//@   rewrite W_ptr: `(ptr as usize)` => `ptr`
//@ end
//@ extract: impl PointerValue / fn slice
//@   fragment: `^base_addr,` .. `^))?;`
//@   splice: F_count
//@ end

//@ begin_fn: src/debugger/variable/value/mod.rs :: PointerValue::slice [address arithmetic]
fn ptr_slice_arith(ptr: usize, deref_size: usize, left: Option<usize>, right: usize) -> (r: Option<(usize, usize, usize)>)
    ensures
        // element i of the result is read at ptr + size*(l+i), and there are r-l of them
        r is Some ==> ({ let l = (if left is Some { left->Some_0 as int } else { 0 }); l <= right && r->Some_0.0 == ptr + deref_size * l && r->Some_0.1 == deref_size * (right - l) && r->Some_0.2 == right - l }), /*@@E_addr*/
        r is Some ==> deref_size != 0, /*@@E_chunk_nonzero*/
        // an operator that does not apply yields no result: inverted range or zero-sized pointee
        (left is Some && left->Some_0 > right) || deref_size == 0 ==> r is None, /*@@E_none*/
{
    /*@@SPLICE:F_addr*/
    let n = /*@@SPLICE:F_count*/;
    Some((base_addr, n, count))
}
//@ end_fn

} // verus!
fn main() {}
