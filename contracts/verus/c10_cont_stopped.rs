//@ unit: C10.cont_stopped
//@ props: C10
//@ source: src/debugger/debugee/tracee.rs
//@ fn: TraceeCtl::cont_stopped_ex, TraceeCtl::cont_stopped, Tracee::is_stopped
//@ assume: thread-table model: `threads_state` (std HashMap<Pid, Tracee>) is modelled as a sequence of threads and `iter_mut().for_each(|(_, tracee)| {..})` as a loop visiting every thread exactly once (rewrite: closure -> loop, `return;` -> `continue;`); the visiting order is irrelevant for the contract; `exclude` (HashSet<Pid>) is an opaque set with `contains`
//@ assume: Tracee::r#continue(sig) (PTRACE_CONT with a signal) records `sig` in a ghost per-thread injection history when it succeeds and Some; nothing else injects
//@ notcovered: that the kernel delivers the injected signal, ESRCH races, the HashMap itself
use vstd::prelude::*;
verus! {
//@ include: prelude.rs

#[derive(Clone, Copy, PartialEq, Eq)]
pub struct Pid(pub i32);
#[derive(Clone, Copy, PartialEq, Eq)]
pub struct Signal(pub i32);
pub enum DbgError { Ptrace(i32), Multi(Vec<DbgError>), Other }
pub type Error = DbgError;
#[derive(Clone, Copy, PartialEq, Eq)]
pub enum StopType { Interrupt, SignalStop(Signal) }
#[derive(Clone, Copy, PartialEq, Eq)]
pub enum TraceeStatus { Stopped(StopType), Running }
use TraceeStatus::{Stopped, Running};

pub struct Tracee {
    pub pid: Pid,
    pub status: TraceeStatus,
    /// ghost: every signal injected into this thread with PTRACE_CONT, in order
    pub injected: Ghost<Seq<Signal>>,
}

impl Tracee {
//@ extract: impl Tracee / fn is_stopped
//@   ret: r
//@   ensures E_stopped: r == (self.status is Stopped)
//@   rewrite W_m: `matches!(self.status, Stopped(_))` => `(match self.status { Stopped(_) => true, _ => false })`
//@ end

    #[verifier::external_body]
    pub fn r#continue(&mut self, sig: Option<Signal>) -> (r: Result<(), DbgError>)
        ensures final(self).pid == old(self).pid,
            r is Ok ==> final(self).status is Running && final(self).injected@ == (if sig is Some { old(self).injected@.push(sig->Some_0) } else { old(self).injected@ }),
            r is Err ==> final(self).status == old(self).status && final(self).injected@ == old(self).injected@,
    { unimplemented!() }
}

pub struct Excluded { pub set: Ghost<Set<Pid>> }
impl Excluded {
    #[verifier::external_body]
    pub fn contains(&self, p: &Pid) -> (r: bool) ensures r == self.set@.contains(*p), { unimplemented!() }
}

#[verifier::external_body]
fn outline_req_signal(r: Option<(Pid, Signal)>) -> (s: Option<Signal>) ensures s == (match r { Some(x) => Some(x.1), None => None }), { unimplemented!() }
#[verifier::external_body]
fn outline_req_pid(r: Option<(Pid, Signal)>) -> (p: Option<Pid>) ensures p == (match r { Some(x) => Some(x.0), None => None }), { unimplemented!() }
#[verifier::external_body]
fn outline_is_esrch(e: &DbgError) -> (r: bool) { unimplemented!() }
#[verifier::external_body]
fn outline_is_target(p: Pid, target: Option<Pid>) -> (r: bool) ensures r == (target == Some(p)), { unimplemented!() }

pub struct TraceeCtl { pub threads_state: Vec<Tracee> }

/// what one thread may have received from a call with request `req`: nothing, unless it is the
/// requested thread, was stopped and not excluded -- then at most the requested signal, once
pub open spec fn thread_ok(o: &Tracee, n: &Tracee, req: Option<(Pid, Signal)>, excl: Set<Pid>) -> bool {
    &&& n.pid == o.pid
    &&& (n.injected@ == o.injected@
        || (req is Some && req->Some_0.0 == o.pid && !excl.contains(o.pid) && o.status is Stopped && n.injected@ == o.injected@.push(req->Some_0.1)))
    // the requested thread really gets it when it is continued
    &&& (req is Some && req->Some_0.0 == o.pid && !excl.contains(o.pid) && o.status is Stopped && n.status is Running ==> n.injected@ == o.injected@.push(req->Some_0.1))
    // an excluded or running thread is left alone
    &&& (excl.contains(o.pid) || !(o.status is Stopped) ==> n.status == o.status)
}

impl TraceeCtl {
//@ extract: impl TraceeCtl / fn cont_stopped_ex
//@   sig: pub fn cont_stopped_ex(&mut self, inject_request: Option<(Pid, Signal)>, exclude: Excluded) -> (r: Result<(), Error>)
//@   ensures E_len: final(self).threads_state@.len() == old(self).threads_state@.len()
//@   ensures E_inject: forall|j: int| 0 <= j < old(self).threads_state@.len() ==> thread_ok(&old(self).threads_state@[j], &#[trigger] final(self).threads_state@[j], inject_request, exclude.set@)
//@   outline O_sig: `inject_request.map(|s| s.1)` => `outline_req_signal(inject_request)`
//@   outline O_pid: `inject_request.map(|s| s.0)` => `outline_req_pid(inject_request)`
//@   rewrite W_iter: `self.threads_state.iter_mut().for_each(|(_, tracee)| {` => `let mut t_idx_: usize = 0; while t_idx_ < self.threads_state.len() { let tracee = &mut self.threads_state[t_idx_]; t_idx_ += 1;`
//@   rewrite W_end: `});` => `}`
//@   rewrite W_ret: `return;` => `continue;`
//@   outline O_tgt: `Some(tracee.pid) == $p {` => `outline_is_target(tracee.pid, $p) {`
//@   outline O_tgt2: `Some(tracee.pid) == $p =>` => `outline_is_target(tracee.pid, $p) =>`
//@   outline O_esrch: `matches!(e, Ptrace(err) if err == Errno::ESRCH)` => `outline_is_esrch(&e)`
//@   rewrite W_multi: `MultipleErrors(errors)` => `DbgError::Multi(errors)`
//@   loop 0 invariant I_cs1: t_idx_ <= self.threads_state@.len() && self.threads_state@.len() == old(self).threads_state@.len()
//@   loop 0 invariant I_cs2: forall|j: int| 0 <= j < t_idx_ ==> thread_ok(&old(self).threads_state@[j], &#[trigger] self.threads_state@[j], inject_request, exclude.set@)
//@   loop 0 invariant I_cs3: forall|j: int| t_idx_ <= j < self.threads_state@.len() ==> #[trigger] self.threads_state@[j] == old(self).threads_state@[j]
//@   loop 0 decreases: self.threads_state@.len() - t_idx_
//@ end

//@ extract: impl TraceeCtl / fn cont_stopped
//@   sig: pub fn cont_stopped(&mut self) -> (r: Result<(), Vec<Error>>)
//@   ensures E_cs_len: final(self).threads_state@.len() == old(self).threads_state@.len()
//@   ensures E_cs_none: forall|j: int| 0 <= j < old(self).threads_state@.len() ==> (#[trigger] final(self).threads_state@[j]).injected@ == old(self).threads_state@[j].injected@ && final(self).threads_state@[j].pid == old(self).threads_state@[j].pid
//@   rewrite W_iter: `self.threads_state.iter_mut().for_each(|(_, tracee)| {` => `let mut t_idx_: usize = 0; while t_idx_ < self.threads_state.len() { let tracee = &mut self.threads_state[t_idx_]; t_idx_ += 1;`
//@   rewrite W_end: `});` => `}`
//@   rewrite W_ret: `return;` => `continue;`
//@   outline O_esrch: `matches!(e, Ptrace(err) if err == Errno::ESRCH)` => `outline_is_esrch(&e)`
//@   loop 0 invariant I_c1: t_idx_ <= self.threads_state@.len() && self.threads_state@.len() == old(self).threads_state@.len()
//@   loop 0 invariant I_c2: forall|j: int| 0 <= j < self.threads_state@.len() ==> (#[trigger] self.threads_state@[j]).injected@ == old(self).threads_state@[j].injected@ && self.threads_state@[j].pid == old(self).threads_state@[j].pid
//@   loop 0 decreases: self.threads_state@.len() - t_idx_
//@ end
}

} // verus!
fn main() {}
