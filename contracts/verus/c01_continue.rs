//@ unit: C01.continue_dispatch
//@ props: C01
//@ source: src/debugger/mod.rs
//@ fn: Debugger::continue_execution
//@ assume: event source: `self.debugee.trace_until_stop(..)` yields an arbitrary StopReason (the tracer: units C01.report / C10.* / C09.*); hooks are recorded in a ghost log on the Debugger shim (`on_breakpoint` through the outlined lookup chunk of the UserDefined arm, `on_signal`, `on_exit`, the watchpoint hook); step_over_breakpoint, enable_all_breakpoints, refresh, refresh_deferred, the oracle set-up chunk of the EntryPoint arm and the transparent callback do not call user hooks
//@ assume: the dispatch table is asserted at every exit of the event loop (rewrites, ghost only): `break event` only for (user breakpoint, after exactly one on_breakpoint hook for its pc) | temporary breakpoint (no hook) | exit (after on_exit) | signal (after on_signal) | watchpoint (after its hook); `continue` only for internal breakpoints (entry point, linker map, transparent) or a signal stop of a finished debuggee, with NO hook -- "stops exactly once for every time execution reaches a breakpoint location ... and never anywhere else", restricted to what the debugger does with ONE trap event
//@ notcovered: that each arrival produces one trap event and their order (kernel / tracer), the breakpoint lookup of the UserDefined hook (place, function), oracles, the first step-over at the top beyond passing its result on
use vstd::prelude::*;
verus! {
//@ include: prelude.rs

pub enum DbgError { ProcessNotStarted, Hook, Other }
pub type Error = DbgError;
use DbgError::ProcessNotStarted;
#[derive(Clone, Copy, PartialEq, Eq, Structural)] pub struct Pid(pub i32);
#[derive(Clone, Copy, PartialEq, Eq, Structural)] pub struct RelocatedAddress(pub usize);
#[derive(Clone, Copy, PartialEq, Eq, Structural)] pub struct Signal(pub i32);
pub struct WatchTy(pub u8);
pub enum StopReason {
    DebugeeExit(i32), DebugeeStart, Breakpoint(Pid, RelocatedAddress), Watchpoint(Pid, RelocatedAddress, WatchTy), SignalStop(Pid, Signal), NoSuchProcess(Pid),
}
pub struct Callback;
pub enum BrkptType { EntryPoint, UserDefined, WatchpointCompanion(Vec<u32>), Temporary, TemporaryAsync, LinkerMapFn, Transparent(Callback) }
pub struct Breakpoint { pub ty: BrkptType }
impl Breakpoint {
    #[verifier::external_body] pub fn r#type(&self) -> (r: &BrkptType) ensures *r == self.ty, { unimplemented!() }
    #[verifier::external_body] pub fn new_linker_map(brk: RelocatedAddress, pid: Pid) -> (r: Breakpoint) { unimplemented!() }
}
pub struct Debugee;
pub struct BreakpointRegistry;
impl BreakpointRegistry {
    #[verifier::external_body] pub fn get_enabled(&self, pc: RelocatedAddress) -> (r: Option<&Breakpoint>) { unimplemented!() }
    #[verifier::external_body] pub fn enable_entry_breakpoint(&mut self, d: &Debugee) -> (r: Result<(), DbgError>) { unimplemented!() }
    #[verifier::external_body] pub fn enable_all_breakpoints(&mut self, d: &Debugee) -> (r: u8) { unimplemented!() }
    #[verifier::external_body] pub fn disable_all_breakpoints(&mut self, d: &Debugee) -> (r: u8) { unimplemented!() }
    #[verifier::external_body] pub fn add_and_enable(&mut self, b: Breakpoint) -> (r: Result<(), DbgError>) { unimplemented!() }
}

pub enum HookEv { Breakpoint(RelocatedAddress), Signal(Signal), Exit(i32), Watchpoint(RelocatedAddress) }

pub struct Debugger {
    pub breakpoints: BreakpointRegistry,
    pub debugee: Debugee,
    /// ghost: user-visible hook calls, in order
    pub hooks_log: Ghost<Seq<HookEv>>,
    /// ghost: the thread the exploration context is focused on
    pub focus: Ghost<Pid>,
}

pub open spec fn same_hooks(a: &Debugger, b: &Debugger) -> bool { a.hooks_log@ == b.hooks_log@ && a.focus@ == b.focus@ }

/// the dispatch table for leaving the event loop with `event`
pub open spec fn exit_ok(event: &StopReason, last_ty: Option<&BrkptType>, log0: Seq<HookEv>, log: Seq<HookEv>, focus: Pid) -> bool {
    // a stop that names a thread is reported with that thread in focus ("at the true program counter")
    (match event { StopReason::Breakpoint(p, _) => focus == *p, StopReason::SignalStop(p, _) => focus == *p, StopReason::Watchpoint(p, _, _) => focus == *p, _ => true }) &&
    match event {
        StopReason::Breakpoint(_, pc) => last_ty is Some && (
            (last_ty->Some_0 is UserDefined && log == log0.push(HookEv::Breakpoint(*pc)))
            || ((last_ty->Some_0 is Temporary || last_ty->Some_0 is TemporaryAsync) && log == log0)),
        StopReason::DebugeeExit(code) => log == log0.push(HookEv::Exit(*code)),
        StopReason::SignalStop(_, s) => log == log0.push(HookEv::Signal(*s)),
        StopReason::Watchpoint(_, pc, _) => log == log0.push(HookEv::Watchpoint(*pc)),
        _ => false,
    }
}
/// the dispatch table for going on silently
pub open spec fn continue_ok(event: &StopReason, last_ty: Option<&BrkptType>, in_progress: bool, log0: Seq<HookEv>, log: Seq<HookEv>) -> bool {
    log == log0 && match event {
        StopReason::Breakpoint(_, _) => last_ty is Some && (last_ty->Some_0 is EntryPoint || last_ty->Some_0 is LinkerMapFn || last_ty->Some_0 is Transparent),
        StopReason::SignalStop(_, _) => !in_progress,
        _ => false,
    }
}

#[verifier::external_body] fn outline_diverge() ensures false, { unimplemented!() }

impl Debugger {
    #[verifier::external_body]
    pub fn step_over_breakpoint(&mut self) -> (r: Result<Option<StopReason>, DbgError>) ensures same_hooks(old(self), final(self)), { unimplemented!() }
    #[verifier::external_body]
    fn outline_trace_until_stop(&mut self) -> (r: Result<StopReason, DbgError>) ensures same_hooks(old(self), final(self)), { unimplemented!() }
    #[verifier::external_body]
    fn execute_on_watchpoint_hook(&mut self, pid: Pid, pc: RelocatedAddress, ty: &WatchTy) -> (r: Result<(), DbgError>)
        ensures r is Ok ==> final(self).hooks_log@ == old(self).hooks_log@.push(HookEv::Watchpoint(pc)) && final(self).focus@ == old(self).focus@,
    { unimplemented!() }
    /// `self.hooks.on_signal(sign)`
    #[verifier::external_body]
    fn outline_hook_signal(&mut self, sign: Signal) ensures final(self).hooks_log@ == old(self).hooks_log@.push(HookEv::Signal(sign)), final(self).focus@ == old(self).focus@, { unimplemented!() }
    /// `self.hooks.on_exit(code)`
    #[verifier::external_body]
    fn outline_hook_exit(&mut self, code: i32) ensures final(self).hooks_log@ == old(self).hooks_log@.push(HookEv::Exit(code)), final(self).focus@ == old(self).focus@, { unimplemented!() }
    /// the place / function lookup and `self.hooks.on_breakpoint(current_pc, bp.number(), place, func, tracee)` of the UserDefined arm
    #[verifier::external_body]
    fn outline_hook_breakpoint(&mut self, pc: RelocatedAddress) -> (r: Result<(), DbgError>)
        ensures r is Ok ==> final(self).hooks_log@ == old(self).hooks_log@.push(HookEv::Breakpoint(pc)) && final(self).focus@ == old(self).focus@,
    { unimplemented!() }
    #[verifier::external_body]
    fn outline_clear_watchpoints(&mut self) ensures same_hooks(old(self), final(self)), { unimplemented!() }
    #[verifier::external_body]
    fn outline_refresh_watchpoints(&mut self) ensures same_hooks(old(self), final(self)), { unimplemented!() }
    #[verifier::external_body]
    fn ecx_switch_thread(&mut self, pid: Pid) -> (r: Result<(), DbgError>) ensures final(self).hooks_log@ == old(self).hooks_log@, r is Ok ==> final(self).focus@ == pid, { unimplemented!() }
    /// refreshes the location of the thread that is ALREADY in focus
    #[verifier::external_body]
    fn ecx_update_location(&mut self) -> (r: Result<(), DbgError>) ensures same_hooks(old(self), final(self)), { unimplemented!() }
    #[verifier::external_body]
    fn outline_r_brk(&self) -> (r: RelocatedAddress) { unimplemented!() }
    #[verifier::external_body]
    fn outline_pid(&self) -> (r: Pid) { unimplemented!() }
    /// oracle readiness + spy points of the EntryPoint arm
    #[verifier::external_body]
    fn outline_oracles(&mut self) ensures same_hooks(old(self), final(self)), { unimplemented!() }
    #[verifier::external_body]
    fn refresh_deferred(&mut self) -> (r: u8) ensures same_hooks(old(self), final(self)), { unimplemented!() }
    /// `callback.clone()(self)`
    #[verifier::external_body]
    fn outline_run_callback(&mut self) ensures same_hooks(old(self), final(self)), { unimplemented!() }
    #[verifier::external_body]
    fn outline_in_progress(&self) -> (r: bool) { unimplemented!() }

//@ extract: impl Debugger / fn continue_execution
//@   sig: fn continue_execution(&mut self) -> (r: Result<StopReason, DbgError>)
//@   attr: #[verifier::exec_allows_no_decreases_clause]
//@   proof begin: let ghost mut log0: Seq<HookEv> = self.hooks_log@; let ghost mut last_ty: Option<&BrkptType> = None; let ghost mut in_progress: bool = true;
//@   outline O_unreach: `unreachable!($m)` => `outline_diverge()`
//@   rewrite W_sig: `self.hooks.on_signal(sign);` => `self.outline_hook_signal(sign);`
//@   outline O_trace: `let event = self.debugee.trace_until_stop(TraceContext::new( &self.breakpoints.active_breakpoints(), &self.watchpoints, ))?;` => `let event = self.outline_trace_until_stop()?; proof { log0 = self.hooks_log@; last_ty = None; in_progress = true; }`
//@   outline O_clr: `let _ = self.watchpoints.clear_local_disable_global( self.debugee.tracee_ctl(), &mut self.breakpoints, );` => `self.outline_clear_watchpoints();`
//@   rewrite W_exit: `self.hooks.on_exit(code);` => `self.outline_hook_exit(code);`
//@   rewrite W_pw1: `print_warns!( self.breakpoints.enable_all_breakpoints(&self.debugee) );` => `let _ = self.breakpoints.enable_all_breakpoints(&self.debugee);`
//@   outline O_wref: `print_warns!(self.watchpoints.refresh(&self.debugee));` => `self.outline_refresh_watchpoints();`
//@   outline O_brk: `self.debugee.rendezvous().r_brk()` => `self.outline_r_brk()`
//@   outline O_pid: `self.process.pid()` => `self.outline_pid()`
//@   outline O_orc: `let oracles = self.oracles.clone(); $stmts_o while self.step_over_breakpoint()?.is_some() {} continue;` => `self.outline_oracles(); while self.step_over_breakpoint()?.is_some() {} continue;`
//@   rewrite W_pw2: `print_warns!(self.refresh_deferred());` => `let _ = self.refresh_deferred();`
//@   outline O_user: `let pc = current_pc.into_global(&self.debugee)?; $stmts_u .map_err(Hook)?;` => `self.outline_hook_breakpoint(current_pc)?;`
//@   outline O_cb: `callback.clone()(self);` => `self.outline_run_callback();`
//@   outline O_ip: `if !self.debugee.is_in_progress() {` => `if !self.outline_in_progress() { proof { in_progress = false; }`
//@   proof after `if let Some(bp) = self.breakpoints.get_enabled(current_pc) {`: last_ty = Some(&bp.ty);
//@   rewrite W_break: `stop_reason_loopval_ = event; break;` => `assert(exit_ok(&event, last_ty, log0, self.hooks_log@, self.focus@)); stop_reason_loopval_ = event; break;`
//@   rewrite W_cont2: `_ => continue,` => `_ => { assert(continue_ok(&event, last_ty, in_progress, log0, self.hooks_log@)); continue; }`
//@   rewrite W_cont1: `continue;` => `assert(continue_ok(&event, last_ty, in_progress, log0, self.hooks_log@)); continue;`
//@   loop 1 invariant I_entry_quiet: self.hooks_log@ == log0
//@   loop 2 invariant I_linker_quiet: self.hooks_log@ == log0
//@ end
}

} // verus!
fn main() {}
