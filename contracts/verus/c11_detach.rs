//@ unit: C11.detach
//@ props: C11
//@ source: src/debugger/mod.rs
//@ fn: Debugger::detach
//@ assume: protocol model with ghost state on the Debugger shim: `patched` = code addresses holding an INT3 of this debugger, `dr_active` = hardware debug registers armed; BreakpointRegistry::disable_all_breakpoints empties `patched`, WatchpointRegistry::clear_all empties `dr_active` (their bodies iterate std HashMaps over the primitives proved as C02.patch.* / C14.hw_disable; a failing ptrace call inside them is not modelled: detach ignores their errors); PTRACE_DETACH of all threads and the final SIGCONT are external calls whose PRECONDITIONS are what the property promises: no patch and no armed debug register is left when the process is released
//@ notcovered: Drop for Debugger (kill / reap of a launched process), restart, the process table, that the released process keeps running
use vstd::prelude::*;
verus! {
//@ include: prelude.rs

pub open spec fn none_u(s: Set<usize>) -> bool { forall|a: usize| !s.contains(a) }
pub open spec fn none_i(s: Set<int>) -> bool { forall|a: int| !s.contains(a) }

pub struct DbgError;
#[derive(Clone, Copy)] pub struct Pid(pub i32);
pub struct Debugee;
pub struct TraceeCtl;
impl Debugee {
    #[verifier::external_body] pub fn tracee_ctl(&self) -> (r: &TraceeCtl) { unimplemented!() }
}
pub struct BreakpointRegistry { pub patched: Ghost<Set<usize>> }
impl BreakpointRegistry {
    #[verifier::external_body]
    pub fn disable_all_breakpoints(&mut self, debugee: &Debugee) -> (r: Result<(), DbgError>)
        ensures none_u(final(self).patched@),
    { unimplemented!() }
}
pub struct WatchpointRegistry { pub dr_active: Ghost<Set<int>> }
impl WatchpointRegistry {
    #[verifier::external_body]
    pub fn clear_all(&mut self, tracee_ctl: &TraceeCtl, breakpoints: &mut BreakpointRegistry)
        ensures none_i(final(self).dr_active@), final(breakpoints).patched@.subset_of(old(breakpoints).patched@),
    { unimplemented!() }
}
pub struct Debugger {
    pub detached: bool,
    pub breakpoints: BreakpointRegistry,
    pub watchpoints: WatchpointRegistry,
    pub debugee: Debugee,
    /// ghost: the threads have been released with PTRACE_DETACH
    pub released: Ghost<bool>,
    /// ghost: SIGCONT was sent to the released process
    pub continued: Ghost<bool>,
}
impl Debugger {
    /// self.debugee.tracee_ctl().tracee_iter().map(|t| t.pid).collect()
    #[verifier::external_body]
    fn outline_thread_ids(&self) -> (r: Vec<Pid>) { unimplemented!() }

    /// current_tids.iter().try_for_each(|tid| sys::ptrace::detach(*tid, None).map_err(Ptrace))
    #[verifier::external_body]
    fn outline_ptrace_detach_all(&mut self, tids: &Vec<Pid>) -> (r: Result<(), DbgError>)
        requires
            none_u(old(self).breakpoints.patched@),   // the process is released with its original code
            none_i(old(self).watchpoints.dr_active@),   // and with no hardware breakpoint armed
        ensures
            r is Ok ==> final(self).released@,
            final(self).detached == old(self).detached, final(self).continued == old(self).continued,
            final(self).breakpoints.patched@ == old(self).breakpoints.patched@, final(self).watchpoints.dr_active@ == old(self).watchpoints.dr_active@,
    { unimplemented!() }

    /// signal::kill(self.debugee.tracee_ctl().proc_pid(), Signal::SIGCONT).map_err(..)
    #[verifier::external_body]
    fn outline_sigcont(&mut self) -> (r: Result<(), DbgError>)
        requires old(self).released@,    // only a released process is told to continue
        ensures
            r is Ok ==> final(self).continued@,
            final(self).detached == old(self).detached, final(self).released == old(self).released,
            final(self).breakpoints.patched@ == old(self).breakpoints.patched@, final(self).watchpoints.dr_active@ == old(self).watchpoints.dr_active@,
    { unimplemented!() }

//@ extract: impl Debugger / fn detach
//@   sig: pub fn detach(&mut self) -> (r: Result<(), DbgError>)
//@   requires R_fresh: !old(self).released@ && !old(self).continued@
//@   ensures E_idem: old(self).detached ==> r is Ok && final(self).released == old(self).released && final(self).breakpoints.patched@ == old(self).breakpoints.patched@
//@   ensures E_clean: r is Ok && !old(self).detached ==> final(self).detached && none_u(final(self).breakpoints.patched@) && none_i(final(self).watchpoints.dr_active@)
//@   ensures E_cont: r is Ok && !old(self).detached ==> (final(self).released@ == final(self).continued@)
//@   ensures E_flag: r is Err ==> !final(self).detached || old(self).detached
//@   outline O_tids: `self .debugee .tracee_ctl() .tracee_iter() .map(|t| t.pid) .collect()` => `self.outline_thread_ids()`
//@   outline O_detach: `current_tids .iter() .try_for_each($c)?` => `self.outline_ptrace_detach_all(&current_tids)?`
//@   outline O_cont: `signal::kill($p, Signal::SIGCONT) .map_err($e)?` => `self.outline_sigcont()?`
//@ end
}

} // verus!
fn main() {}
