//@ unit: C06.deque_ring
//@ props: C06 C08
//@ implicit: C08
//@ source: src/debugger/variable/value/specialization/mod.rs
//@ fn: VariableParserExtension::parse_vec_dequeue_inner (ring index arithmetic fragment), guard_len, guard_cap
//@ assume: recorded precondition R_init: len <= cap, which holds for every initialised VecDeque; for memory holding arbitrary bytes (C08) it does not, and the index `data[offset..]` that consumes these ranges is outside this fragment
//@ assume: recorded precondition of the C06 reading: `cap` is the deque's real capacity; the code passes guard_cap(real capacity), so for capacity > 10 000 the modulus differs from the program's (observation, not decided here)
//@ notcovered: element decoding, reading the buffer, type-graph driven parsing
use vstd::prelude::*;
verus! {
//@ include: prelude.rs

//@ extract: fn guard_len
//@   ret: r
//@   ensures E_guard_len: r == (if len > 10000 { 10000 } else { len })
//@ end

//@ extract: fn guard_cap
//@   ret: r
//@   ensures E_guard_cap: r == (if cap > 10000 { 10000 } else { cap })
//@ end

pub const LEN_GUARD: i64 = 10_000;
pub const CAP_GUARD: i64 = 10_000;

/// std VecDeque::to_physical_idx: logical element i lives at (head + i) mod capacity
pub open spec fn phys(head: int, i: int, cap: int) -> int { (head + i) % cap }

/// i-th index produced by `r.0.chain(r.1)`
pub open spec fn chain_at(r: (core::ops::Range<usize>, core::ops::Range<usize>), i: int) -> int {
    if i < r.0.end - r.0.start { r.0.start + i } else { r.1.start + (i - (r.0.end - r.0.start)) }
}

proof fn lemma_mod_small(x: int, m: int)
    requires 0 <= x < m,
    ensures x % m == x,
{ vstd::arithmetic::div_mod::lemma_small_mod(x as nat, m as nat); }

proof fn lemma_mod_add(a: int, b: int, m: int)
    requires m > 0, 0 <= a, 0 <= b,
    ensures (a + b) % m == ((a % m) + b) % m,
{ vstd::arithmetic::div_mod::lemma_add_mod_noop(a, b, m); vstd::arithmetic::div_mod::lemma_mod_twice(a, m); vstd::arithmetic::div_mod::lemma_add_mod_noop(a % m, b, m); }

//@ extract: impl VariableParserExtension<'a> / fn parse_vec_dequeue_inner
//@   fragment: `let wrapped_start = if cap == 0 { 0 } else { head % cap };` .. `(wrapped_start..cap, 0..tail_len) };`
//@   sig: fn deque_ring(cap: usize, head: usize, len: usize) -> (r: (core::ops::Range<usize>, core::ops::Range<usize>))
//@   tail: slice_ranges
//@   requires R_init: len <= cap
//@   ensures E_count: (r.0.end - r.0.start) + (r.1.end - r.1.start) == len && r.0.start <= r.0.end && r.1.start <= r.1.end
//@   ensures E_inb: forall|i: int| 0 <= i < len ==> 0 <= #[trigger] chain_at(r, i) < cap
//@   ensures E_phys: cap > 0 ==> forall|i: int| 0 <= i < len ==> #[trigger] chain_at(r, i) == phys(head as int, i, cap as int)
//@   proof before `let slice_ranges`: assert(cap > 0 ==> forall|i: int| 0 <= i < len ==> #[trigger] phys(head as int, i, cap as int) == (if wrapped_start + i < cap { wrapped_start + i } else { wrapped_start + i - cap })) by { if cap > 0 { assert forall|i: int| 0 <= i < len implies #[trigger] phys(head as int, i, cap as int) == (if wrapped_start + i < cap { wrapped_start + i } else { wrapped_start + i - cap }) by { lemma_mod_add(head as int, i, cap as int); if wrapped_start + i < cap { lemma_mod_small(wrapped_start + i, cap as int); } else { vstd::arithmetic::div_mod::lemma_mod_sub_multiples_vanish(wrapped_start + i, cap as int); lemma_mod_small(wrapped_start + i - cap, cap as int); } } } };
//@ end

} // verus!
fn main() {}
