//@ unit: C06.deque_ring
//@ props: C06 C08
//@ implicit: C08
//@ source: src/debugger/variable/value/specialization/mod.rs
//@ fn: VariableParserExtension::parse_vec_dequeue_inner (ring index arithmetic fragment), guard_len, guard_cap
//@ assume: `real_cap` stands for the value returned by extract_capacity (the deque's capacity field as the program holds it), `head_field` for the `head` field, `len` for the guarded `len` field: no precondition on any of them (memory may hold arbitrary bytes)
//@ assume: the two regions are iterated by `region.clone().map(..)` and fetched by read_region with exactly region.len() * el_type_size bytes (std Range iteration; C15.read E_len)
//@ notcovered: element decoding, reading the buffer, type-graph driven parsing
use vstd::prelude::*;
verus! {
//@ include: prelude.rs

//@ extract: fn guard_len
//@   ret: r
//@   ensures E_guard_len: r == (if len > 10000 { 10000 } else if len < 0 { 0 } else { len })
//@ end

//@ extract: fn guard_cap
//@   ret: r
//@   ensures E_guard_cap: r == (if cap > 10000 { 10000 } else if cap < 0 { 0 } else { cap })
//@ end

//@ const: src/debugger/variable/value/specialization/mod.rs :: LEN_GUARD
//@ const: src/debugger/variable/value/specialization/mod.rs :: CAP_GUARD

/// std VecDeque::to_physical_idx: logical element i lives at (head + i) mod capacity
pub open spec fn phys(head: int, i: int, cap: int) -> int { (head + i) % cap }

/// i-th index produced by `r.0.chain(r.1)`
pub open spec fn chain_at(r: (core::ops::Range<usize>, core::ops::Range<usize>), i: int) -> int {
    if i < r.0.end - r.0.start { r.0.start + i } else { r.1.start + (i - (r.0.end - r.0.start)) }
}

proof fn lemma_mod_small(x: int, m: int)
    requires 0 <= x < m,
    ensures x % m == x,
{ vstd::arithmetic::div_mod::lemma_small_mod(x as nat, m as nat); }

proof fn lemma_mod_add(a: int, b: int, m: int)
    requires m > 0, 0 <= a, 0 <= b,
    ensures (a + b) % m == ((a % m) + b) % m,
{ vstd::arithmetic::div_mod::lemma_add_mod_noop(a, b, m); vstd::arithmetic::div_mod::lemma_mod_twice(a, m); vstd::arithmetic::div_mod::lemma_add_mod_noop(a % m, b, m); }

#[verifier::external_body]
fn outline_min(a: usize, b: usize) -> (r: usize)
    ensures r == (if a <= b { a } else { b }),
{
    a.min(b)
}

//@ extract: impl VariableParserExtension<'a> / fn parse_vec_dequeue_inner
//@   fragment: `let cap = if el_type_size == 0 {` .. `^let data_ptr`
//@   sig: fn deque_ring(el_type_size: usize, real_cap: usize, head_field: usize, len: usize) -> (r: (core::ops::Range<usize>, core::ops::Range<usize>))
//@   tail: slice_ranges
//@   ensures E_count: (r.0.end - r.0.start) + (r.1.end - r.1.start) <= len && r.0.start <= r.0.end && r.1.start <= r.1.end
//@   ensures E_count2: el_type_size > 0 ==> (r.0.end - r.0.start) + (r.1.end - r.1.start) == (if len <= real_cap { len } else { real_cap })
//@   ensures E_inb: el_type_size > 0 ==> forall|i: int| 0 <= i < (r.0.end - r.0.start) + (r.1.end - r.1.start) ==> 0 <= #[trigger] chain_at(r, i) < real_cap
//@   ensures E_phys: el_type_size > 0 && real_cap > 0 ==> forall|i: int| 0 <= i < (r.0.end - r.0.start) + (r.1.end - r.1.start) ==> #[trigger] chain_at(r, i) == phys(head_field as int, i, real_cap as int)
//@   rewrite W_cap: `extract_capacity(pcx, &val)?` => `real_cap`
//@   rewrite W_head: `val.assume_field_as_scalar_number("head")? as usize` => `head_field`
//@   outline O_min: `len.min($b)` => `outline_min(len, $b)`
//@   proof before `let slice_ranges`: assert(cap > 0 ==> forall|i: int| 0 <= i < len ==> #[trigger] phys(head as int, i, cap as int) == (if wrapped_start + i < cap { wrapped_start + i } else { wrapped_start + i - cap })) by { if cap > 0 { assert forall|i: int| 0 <= i < len implies #[trigger] phys(head as int, i, cap as int) == (if wrapped_start + i < cap { wrapped_start + i } else { wrapped_start + i - cap }) by { lemma_mod_add(head as int, i, cap as int); if wrapped_start + i < cap { lemma_mod_small(wrapped_start + i, cap as int); } else { vstd::arithmetic::div_mod::lemma_mod_sub_multiples_vanish(wrapped_start + i, cap as int); lemma_mod_small(wrapped_start + i - cap, cap as int); } } } };
//@ end

// ---- element byte range inside a fetched region (the closure body of the items iterator)
#[verifier::external_body]
fn outline_subslice<'b>(data: &'b Vec<u8>, a: usize, b: usize) -> (r: &'b [u8])
    requires a <= b <= data@.len(),     // std: slice index panics otherwise -- "never reads outside the bytes it fetched"
    ensures r@ == data@.subrange(a as int, b as int),
{
    &data[a..b]
}

//@ extract: impl VariableParserExtension<'a> / fn parse_vec_dequeue_inner
//@   fragment: `let offset = (real_idx - region_start) * el_type_size;` .. `let el_raw_data = &data[offset..offset + el_type_size];`
//@   splice: F_elem
//@   outline O_sub: `&data[$a..$b]` => `outline_subslice(data, $a, $b)`
//@ end

//@ begin_fn: src/debugger/variable/value/specialization/mod.rs :: parse_vec_dequeue_inner [element byte range]
fn deque_elem(data: &Vec<u8>, region_start: usize, region_end: usize, real_idx: usize, el_type_size: usize)
    requires
        region_start <= real_idx < region_end,                              // real_idx comes from `region.clone()`
        data@.len() == (region_end - region_start) * el_type_size,          // read_region fetched exactly region.len() * el_type_size bytes (C15.read E_len)
{
    proof {
        vstd::std_specs::vec::axiom_spec_len(data);
        assert((real_idx - region_start) * el_type_size + el_type_size <= (region_end - region_start) * el_type_size) by (nonlinear_arith)
            requires region_start <= real_idx < region_end, el_type_size >= 0;
        assert((real_idx - region_start) * el_type_size >= 0) by (nonlinear_arith)
            requires region_start <= real_idx, el_type_size >= 0;
    }
    /*@@SPLICE:F_elem*/
    assert(el_raw_data@.len() == el_type_size); /*@@E_elem_len*/
}
//@ end_fn

} // verus!
fn main() {}
