//@ unit: C13.registry
//@ props: C13
//@ source: src/debugger/breakpoint.rs
//@ fn: BreakpointRegistry::remove_by_addr
//@ shim: src/debugger/breakpoint.rs :: struct BreakpointRegistry :: breakpoints: HashMap<RelocatedAddress, Breakpoint>, disabled_breakpoints: HashMap<Address, UninitBreakpoint>
//@ assume: std HashMap::remove per vstd (lawful Hash/Eq of the address key types: obeys_key_model); Breakpoint::disable removes the INT3 patch (Kani units C02.patch.*) and does not touch the registry maps; `.into()` to a BreakpointView is a pure conversion
//@ notcovered: handle_set_*_breakpoints (serde_json handlers), which addresses the adapter records, remove_by_num, the deferred retry trigger (rendezvous breakpoint)
use vstd::prelude::*;
use std::collections::HashMap;
use vstd::std_specs::hash::*;
verus! {
//@ include: prelude.rs

pub struct DbgError;
#[derive(Clone, Copy, PartialEq, Eq, Hash)]
pub struct RelocatedAddress(pub usize);
#[derive(Clone, Copy, PartialEq, Eq, Hash)]
pub struct GlobalAddress(pub usize);
#[derive(Clone, Copy, PartialEq, Eq, Hash)]
pub enum Address { Relocated(RelocatedAddress), Global(GlobalAddress) }

pub struct Breakpoint { pub addr: RelocatedAddress }
impl Breakpoint {
    #[verifier::external_body] pub fn is_enabled(&self) -> (r: bool) { unimplemented!() }
    #[verifier::external_body] pub fn disable(&self) -> (r: Result<(), DbgError>) { unimplemented!() }
}
pub struct UninitBreakpoint { pub addr: Address }
pub struct BreakpointView;
#[verifier::external_body] fn outline_view_of_uninit(b: UninitBreakpoint) -> (r: BreakpointView) { unimplemented!() }
#[verifier::external_body] fn outline_view_of_brkpt(b: Breakpoint) -> (r: BreakpointView) { unimplemented!() }
/// `opt.map(Into::into)`
#[verifier::external_body] fn outline_map_view_uninit(o: Option<UninitBreakpoint>) -> (r: Option<BreakpointView>) ensures r is Some == o is Some, { unimplemented!() }

pub struct BreakpointRegistry {
    pub breakpoints: HashMap<RelocatedAddress, Breakpoint>,
    pub disabled_breakpoints: HashMap<Address, UninitBreakpoint>,
}

/// some breakpoint (installed or not yet installed) is registered under `addr`
pub open spec fn registered(r: &BreakpointRegistry, addr: Address) -> bool {
    r.disabled_breakpoints@.contains_key(addr) || (addr is Relocated && r.breakpoints@.contains_key(addr->Relocated_0))
}

impl BreakpointRegistry {
//@ extract: impl BreakpointRegistry / fn remove_by_addr
//@   sig: pub fn remove_by_addr(&mut self, addr: Address) -> (r: Result<Option<BreakpointView>, DbgError>)
//@   requires R_keys: obeys_key_model::<RelocatedAddress>() && obeys_key_model::<Address>()
//@   requires R_one: !(old(self).disabled_breakpoints@.contains_key(addr) && addr is Relocated && old(self).breakpoints@.contains_key(addr->Relocated_0))
//@   ensures E_gone: r is Ok ==> !registered(final(self), addr)
//@   ensures E_found: r is Ok ==> (r->Ok_0 is Some <==> registered(old(self), addr))
//@   ensures E_frame_d: forall|k: Address| k != addr ==> (#[trigger] final(self).disabled_breakpoints@.contains_key(k) <==> old(self).disabled_breakpoints@.contains_key(k))
//@   ensures E_frame_b: forall|k: RelocatedAddress| Address::Relocated(k) != addr ==> (#[trigger] final(self).breakpoints@.contains_key(k) <==> old(self).breakpoints@.contains_key(k))
//@   proof begin: broadcast use group_hash_axioms;
//@   outline O_v1: `return Ok(Some(brkpt.into())); } if let Address::Relocated` => `return Ok(Some(outline_view_of_uninit(brkpt))); } if let Address::Relocated`
//@   outline O_v2: `brkpt.into()` => `outline_view_of_brkpt(brkpt)`
//@   outline O_v3: `self.disabled_breakpoints.remove(&addr).map(Into::into)` => `outline_map_view_uninit(self.disabled_breakpoints.remove(&addr))`
//@ end
}

} // verus!
fn main() {}
