//@ unit: C12.stop_tail
//@ props: C12
//@ source: src/dap/yadap/session/control.rs
//@ fn: DebugSession::emit_stop_reason (from the classification of the stop to the end)
//@ assume: the classification `match stop {..}` and the stack-trace text are outlined whole (ext fns; `exited` is Some exactly for a process exit); refresh_threads_with_events queues one thread event per change of the thread table; drain_events writes a batch but, when the batch holds Exited/Terminated, only those (lifecycle events dominate: everything else in that batch is thrown away; unit C12.drain); enqueue_event queues one event; precondition R_fresh_batch (no thread refresh and no Exited waiting in the queue when emit_stop_reason classifies the stop) is assumed of the callers: every handler drains its own events before it resumes the debuggee (C12.handlers)
//@ notcovered: the filter loop in front (C13.stop_filter), contents of the events
use vstd::prelude::*;
verus! {
//@ include: prelude.rs

pub struct AnyErr;
#[derive(Clone, Copy)] pub struct Txt;
pub struct StopReason(pub u8);
pub struct LastStop { pub reason: Txt, pub description: Option<Txt>, pub signal: Option<i32>, pub source_path: Option<Txt>, pub line: Option<i64>, pub column: Option<i64>, pub stack_trace: Option<Txt> }
pub enum InternalEvent { Exited { code: i32 }, Stopped { reason: Txt, thread_id: Option<i64>, description: Option<Txt> } }
pub uninterp spec fn exit_code_of(s: &StopReason) -> Option<i32>;
#[verifier::external_body]
fn outline_classify(stop: StopReason) -> (r: (Txt, Option<i64>, Option<Txt>, Option<i32>, Txt, Option<i32>)) ensures r.3 == exit_code_of(&stop), { unimplemented!() }

pub struct DebugSession {
    pub last_stop: Option<LastStop>,
    /// ghost: thread-table refreshes (each queues `thread started/exited` events) since the last drain
    pub refreshed_in_batch: Ghost<nat>,
    /// ghost: thread events thrown away because they shared a batch with Exited
    pub thread_events_dropped: Ghost<bool>,
    pub epochs: Ghost<nat>,
    pub exited_queued: Ghost<nat>,
    pub stopped_queued: Ghost<nat>,
    pub batch_has_exit: Ghost<bool>,
}
impl DebugSession {
    #[verifier::external_body]
    fn begin_stop_epoch(&mut self)
        ensures final(self).epochs@ == old(self).epochs@ + 1, final(self).last_stop == old(self).last_stop, final(self).refreshed_in_batch == old(self).refreshed_in_batch, final(self).thread_events_dropped == old(self).thread_events_dropped, final(self).exited_queued == old(self).exited_queued, final(self).stopped_queued == old(self).stopped_queued, final(self).batch_has_exit == old(self).batch_has_exit,
    { unimplemented!() }
    #[verifier::external_body]
    fn refresh_threads_with_events(&mut self) -> (r: Result<(), AnyErr>)
        ensures final(self).refreshed_in_batch@ == old(self).refreshed_in_batch@ + 1, final(self).last_stop == old(self).last_stop, final(self).epochs == old(self).epochs, final(self).thread_events_dropped == old(self).thread_events_dropped, final(self).exited_queued == old(self).exited_queued, final(self).stopped_queued == old(self).stopped_queued, final(self).batch_has_exit == old(self).batch_has_exit,
    { unimplemented!() }
    #[verifier::external_body]
    fn enqueue_event(&mut self, ev: InternalEvent)
        ensures final(self).last_stop == old(self).last_stop, final(self).epochs == old(self).epochs, final(self).refreshed_in_batch == old(self).refreshed_in_batch, final(self).thread_events_dropped == old(self).thread_events_dropped,
            final(self).exited_queued@ == old(self).exited_queued@ + (if ev is Exited { 1nat } else { 0nat }),
            final(self).stopped_queued@ == old(self).stopped_queued@ + (if ev is Stopped { 1nat } else { 0nat }),
            final(self).batch_has_exit@ == (old(self).batch_has_exit@ || ev is Exited),
    { unimplemented!() }
    #[verifier::external_body]
    fn drain_events(&mut self) -> (r: Result<(), AnyErr>)
        ensures final(self).last_stop == old(self).last_stop, final(self).epochs == old(self).epochs, final(self).exited_queued == old(self).exited_queued, final(self).stopped_queued == old(self).stopped_queued,
            final(self).refreshed_in_batch@ == 0, !final(self).batch_has_exit@,
            final(self).thread_events_dropped@ == (old(self).thread_events_dropped@ || (old(self).batch_has_exit@ && old(self).refreshed_in_batch@ > 0)),
    { unimplemented!() }
    #[verifier::external_body]
    fn outline_where(&self) -> (r: (Option<Txt>, Option<i64>, Option<i64>, Option<Txt>)) { unimplemented!() }

//@ extract: impl super::DebugSession / fn emit_stop_reason
//@   fragment: `let (reason, thread_id, description, exited, last_reason, signal) = match stop {` .. `self.drain_events()?; Ok(())`
//@   sig: fn stop_tail(&mut self, stop: StopReason) -> (r: Result<(), AnyErr>)
//@   requires R_fresh_batch: old(self).refreshed_in_batch@ == 0 && !old(self).batch_has_exit@ && !old(self).thread_events_dropped@
//@   ensures E_no_thread_event_lost: !final(self).thread_events_dropped@
//@   ensures E_exit_once: exit_code_of(&stop) is Some ==> final(self).exited_queued@ == old(self).exited_queued@ + 1 && final(self).stopped_queued@ == old(self).stopped_queued@ && final(self).last_stop is None
//@   ensures E_stop_once: exit_code_of(&stop) is None && r is Ok ==> final(self).stopped_queued@ == old(self).stopped_queued@ + 1 && final(self).exited_queued@ == old(self).exited_queued@ && final(self).epochs@ == old(self).epochs@ + 1 && final(self).last_stop is Some
//@   rewrite W_classify: `= match stop { $stmts_arms };` => `= outline_classify(stop);`
//@   outline O_where: `self .debugger .as_ref() .and_then($x) .unwrap_or((None, None, None, None))` => `self.outline_where()`
//@ end
}

} // verus!
fn main() {}
