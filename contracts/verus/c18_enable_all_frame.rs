//@ unit: C18.enable_all_frame
//@ props: C18
//@ source: src/debugger/breakpoint.rs
//@ fn: BreakpointRegistry::enable_all_breakpoints (everything around the per-template loop)
//@ assume: the per-template loop is outlined as ONE call whose contract is what C11.enable_all / C01.enable_all prove for its body, lifted over the drained map: afterwards the registry's not-installed table holds exactly the templates that could not be resolved now (their library is not mapped yet) and the local map is empty; mem::take is outlined (moves the table out, leaves an empty one)
//@ notcovered: the loop body itself (C11.enable_all, C01.enable_all), the retry at the next library load (continue_execution, LinkerMapFn arm)
use vstd::prelude::*;
use std::collections::HashMap;
use vstd::std_specs::hash::*;
verus! {
//@ include: prelude.rs

pub struct DbgError;
pub type Error = DbgError;
#[derive(Clone, Copy, PartialEq, Eq, Hash)]
pub struct Address(pub u64);
pub struct Debugee;
pub struct UninitBreakpoint { pub addr: Address, pub number: u32 }
pub uninterp spec fn resolvable(t: &UninitBreakpoint) -> bool;
/// the templates of `m` whose code is not mapped in the current process image
pub open spec fn is_pending_of(r: Map<Address, UninitBreakpoint>, m: Map<Address, UninitBreakpoint>) -> bool {
    &&& forall|a: Address| r.contains_key(a) <==> (m.contains_key(a) && !resolvable(&m[a]))
    &&& forall|a: Address| r.contains_key(a) ==> r[a] == m[a]
}

pub struct BreakpointRegistry {
    pub disabled_breakpoints: HashMap<Address, UninitBreakpoint>,
}

#[verifier::external_body]
fn outline_take(m: &mut HashMap<Address, UninitBreakpoint>) -> (r: HashMap<Address, UninitBreakpoint>)
    ensures r@ == old(m)@, final(m)@ == Map::<Address, UninitBreakpoint>::empty(),
{ unimplemented!() }

impl BreakpointRegistry {
    #[verifier::external_body]
    fn outline_loop(&mut self, disabled_breakpoints: &mut HashMap<Address, UninitBreakpoint>, errors: &mut Vec<Error>, debugee: &Debugee)
        requires old(self).disabled_breakpoints@ == Map::<Address, UninitBreakpoint>::empty(),
        ensures is_pending_of(final(self).disabled_breakpoints@, old(disabled_breakpoints)@),
            final(disabled_breakpoints)@ == Map::<Address, UninitBreakpoint>::empty(),
    { unimplemented!() }

//@ extract: impl BreakpointRegistry / fn enable_all_breakpoints
//@   ensures E_pending_kept: is_pending_of(final(self).disabled_breakpoints@, old(self).disabled_breakpoints@)
//@   outline O_take: `mem::take(&mut self.disabled_breakpoints)` => `outline_take(&mut self.disabled_breakpoints)`
//@   rewrite W_loop: `for (addr, uninit_brkpt) in disabled_breakpoints.drain() { $stmts_b }` => `self.outline_loop(&mut disabled_breakpoints, &mut errors, debugee);`
//@ end
}

} // verus!
fn main() {}
