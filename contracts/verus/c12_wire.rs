//@ unit: C12.wire
//@ props: C12
//@ source: src/dap/yadap/session/mod.rs
//@ fn: DebugSession::send_response_raw, DebugSession::send_event_raw, DebugSession::run
//@ shim: src/dap/yadap/protocol.rs :: struct DapResponse :: seq: i64, request_seq: i64, success: bool, command: String, message: Option<String>, body: Option<Value>
//@ shim: src/dap/yadap/protocol.rs :: struct DapRequest :: seq: i64, command: String
//@ shim: src/dap/yadap/session/mod.rs :: struct DebugSession :: answered_request: Option<i64>
//@ assume: sequential model of the session thread only: `server_seq.fetch_add(1)` (next_seq) is an ext fn returning the counter and advancing it; taking the transport lock and write_message append the message to a ghost `wire` sequence on the session shim; serde_json::to_value keeps the fields (ghost view of the JSON value); the two output-forwarder threads that share server_seq and the lock are NOT modelled (concurrency: sequence numbers across threads are outside this unit)
//@ assume: signature substitution: `run(mut self, ..)` -> `run(&mut self, ..)` (Verus: `mut self` unsupported)
//@ assume: dispatch (the 40 handlers) is an assumed contract: a handler answers its own request at most once and nobody else's, and has answered when it returns Ok (it may answer and then fail); drain_events sends no response; a failed transport write sets a ghost `io_failed` flag and response accounting is claimed only while it is unset
//@ notcovered: the handlers themselves (whether each really answers exactly once), causal order of events, concurrency with the output forwarders
use vstd::prelude::*;
verus! {
//@ include: prelude.rs

pub struct AnyErr;
pub struct Value(pub u64);

pub struct DapRequest { pub seq: i64, pub command: String }

pub struct DapResponse {
    pub seq: i64,
    pub r#type: &'static str,
    pub request_seq: i64,
    pub success: bool,
    pub command: String,
    pub message: Option<String>,
    pub body: Option<Value>,
}

/// what one message on the wire says (ghost view of the serialised JSON)
pub enum Msg {
    Response { seq: int, request_seq: int, success: bool, command: Seq<char> },
    Event { seq: int },
}

pub open spec fn msg_seq(m: Msg) -> int { match m { Msg::Response { seq, .. } => seq, Msg::Event { seq } => seq } }

pub struct JsonValue { pub view: Ghost<Msg> }

pub struct DebugSession {
    /// ghost: value of the shared counter server_seq
    pub seq_counter: Ghost<int>,
    /// ghost: messages written to the transport, in order
    pub wire: Ghost<Seq<Msg>>,
    /// ghost: a transport write failed
    pub io_failed: Ghost<bool>,
    /// ghost: `seq` of every request read so far (messages of type "request" only)
    pub reqs: Ghost<Seq<int>>,
    /// real field: seq of the request that received a response last
    pub answered_request: Option<i64>,
}
pub enum InternalEvent { Output { category: &'static str, output: String } }

pub open spec fn count(s: Seq<int>, x: int) -> nat
    decreases s.len(),
{
    if s.len() == 0 { 0 } else { count(s.drop_last(), x) + (if s.last() == x { 1nat } else { 0nat }) }
}

proof fn lemma_count_push(s: Seq<int>, y: int, x: int)
    ensures count(s.push(y), x) == count(s, x) + (if y == x { 1nat } else { 0nat }),
{
    assert(s.push(y).drop_last() =~= s);
}

/// "exactly one response per request": for every seq, as many responses on the wire as requests read with it
pub open spec fn answered_once(s: &DebugSession) -> bool {
    !s.io_failed@ ==> forall|rs: int| #[trigger] answers(s.wire@, rs) == count(s.reqs@, rs)
}
pub struct Oracles;
pub struct RawMsg;
#[verifier::external_body]
fn outline_from_value(msg: RawMsg) -> (r: Result<DapRequest, AnyErr>) { unimplemented!() }
#[verifier::external_body]
fn outline_not_request(req: &DapRequest) -> (r: bool) { unimplemented!() }
#[verifier::external_body]
fn outline_fmt_err(e: &AnyErr) -> (r: String) { unimplemented!() }


/// responses on the wire that answer request `rs`
pub open spec fn answers(w: Seq<Msg>, rs: int) -> nat
    decreases w.len(),
{
    if w.len() == 0 { 0 } else {
        answers(w.drop_last(), rs) + (match w.last() { Msg::Response { request_seq, .. } => if request_seq == rs { 1nat } else { 0nat }, _ => 0nat })
    }
}

proof fn lemma_answers_push(w: Seq<Msg>, m: Msg, rs: int)
    ensures answers(w.push(m), rs) == answers(w, rs) + (match m { Msg::Response { request_seq, .. } => if request_seq == rs { 1nat } else { 0nat }, _ => 0nat }),
{
    assert(w.push(m).drop_last() =~= w);
}

#[verifier::external_body]
fn outline_to_value(rsp: DapResponse) -> (r: Result<JsonValue, AnyErr>)
    ensures r is Ok ==> r->Ok_0.view@ == (Msg::Response { seq: rsp.seq as int, request_seq: rsp.request_seq as int, success: rsp.success, command: rsp.command@ }),
{ unimplemented!() }

#[verifier::external_body]
fn outline_clone_string(s: &String) -> (r: String) ensures r@ == s@, { unimplemented!() }

impl DebugSession {
    /// `self.server_seq.fetch_add(1, Relaxed)`
    #[verifier::external_body]
    fn next_seq(&mut self) -> (r: i64)
        ensures r as int == old(self).seq_counter@, final(self).seq_counter@ == old(self).seq_counter@ + 1,
            final(self).wire@ == old(self).wire@, final(self).io_failed@ == old(self).io_failed@, final(self).answered_request == old(self).answered_request, final(self).reqs@ == old(self).reqs@,
    { unimplemented!() }

    /// `let mut lock = self.io.lock().unwrap(); lock.write_message(&value)`
    #[verifier::external_body]
    fn outline_write(&mut self, value: &JsonValue) -> (r: Result<(), AnyErr>)
        ensures final(self).seq_counter@ == old(self).seq_counter@, final(self).answered_request == old(self).answered_request, final(self).reqs@ == old(self).reqs@,
            r is Ok ==> final(self).wire@ == old(self).wire@.push(value.view@) && final(self).io_failed@ == old(self).io_failed@,
            r is Err ==> final(self).wire@ == old(self).wire@ && final(self).io_failed@,
    { unimplemented!() }

    /// `let mut lock = self.io.lock().unwrap(); protocol::send_event(seq, &mut *lock, name, body)`
    #[verifier::external_body]
    fn outline_send_event(&mut self, seq: i64) -> (r: Result<(), AnyErr>)
        ensures final(self).seq_counter@ == old(self).seq_counter@,
            r is Ok ==> final(self).wire@ == old(self).wire@.push(Msg::Event { seq: seq as int }) && final(self).io_failed@ == old(self).io_failed@,
            r is Err ==> final(self).wire@ == old(self).wire@ && final(self).io_failed@,
    { unimplemented!() }

    /// `{ let mut lock = self.io.lock().unwrap(); lock.read_message()? }` (the `?` stays outside)
    #[verifier::external_body]
    fn outline_read(&mut self) -> (r: Result<RawMsg, AnyErr>)
        ensures final(self).wire@ == old(self).wire@, final(self).io_failed@ == old(self).io_failed@, final(self).reqs@ == old(self).reqs@, final(self).answered_request == old(self).answered_request,
    { unimplemented!() }

    #[verifier::external_body]
    fn drain_events(&mut self) -> (r: Result<(), AnyErr>)
        ensures final(self).reqs@ == old(self).reqs@, !final(self).io_failed@ ==> !old(self).io_failed@ && forall|rs: int| #[trigger] answers(final(self).wire@, rs) == answers(old(self).wire@, rs),
    { unimplemented!() }

    /// ASSUMED contract of the 40 handlers (what they can be relied on for, checked for handle_continue by C12.handlers):
    /// a handler answers its own request at most once and no other request; when it returns Ok it has answered.
    /// It may answer and THEN fail (handle_continue responds before it blocks).  Every response goes through
    /// send_response_raw, which records the answered request (E_rsp_mark), so the field tells whether it answered.
    #[verifier::external_body]
    fn dispatch(&mut self, req: &DapRequest, oracles: &Oracles) -> (r: Result<bool, AnyErr>)
        ensures final(self).reqs@ == old(self).reqs@,
            !final(self).io_failed@ ==> !old(self).io_failed@
                && (forall|rs: int| rs != req.seq ==> #[trigger] answers(final(self).wire@, rs) == answers(old(self).wire@, rs))
                && answers(old(self).wire@, req.seq as int) <= answers(final(self).wire@, req.seq as int) <= answers(old(self).wire@, req.seq as int) + 1
                && (r is Ok ==> answers(final(self).wire@, req.seq as int) == answers(old(self).wire@, req.seq as int) + 1)
                && (old(self).answered_request is None ==>
                        (final(self).answered_request == Some(req.seq) <==> answers(final(self).wire@, req.seq as int) == answers(old(self).wire@, req.seq as int) + 1)),
    { unimplemented!() }

    #[verifier::external_body]
    fn enqueue_event(&mut self, ev: InternalEvent)
        ensures final(self).wire@ == old(self).wire@, final(self).io_failed@ == old(self).io_failed@, final(self).reqs@ == old(self).reqs@, final(self).answered_request == old(self).answered_request,
    { unimplemented!() }

    /// send_err -> send_response_raw(req, false, ..): one response for `req` (proved for send_response_raw above: E_rsp)
    #[verifier::external_body]
    fn send_err(&mut self, req: &DapRequest, message: String) -> (r: Result<(), AnyErr>)
        ensures final(self).reqs@ == old(self).reqs@,
            !final(self).io_failed@ ==> !old(self).io_failed@ && r is Ok && forall|rs: int| #[trigger] answers(final(self).wire@, rs) == answers(old(self).wire@, rs) + (if rs == req.seq { 1nat } else { 0nat }),
    { unimplemented!() }

//@ extract: impl DebugSession / fn run
//@   sig: pub fn run(&mut self, oracles: Oracles) -> (r: Result<(), AnyErr>)
//@   attr: #[verifier::exec_allows_no_decreases_clause]
//@   requires R_run: answered_once(old(self))
//@   ensures E_run: r is Ok ==> answered_once(final(self))
//@   outline O_read: `{ let mut lock = self.io.lock().unwrap(); lock.read_message()? }` => `self.outline_read()?`
//@   outline O_from: `serde_json::from_value(msg)?` => `outline_from_value(msg)?`
//@   outline O_type: `req.r#type != "request"` => `outline_not_request(&req)`
//@   outline O_fmt: `format!("{e:#}")` => `outline_fmt_err(&e)`
//@   outline O_fmt2: `format!("{}: {e:#}\n", req.command)` => `outline_fmt_err(&e)`
//@   proof before `let cont = match self.dispatch(&req, &oracles)`: let ghost r0 = self.reqs@; let ghost w0 = self.wire@; self.reqs = Ghost(r0.push(req.seq as int)); assert forall|rs: int| #[trigger] count(self.reqs@, rs) == count(r0, rs) + (if req.seq as int == rs { 1nat } else { 0nat }) by { lemma_count_push(r0, req.seq as int, rs); } assert(!self.io_failed@ ==> forall|rs: int| #[trigger] answers(w0, rs) == count(r0, rs));
//@   loop 0 invariant I_run: answered_once(self)
//@ end

//@ extract: impl DebugSession / fn send_response_raw
//@   sig: fn send_response_raw(&mut self, req: &DapRequest, success: bool, message: Option<String>, body: Option<Value>) -> (r: Result<(), AnyErr>)
//@   ensures E_rsp: r is Ok ==> final(self).wire@ == old(self).wire@.push(Msg::Response { seq: old(self).seq_counter@, request_seq: req.seq as int, success: success, command: req.command@ })
//@   ensures E_rsp_seq: final(self).seq_counter@ == old(self).seq_counter@ + 1
//@   ensures E_rsp_err: r is Err ==> final(self).wire@ == old(self).wire@
//@   ensures E_rsp_flag: !final(self).io_failed@ ==> !old(self).io_failed@
//@   ensures E_rsp_mark: r is Ok ==> final(self).answered_request == Some(req.seq)
//@   ensures E_rsp_nomark: r is Err ==> final(self).answered_request == old(self).answered_request
//@   outline O_clone: `req.command.clone()` => `outline_clone_string(&req.command)`
//@   outline O_val: `serde_json::to_value(rsp)?` => `outline_to_value(rsp)?`
//@   outline O_write: `let mut lock = self.io.lock().unwrap(); lock.write_message(&value)` => `self.outline_write(&value)`
//@ end

//@ extract: impl DebugSession / fn send_event_raw
//@   sig: fn send_event_raw(&mut self, name: &'static str, body: Option<Value>) -> (r: Result<(), AnyErr>)
//@   ensures E_ev: r is Ok ==> final(self).wire@ == old(self).wire@.push(Msg::Event { seq: old(self).seq_counter@ })
//@   ensures E_ev_seq: final(self).seq_counter@ == old(self).seq_counter@ + 1
//@   outline O_send: `let mut lock = self.io.lock().unwrap(); protocol::send_event(seq, &mut *lock, name, body)` => `self.outline_send_event(seq)`
//@ end
}

} // verus!
fn main() {}
