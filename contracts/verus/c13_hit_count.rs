//@ unit: C13.hit_count
//@ props: C13
//@ implicit: C13
//@ source: src/dap/yadap/session/control.rs
//@ fn: DebugSession::record_breakpoint_hit (closure applied to the record that owns the stop address)
//@ assume: with_breakpoint_record_mut applies the closure to the record found by C13.record_lookup, once; the closure body is spliced verbatim; option strings are opaque copies; HitCondition is reduced to an opaque id
//@ notcovered: that every stop reaches record_breakpoint_hit exactly once (emit_stop_reason: C13.stop_filter)
use vstd::prelude::*;
verus! {
//@ include: prelude.rs

#[derive(Clone, Copy, PartialEq, Eq)] pub struct Txt(pub u64);
#[derive(Clone, Copy, PartialEq, Eq)] pub struct Hc(pub u64);
pub struct BreakpointRecord { pub id: i64, pub condition: Option<Txt>, pub hit_condition: Option<Hc>, pub log_message: Option<Txt>, pub hit_count: u64 }
pub struct BreakpointHitInfo { pub id: i64, pub condition: Option<Txt>, pub hit_condition: Option<Hc>, pub log_message: Option<Txt>, pub hit_count: u64 }
pub mod breakpoint_ { }
#[verifier::external_body] fn outline_sat_inc(x: u64) -> (r: u64) ensures r == (if x < u64::MAX { (x + 1) as u64 } else { x }), { unimplemented!() }

//@ extract: impl super::DebugSession / fn record_breakpoint_hit
//@   fragment: `^self.with_breakpoint_record_mut(addr, |record| {` .. `^})`
//@   splice: F_hit
//@   rewrite W_path: `super::breakpoint::BreakpointHitInfo` => `BreakpointHitInfo`
//@   outline O_sat: `record.hit_count.saturating_add(1)` => `outline_sat_inc(record.hit_count)`
//@ end

//@ begin_fn: src/dap/yadap/session/control.rs :: record_breakpoint_hit [closure]
fn hit(record: &mut BreakpointRecord) -> (r: BreakpointHitInfo)
    ensures
        // "hitCondition N on the N-th hit": every arrival counts once, and the count that is judged is the new one
        final(record).hit_count == (if old(record).hit_count < u64::MAX { (old(record).hit_count + 1) as u64 } else { old(record).hit_count }), /*@@E_counted*/
        r.hit_count == final(record).hit_count, /*@@E_judged*/
        // the options judged are this record's options, which stay as they are
        r.id == old(record).id && r.condition == old(record).condition && r.hit_condition == old(record).hit_condition && r.log_message == old(record).log_message, /*@@E_options*/
        final(record).id == old(record).id && final(record).condition == old(record).condition && final(record).hit_condition == old(record).hit_condition && final(record).log_message == old(record).log_message, /*@@E_frame*/
{
    /*@@SPLICE:F_hit*/
}
//@ end_fn

} // verus!
fn main() {}
