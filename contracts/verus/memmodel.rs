// ---- memmodel.rs: debuggee memory as a ghost byte map (DESIGN 1.4) ----
pub struct Errno(pub i32);

/// Debuggee memory.  PTRACE_PEEKDATA(a) returns the word whose native-endian bytes are m[a..a+8];
/// PTRACE_POKEDATA(a, w) replaces exactly those 8 bytes; either may fail and then changes nothing.
pub struct Mem {
    pub m: Ghost<Map<int, u8>>,
}

/// native-endian (= little-endian on x86-64) bytes of a machine word
pub uninterp spec fn ne_bytes(w: i64) -> Seq<u8>;

pub open spec fn word_at(m: Map<int, u8>, a: int, w: i64) -> bool {
    ne_bytes(w).len() == 8 && forall|i: int| 0 <= i < 8 ==> #[trigger] ne_bytes(w)[i] == m[a + i]
}
