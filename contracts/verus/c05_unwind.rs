//@ unit: C05.unwind_loop
//@ props: C05
//@ source: src/debugger/debugee/dwarf/unwind.rs
//@ fn: DwarfUnwinder::unwind, DwarfUnwinder::restore_registers_at_frame
//@ assume: ghost model of the real call stack: `frames(debugee, pid)` is the sequence of instruction pointers of the active call chain, innermost first, for all frames with unwind information, and `cfas(..)` their canonical frame addresses, strictly increasing (the stack grows downwards, so every caller's CFA is above its callee's). UnwindContext::new / ::next / return_address (gimli CFI lookup and register rules: external; their register carriage is covered by the Kani units of C05) walk this chain one frame at a time; FrameSpan::new records the location's pc; the HashSet is replaced by a ghost-set recorder with std's insert contract
//@ notcovered: CFI row lookup and register-rule evaluation (UnwindContext::new), symbolisation of frames, restore_registers_at_frame, frame CFA reporting
use vstd::prelude::*;
verus! {
//@ include: prelude.rs
//@ const: src/debugger/debugee/dwarf/unwind.rs :: MAX_UNWIND_DEPTH

pub struct DbgError;
#[derive(Clone, Copy, PartialEq, Eq)] pub struct Pid(pub i32);
#[derive(Clone, Copy, PartialEq, Eq)] pub struct RelocatedAddress(pub usize);
#[derive(Clone, Copy, PartialEq, Eq)] pub struct GlobalAddress(pub usize);
#[derive(Clone, Copy)] pub struct Location { pub pc: RelocatedAddress, pub global_pc: GlobalAddress, pub pid: Pid }
pub struct FrameSpan { pub ip: RelocatedAddress }
pub struct Debugee;
impl Debugee {
    #[verifier::external_body] pub fn mapping_offset_for_pc(&self, pc: RelocatedAddress) -> (r: Result<usize, DbgError>) ensures r is Ok ==> r->Ok_0 == off_of(pc.0), { unimplemented!() }
}
pub struct ExplorationContext { pub loc: Location, pub frame: u32 }
pub struct DwarfUnwinder<'a> { pub debugee: &'a Debugee }

/// the real call chain of thread `pid`: instruction pointers, innermost first (frames with unwind information)
pub uninterp spec fn frames(d: &Debugee, pid: Pid) -> Seq<usize>;
/// canonical frame address of each of those frames
pub uninterp spec fn cfas(d: &Debugee, pid: Pid) -> Seq<usize>;

pub open spec fn wf_stack(d: &Debugee, pid: Pid) -> bool {
    &&& frames(d, pid).len() >= 1
    &&& cfas(d, pid).len() == frames(d, pid).len()
    &&& forall|i: int, j: int| 0 <= i < j < cfas(d, pid).len() ==> #[trigger] cfas(d, pid)[i] < #[trigger] cfas(d, pid)[j]
}

/// load offset of the object that contains a run-time address (C18.try_into_brkpt)
pub uninterp spec fn off_of(a: usize) -> usize;
/// a location is consistent when its file-relative pc belongs to ITS OWN object: global = pc - load offset of the object containing pc
pub open spec fn loc_consistent(l: Location) -> bool { l.global_pc.0 == l.pc.0 - off_of(l.pc.0) }

/// unwind state for frame number `depth` of the chain
pub struct UnwindContext<'a> {
    pub debugee: &'a Debugee,
    pub location: Location,
    pub cfa: RelocatedAddress,
    pub depth: Ghost<int>,
}

impl<'a> UnwindContext<'a> {
    #[verifier::external_body]
    pub fn return_address(&self) -> (r: Option<RelocatedAddress>)
        ensures
            r is Some <==> self.depth@ + 1 < frames(self.debugee, self.location.pid).len(),
            r is Some ==> r->Some_0.0 == frames(self.debugee, self.location.pid)[self.depth@ + 1],
    { unimplemented!() }

    /// the register file as restored for this frame (ghost tag: which activation it belongs to)
    #[verifier::external_body]
    pub fn registers(&self) -> (r: DwarfRegisterMap) ensures r.of_frame@ == self.depth@, { unimplemented!() }

    #[verifier::external_body]
    pub fn next(previous_ucx: UnwindContext<'a>, ecx: &ExplorationContext) -> (r: Result<Option<UnwindContext<'a>>, DbgError>)
        requires previous_ucx.depth@ + 1 < frames(previous_ucx.debugee, previous_ucx.location.pid).len(),
            loc_consistent(ecx.loc),   // CFI of the caller frame is looked up with ITS file-relative pc (C05.cfi_lookup)
        ensures r is Ok ==> r->Ok_0 is Some && r->Ok_0->Some_0.depth@ == previous_ucx.depth@ + 1
            && r->Ok_0->Some_0.debugee == previous_ucx.debugee && r->Ok_0->Some_0.location.pid == previous_ucx.location.pid
            && r->Ok_0->Some_0.cfa.0 == cfas(previous_ucx.debugee, previous_ucx.location.pid)[previous_ucx.depth@ + 1],
    { unimplemented!() }
}

pub struct DwarfRegisterMap { pub of_frame: Ghost<int> }
impl DwarfRegisterMap {
    #[verifier::external_body]
    pub fn update_from(&mut self, other: &DwarfRegisterMap) ensures final(self).of_frame@ == other.of_frame@, { unimplemented!() }
}
#[verifier::external_body]
fn outline_addr_or(x: Option<RelocatedAddress>) -> (r: Result<RelocatedAddress, DbgError>) ensures r is Ok == x is Some, r is Ok ==> r->Ok_0 == x->Some_0, { unimplemented!() }
#[verifier::external_body]
fn outline_ctx_or<'a>(x: Option<UnwindContext<'a>>) -> (r: Result<UnwindContext<'a>, DbgError>) ensures r is Ok == x is Some, r is Ok ==> r->Ok_0 == x->Some_0, { unimplemented!() }

impl ExplorationContext {
    #[verifier::external_body] pub fn new(location: Location, frame_num: u32) -> (r: ExplorationContext) ensures r.loc == location, r.frame == frame_num { unimplemented!() }
    #[verifier::external_body] pub fn location(&self) -> (r: Location) ensures r == self.loc { unimplemented!() }
    #[verifier::external_body] pub fn frame_num(&self) -> (r: u32) ensures r == self.frame { unimplemented!() }
    #[verifier::external_body] pub fn pid_on_focus(&self) -> (r: Pid) ensures r == self.loc.pid { unimplemented!() }
}
impl FrameSpan {
    #[verifier::external_body]
    pub fn new(debugee: &Debugee, location: Location) -> (r: Result<FrameSpan, DbgError>) ensures r is Ok ==> r->Ok_0.ip == location.pc { unimplemented!() }
}
impl RelocatedAddress {
    #[verifier::external_body] pub fn into_global(self, d: &Debugee) -> (r: Result<GlobalAddress, DbgError>) ensures r is Ok ==> r->Ok_0.0 == self.0 - off_of(self.0), { unimplemented!() }
    /// GlobalAddress(self.0 - offset) (Kani unit C18.reloc); panics on underflow in debug builds
    #[verifier::external_body] pub fn remove_vas_region_offset(self, offset: usize) -> (r: GlobalAddress) requires offset <= self.0, ensures r.0 == self.0 - offset, { unimplemented!() }
}

/// what identifies a frame in the cycle guard: a key that carries the frame's CFA tells two activations of the same
/// call site apart (recursion); a key without it cannot
pub trait FrameKey {
    spec fn cfa_of(&self) -> Option<int>;
}
impl FrameKey for (RelocatedAddress, RelocatedAddress) {
    open spec fn cfa_of(&self) -> Option<int> { Some(self.1.0 as int) }
}
impl FrameKey for RelocatedAddress {
    open spec fn cfa_of(&self) -> Option<int> { None }
}

/// recorder with std's HashSet::new / HashSet::insert contract
pub struct VisitedSet<K> { pub seen: Ghost<Set<K>> }
impl<K: FrameKey> VisitedSet<K> {
    /// every recorded frame lies strictly below CFA x (the stack grows downwards: callers have higher CFAs)
    pub open spec fn all_below(&self, x: int) -> bool {
        forall|k: K| #[trigger] self.seen@.contains(k) ==> k.cfa_of() is Some && k.cfa_of()->Some_0 < x
    }
    #[verifier::external_body]
    pub fn new() -> (r: VisitedSet<K>) ensures forall|k: K| !r.seen@.contains(k) { unimplemented!() }
    #[verifier::external_body]
    pub fn insert(&mut self, key: K) -> (r: bool)
        ensures r == !old(self).seen@.contains(key), forall|k: K| #[trigger] final(self).seen@.contains(k) <==> (old(self).seen@.contains(k) || k == key),
    { unimplemented!() }
}

impl<'a> DwarfUnwinder<'a> {
    /// self.debugee.tracee_ctl().tracee_ensure(pid).location(self.debugee)
    #[verifier::external_body]
    fn outline_frame0_location(&self, pid: Pid) -> (r: Result<Location, DbgError>)
        ensures r is Ok ==> r->Ok_0.pid == pid && r->Ok_0.pc.0 == frames(self.debugee, pid)[0],
    { unimplemented!() }

    /// UnwindContext::new(self.debugee, DwarfRegisterMap::from(RegisterMap::current(ecx.pid_on_focus())?), &ecx)
    #[verifier::external_body]
    fn outline_ucx0(&self, ecx: &ExplorationContext) -> (r: Result<Option<UnwindContext<'a>>, DbgError>)
        ensures r is Ok && r->Ok_0 is Some ==> r->Ok_0->Some_0.depth@ == 0 && r->Ok_0->Some_0.debugee == self.debugee && r->Ok_0->Some_0.location.pid == ecx.loc.pid
                && r->Ok_0->Some_0.cfa.0 == cfas(self.debugee, ecx.loc.pid)[0],
            r is Ok && r->Ok_0 is None ==> frames(self.debugee, ecx.loc.pid).len() == 1,
    { unimplemented!() }
}

impl<'a> DwarfUnwinder<'a> {
//@ extract: impl DwarfUnwinder<'a> / fn unwind
//@   sig: pub fn unwind(&self, pid: Pid) -> (r: Result<Vec<FrameSpan>, DbgError>)
//@   requires R_stack: wf_stack(self.debugee, pid)
//@   ensures E_prefix: r is Ok ==> r->Ok_0@.len() <= frames(self.debugee, pid).len() && forall|j: int| 0 <= j < r->Ok_0@.len() ==> (#[trigger] r->Ok_0@[j]).ip.0 == frames(self.debugee, pid)[j]
//@   ensures E_complete: r is Ok ==> r->Ok_0@.len() == frames(self.debugee, pid).len() || r->Ok_0@.len() >= MAX_UNWIND_DEPTH
//@   outline O_loc0: `self .debugee .tracee_ctl() .tracee_ensure(pid) .location(self.debugee)?` => `self.outline_frame0_location(pid)?`
//@   outline O_ucx0: `UnwindContext::new( self.debugee, DwarfRegisterMap::from(RegisterMap::current(ecx.pid_on_focus())?), &ecx, )?` => `self.outline_ucx0(&ecx)?`
//@   rewrite W_set: `HashSet::new()` => `VisitedSet::new()`
//@   loop 0 invariant I_u1: ucx.depth@ + 1 == bt@.len() && ucx.depth@ < frames(self.debugee, pid).len() && ucx.debugee == self.debugee && ucx.location.pid == pid && ecx.frame == ucx.depth@
//@   loop 0 invariant I_u2: forall|j: int| 0 <= j < bt@.len() ==> (#[trigger] bt@[j]).ip.0 == frames(self.debugee, pid)[j]
//@   loop 0 invariant I_u3: ucx.cfa.0 == cfas(self.debugee, pid)[ucx.depth@]
//@   loop 0 invariant I_u4: visited_frames.all_below(cfas(self.debugee, pid)[ucx.depth@] as int)
//@   loop 0 decreases: frames(self.debugee, pid).len() - ucx.depth@
//@ end

//@ extract: impl DwarfUnwinder<'a> / fn restore_registers_at_frame
//@   sig: pub fn restore_registers_at_frame(&self, pid: Pid, registers: &mut DwarfRegisterMap, frame_num: u32) -> (r: Result<(), DbgError>)
//@   requires R_stack: wf_stack(self.debugee, pid)
//@   ensures E_rr_frame: r is Ok && frame_num > 0 ==> final(registers).of_frame@ == frame_num
//@   ensures E_rr_zero: frame_num == 0 ==> final(registers).of_frame@ == old(registers).of_frame@
//@   outline O_loc0: `self .debugee .tracee_ctl() .tracee_ensure(pid) .location(self.debugee)?` => `self.outline_frame0_location(pid)?`
//@   outline O_ucx0: `UnwindContext::new( self.debugee, DwarfRegisterMap::from(RegisterMap::current(ecx.pid_on_focus())?), &ecx, )? .ok_or(UnwindNoContext)?` => `outline_ctx_or(self.outline_ucx0(&ecx)?)?`
//@   rewrite W_for: `for _ in 0..$n {` => `let for_n_: u32 = $n; let mut fr_: u32 = 0; while fr_ < for_n_ { fr_ += 1;`
//@   outline O_ra: `unwind_ucx.return_address().ok_or(UnwindTooDeepFrame)?` => `outline_addr_or(unwind_ucx.return_address())?`
//@   outline O_next: `UnwindContext::next(unwind_ucx, &ecx)?.ok_or(UnwindNoContext)?` => `outline_ctx_or(UnwindContext::next(unwind_ucx, &ecx)?)?`
//@   loop 0 invariant I_rr: fr_ <= for_n_ && unwind_ucx.depth@ == fr_ && ecx.frame == fr_ && unwind_ucx.debugee == self.debugee && unwind_ucx.location.pid == pid && ecx.loc.pid == pid && unwind_ucx.depth@ < frames(self.debugee, pid).len()
//@   loop 0 decreases: for_n_ - fr_
//@ end
}

} // verus!
fn main() {}
