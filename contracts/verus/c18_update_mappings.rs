//@ unit: C18.update_mappings
//@ props: C18
//@ implicit: C18
//@ source: src/debugger/debugee/registry.rs
//@ fn: DwarfRegistry::update_mappings (per-object closure body)
//@ assume: `iter.for_each(|(file, _)| {..})` applies the body to every object file of the registry once (std); the body is spliced verbatim into `map_one` (`return;` ends the closure); the `/proc/<pid>/maps` lines of an object (`maps`) are the entries whose file name equals the object's canonical path: that filter and `canonicalize` are outlined (a change to the filter expression makes the unit UNDECIDED); `min_by` / `max_by` over the start address are outlined with std's contract; HashMap::insert / Vec::push record into ghost sequences
//@ notcovered: reading /proc/<pid>/maps, disjointness of the regions of different objects, the final sort (C18.find_range assumes the sorted, disjoint table), only_main selection
use vstd::prelude::*;
verus! {
//@ include: prelude.rs

pub struct DbgError;
pub struct PathBuf(pub u64);
impl PathBuf {
    #[verifier::external_body] pub fn clone(&self) -> (r: PathBuf) ensures r == *self, { unimplemented!() }
}
pub struct MapRange { pub start_: usize, pub size_: usize }
impl MapRange {
    #[verifier::external_body] pub fn start(&self) -> (r: usize) ensures r == self.start_, { unimplemented!() }
    #[verifier::external_body] pub fn size(&self) -> (r: usize) ensures r == self.size_, { unimplemented!() }
}
#[derive(Clone, Copy)]
pub struct RelocatedAddress(pub usize);
impl RelocatedAddress {
    #[verifier::external_body] pub fn from(v: usize) -> (r: RelocatedAddress) ensures r.0 == v, { unimplemented!() }
}
pub struct RegionRange { pub from: RelocatedAddress, pub to: RelocatedAddress }
pub enum MapErr { MappingNotFound(u64) }

pub uninterp spec fn maps_of(proc_maps: Seq<MapRange>, file: PathBuf) -> Seq<MapRange>;
/// the maps lines of `file` (filter by canonical path + collect), outlined
#[verifier::external_body]
fn outline_maps_of<'a>(proc_maps: &'a Vec<MapRange>, file: &PathBuf) -> (r: Vec<&'a MapRange>)
    ensures r@.len() == maps_of(proc_maps@, *file).len(), forall|k: int| 0 <= k < r@.len() ==> *(#[trigger] r@[k]) == maps_of(proc_maps@, *file)[k],
        forall|k: int| 0 <= k < r@.len() ==> exists|j: int| 0 <= j < proc_maps@.len() && *(#[trigger] r@[k]) == proc_maps@[j],   // a filter returns elements of its input
{ unimplemented!() }
/// `maps.iter().min_by(|a, b| a.start().cmp(&b.start())).expect(..)`
#[verifier::external_body]
fn outline_lowest<'a>(maps: &Vec<&'a MapRange>) -> (r: &'a MapRange)
    requires maps@.len() > 0,
    ensures exists|k: int| 0 <= k < maps@.len() && *maps@[k] == *r, forall|k: int| 0 <= k < maps@.len() ==> r.start_ <= (#[trigger] maps@[k]).start_,
{ unimplemented!() }
/// `maps.iter().max_by(|a, b| a.start().cmp(&b.start())).expect(..)`
#[verifier::external_body]
fn outline_highest<'a>(maps: &Vec<&'a MapRange>) -> (r: &'a MapRange)
    requires maps@.len() > 0,
    ensures exists|k: int| 0 <= k < maps@.len() && *maps@[k] == *r, forall|k: int| 0 <= k < maps@.len() ==> r.start_ >= (#[trigger] maps@[k]).start_,
{ unimplemented!() }
#[verifier::external_body]
fn outline_not_found(file: &PathBuf) -> (r: MapErr) { unimplemented!() }

pub struct Mappings { pub log: Ghost<Seq<(PathBuf, usize)>> }
impl Mappings {
    #[verifier::external_body]
    pub fn insert(&mut self, k: PathBuf, v: usize) ensures final(self).log@ == old(self).log@.push((k, v)), { unimplemented!() }
}

//@ extract: impl DwarfRegistry / fn update_mappings
//@   fragment: `^iter.for_each(|(file, _)| {` .. `^}); self.mappings = mappings;`
//@   splice: F_obj
//@   outline O_maps: `let absolute_debugee_path_buf = file.canonicalize().expect("canonicalize path must exists"); let absolute_debugee_path = absolute_debugee_path_buf.as_path(); let maps = proc_maps .iter() .filter(|map| map.filename() == Some(absolute_debugee_path)) .collect::<Vec<_>>();` => `let maps = outline_maps_of(proc_maps, file);`
//@   proof before `mappings.insert(file.clone(), mapping);`: let kh = choose|k: int| 0 <= k < maps@.len() && *maps@[k] == *higher_sect; assert(maps_of(proc_maps@, *file)[kh] == *higher_sect); assert forall|j: int| 0 <= j < maps_of(proc_maps@, *file).len() implies (#[trigger] maps_of(proc_maps@, *file)[j]).start_ <= higher_sect.start_ && lower_sect.start_ <= maps_of(proc_maps@, *file)[j].start_ by { assert(*maps@[j] == maps_of(proc_maps@, *file)[j]); }
//@   outline O_nf: `MappingNotFound(file.to_string_lossy().to_string())` => `outline_not_found(file)`
//@   outline O_low: `maps .iter() .min_by(|map1, map2| map1.start().cmp(&map2.start())) .expect("at least one mapping must exists")` => `outline_lowest(&maps)`
//@   outline O_high: `maps .iter() .max_by(|map1, map2| map1.start().cmp(&map2.start())) .expect("at least one mapping must exists")` => `outline_highest(&maps)`
//@ end

//@ begin_fn: src/debugger/debugee/registry.rs :: update_mappings [one object file]
fn map_one(file: &PathBuf, proc_maps: &Vec<MapRange>, mappings: &mut Mappings, ranges: &mut Vec<(PathBuf, RegionRange)>, errors: &mut Vec<MapErr>)
    requires forall|k: int| 0 <= k < proc_maps@.len() ==> (#[trigger] proc_maps@[k]).start_ + proc_maps@[k].size_ <= usize::MAX, /*@@R_fits*/
    ensures
        // an object without maps lines is reported and gets neither an offset nor a region
        final(ranges)@.len() == old(ranges)@.len() ==> final(mappings).log@ == old(mappings).log@ && final(errors)@.len() == old(errors)@.len() + 1, /*@@E_missing*/
        final(ranges)@.len() == old(ranges)@.len() || final(ranges)@.len() == old(ranges)@.len() + 1, /*@@E_one*/
        // otherwise: the load offset is the LOWEST start, the region is [lowest start, highest start + its size), both under this object's path
        final(ranges)@.len() == old(ranges)@.len() + 1 ==> ({
            let r = final(ranges)@.last();
            let m = final(mappings).log@.last();
            &&& final(mappings).log@.len() == old(mappings).log@.len() + 1
            &&& r.0 == *file && m.0 == *file
            &&& m.1 == r.1.from.0
            &&& r.1.from.0 <= r.1.to.0
            &&& forall|k: int| 0 <= k < maps_of(proc_maps@, *file).len() ==> r.1.from.0 <= (#[trigger] maps_of(proc_maps@, *file)[k]).start_
            &&& exists|k: int| 0 <= k < maps_of(proc_maps@, *file).len() && r.1.to.0 == (#[trigger] maps_of(proc_maps@, *file)[k]).start_ + maps_of(proc_maps@, *file)[k].size_ && (forall|j: int| 0 <= j < maps_of(proc_maps@, *file).len() ==> (#[trigger] maps_of(proc_maps@, *file)[j]).start_ <= maps_of(proc_maps@, *file)[k].start_)
            &&& final(errors)@ == old(errors)@
        }), /*@@E_region*/
{
    /*@@SPLICE:F_obj*/
}
//@ end_fn

} // verus!
fn main() {}
