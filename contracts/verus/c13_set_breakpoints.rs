//@ unit: C13.set_breakpoints
//@ props: C13
//@ source: src/dap/yadap/session/breakpoint.rs
//@ fn: DebugSession::handle_set_breakpoints, DebugSession::handle_set_instruction_breakpoints, DebugSession::handle_set_function_breakpoints (replace protocol: which record set is removed, which is stored)
//@ shim: src/dap/yadap/session/mod.rs :: struct DebugSession :: breakpoints_by_source: HashMap<String, Vec<breakpoint::BreakpointRecord>>, function_breakpoints: Vec<breakpoint::BreakpointRecord>, instruction_breakpoints: Vec<breakpoint::BreakpointRecord>, next_breakpoint_id: i64
//@ assume: the two loops are outlined WHOLE (their bodies are serde_json + debugger calls): `for record in prev {..}` removes every recorded address of every previous record from the debugger and queues one `removed` event per record (ghost: the records handed over are appended to `Dbg.removed`); `for bp in bps {..}` installs the requested lines and fills new_breakpoints / rsp_bps / pending_events; only the protocol AROUND them is verified: under which key the previous set is looked up, that exactly that set is removed from the debugger, and under which key the new set is stored
//@ assume: SourceMap::map_client_to_target is a function `map_path` of the client path; request decoding (`req.arguments..`) outlined; source paths are an opaque key type PathStr (String in the real code; lawful Hash/Eq assumed); HashMap::remove(k).unwrap_or_default() outlined with std's contract
//@ notcovered: the loop bodies (only the first returned location is recorded; `verified`), the other three set*Breakpoints handlers, addresses changing identity when the process starts, events on the wire
use vstd::prelude::*;
use std::collections::HashMap;
use vstd::std_specs::hash::*;
verus! {
//@ include: prelude.rs

pub struct AnyErr;
pub struct JsonV;
pub struct DapRequest;
pub struct BreakpointRecord { pub id: i64 }
pub struct InternalEvent;
/// a source path (String in the real code); opaque here, compared as a whole
#[derive(PartialEq, Eq, Hash)]
pub struct PathStr(pub u64);
pub uninterp spec fn map_path(client: PathStr) -> PathStr;
pub uninterp spec fn client_path_of(req: &DapRequest) -> PathStr;

pub struct SourceMap;
impl SourceMap {
    #[verifier::external_body]
    pub fn map_client_to_target(&self, p: &PathStr) -> (r: PathStr) ensures r == map_path(*p), { unimplemented!() }
}
pub struct Dbg { pub removed: Ghost<Seq<BreakpointRecord>> }

pub struct DebugSession {
    pub breakpoints_by_source: HashMap<PathStr, Vec<BreakpointRecord>>,
    pub function_breakpoints: Vec<BreakpointRecord>,
    pub instruction_breakpoints: Vec<BreakpointRecord>,
    pub next_breakpoint_id: i64,
    pub source_map: SourceMap,
    pub dbg: Dbg,
}

/// `req.arguments.get("source").and_then(..path..).ok_or_else(..)?.to_string()`
#[verifier::external_body]
fn outline_client_path(req: &DapRequest) -> (r: Result<PathStr, AnyErr>) ensures r is Ok ==> r->Ok_0 == client_path_of(req), { unimplemented!() }
#[verifier::external_body]
fn outline_requested(req: &DapRequest) -> (r: Vec<JsonV>) { unimplemented!() }
/// `map.remove(&k).unwrap_or_default()`
#[verifier::external_body]
fn outline_take_records(m: &mut HashMap<PathStr, Vec<BreakpointRecord>>, k: &PathStr) -> (r: Vec<BreakpointRecord>)
    ensures final(m)@ == old(m)@.remove(*k),
        old(m)@.contains_key(*k) ==> r@ == old(m)@[*k]@,
        !old(m)@.contains_key(*k) ==> r@.len() == 0,
{ unimplemented!() }
/// `for record in prev { for addr in record.addresses { let _ = dbg.remove_breakpoint(addr); } pending_events.push(removed event) }`
#[verifier::external_body]
fn outline_remove_prev(dbg: &mut Dbg, prev: Vec<BreakpointRecord>, pending_events: &mut Vec<InternalEvent>)
    ensures final(dbg).removed@ == old(dbg).removed@ + prev@,
{ unimplemented!() }
/// `for bp in bps { .. }`
#[verifier::external_body]
fn outline_install_new(dbg: &mut Dbg, bps: Vec<JsonV>, source_path: &PathStr, client_source_path: &PathStr, next_id: &mut i64,
                       new_breakpoints: &mut Vec<BreakpointRecord>, rsp_bps: &mut Vec<JsonV>, pending_events: &mut Vec<InternalEvent>)
    ensures final(dbg).removed@ == old(dbg).removed@,
{ unimplemented!() }
/// `std::mem::take(&mut v)`
#[verifier::external_body]
fn outline_take_vec(v: &mut Vec<BreakpointRecord>) -> (r: Vec<BreakpointRecord>)
    ensures r@ == old(v)@, final(v)@.len() == 0,
{ unimplemented!() }
/// `for bp in bps { .. }` of the instruction / function handlers
#[verifier::external_body]
fn outline_install_new2(dbg: &mut Dbg, bps: Vec<JsonV>, next_id: &mut i64, new_breakpoints: &mut Vec<BreakpointRecord>, rsp_bps: &mut Vec<JsonV>, pending_events: &mut Vec<InternalEvent>)
    ensures final(dbg).removed@ == old(dbg).removed@,
{ unimplemented!() }
pub struct ProgressId;
#[verifier::external_body]
fn outline_json_body(rsp_bps: Vec<JsonV>) -> (r: JsonV) { unimplemented!() }

pub open spec fn records_under(s: &DebugSession, key: PathStr) -> Seq<BreakpointRecord> {
    if s.breakpoints_by_source@.contains_key(key) { s.breakpoints_by_source@[key]@ } else { Seq::empty() }
}

impl DebugSession {
    #[verifier::external_body]
    fn outline_debugger(&mut self) -> (r: Result<&mut Dbg, AnyErr>)
        ensures r is Ok ==> *r->Ok_0 == old(self).dbg && final(self).dbg == *final(r->Ok_0) && final(self).breakpoints_by_source == old(self).breakpoints_by_source && final(self).next_breakpoint_id == old(self).next_breakpoint_id && final(self).function_breakpoints == old(self).function_breakpoints && final(self).instruction_breakpoints == old(self).instruction_breakpoints,
            r is Err ==> *final(self) == *old(self),
    { unimplemented!() }
    #[verifier::external_body]
    fn outline_enqueue_all(&mut self, evs: Vec<InternalEvent>)
        ensures final(self).breakpoints_by_source == old(self).breakpoints_by_source && final(self).dbg == old(self).dbg && final(self).function_breakpoints == old(self).function_breakpoints && final(self).instruction_breakpoints == old(self).instruction_breakpoints,
    { unimplemented!() }
    #[verifier::external_body]
    fn send_success_body(&mut self, req: &DapRequest, body: JsonV) -> (r: Result<(), AnyErr>)
        ensures final(self).breakpoints_by_source == old(self).breakpoints_by_source && final(self).dbg == old(self).dbg && final(self).function_breakpoints == old(self).function_breakpoints && final(self).instruction_breakpoints == old(self).instruction_breakpoints,
    { unimplemented!() }
    #[verifier::external_body]
    fn drain_events(&mut self) -> (r: Result<(), AnyErr>)
        ensures final(self).breakpoints_by_source == old(self).breakpoints_by_source && final(self).dbg == old(self).dbg && final(self).function_breakpoints == old(self).function_breakpoints && final(self).instruction_breakpoints == old(self).instruction_breakpoints,
    { unimplemented!() }

    /// progress reporting of the function handler (events only)
    #[verifier::external_body]
    fn outline_progress_start(&mut self, n: usize) -> (r: Option<ProgressId>)
        ensures final(self).breakpoints_by_source == old(self).breakpoints_by_source && final(self).dbg == old(self).dbg && final(self).function_breakpoints == old(self).function_breakpoints && final(self).instruction_breakpoints == old(self).instruction_breakpoints,
    { unimplemented!() }
    #[verifier::external_body]
    fn outline_progress_end(&mut self, id: ProgressId, n: usize)
        ensures final(self).breakpoints_by_source == old(self).breakpoints_by_source && final(self).dbg == old(self).dbg && final(self).function_breakpoints == old(self).function_breakpoints && final(self).instruction_breakpoints == old(self).instruction_breakpoints,
    { unimplemented!() }

//@ extract: impl DebugSession / fn handle_set_instruction_breakpoints
//@   sig: pub fn handle_set_instruction_breakpoints(&mut self, req: &DapRequest) -> (r: Result<(), AnyErr>)
//@   ensures E_i_replaced_set: r is Ok ==> final(self).dbg.removed@ == old(self).dbg.removed@ + old(self).instruction_breakpoints@
//@   ensures E_i_other_kinds: r is Ok ==> final(self).function_breakpoints == old(self).function_breakpoints && final(self).breakpoints_by_source == old(self).breakpoints_by_source
//@   outline O_take: `std::mem::take(&mut self.instruction_breakpoints)` => `outline_take_vec(&mut self.instruction_breakpoints)`
//@   outline O_bps: `req .arguments .get("breakpoints") .and_then(|v| v.as_array()) .cloned() .unwrap_or_default()` => `outline_requested(req)`
//@   outline O_dbg: `self .debugger .as_mut() .ok_or_else(|| anyhow!($m))?` => `self.outline_debugger()?`
//@   outline O_rm: `for record in prev { $stmts_a }` => `outline_remove_prev(dbg, prev, &mut pending_events);`
//@   outline O_clo: `let mut alloc_id = || { $stmts_x };` => ``
//@   outline O_new: `for bp in bps { $stmts_b }` => `outline_install_new2(dbg, bps, &mut next_id, &mut new_breakpoints, &mut rsp_bps, &mut pending_events);`
//@   outline O_enq: `for event in pending_events { $stmts_c }` => `self.outline_enqueue_all(pending_events);`
//@   outline O_json: `json!({"breakpoints": rsp_bps})` => `outline_json_body(rsp_bps)`
//@ end

//@ extract: impl DebugSession / fn handle_set_function_breakpoints
//@   sig: pub fn handle_set_function_breakpoints(&mut self, req: &DapRequest) -> (r: Result<(), AnyErr>)
//@   ensures E_f_replaced_set: r is Ok ==> final(self).dbg.removed@ == old(self).dbg.removed@ + old(self).function_breakpoints@
//@   ensures E_f_other_kinds: r is Ok ==> final(self).instruction_breakpoints == old(self).instruction_breakpoints && final(self).breakpoints_by_source == old(self).breakpoints_by_source
//@   outline O_take: `std::mem::take(&mut self.function_breakpoints)` => `outline_take_vec(&mut self.function_breakpoints)`
//@   outline O_bps: `req .arguments .get("breakpoints") .and_then(|v| v.as_array()) .cloned() .unwrap_or_default()` => `outline_requested(req)`
//@   outline O_prog: `if bps.is_empty() { None } else { Some(self.enqueue_progress_start( $p )) }` => `self.outline_progress_start(bps_len)`
//@   outline O_dbg: `self .debugger .as_mut() .ok_or_else(|| anyhow!($m))?` => `self.outline_debugger()?`
//@   outline O_rm: `for record in prev { $stmts_a }` => `outline_remove_prev(dbg, prev, &mut pending_events);`
//@   outline O_clo: `let mut alloc_id = || { $stmts_x };` => ``
//@   outline O_new: `for bp in bps { $stmts_b }` => `outline_install_new2(dbg, bps, &mut next_id, &mut new_breakpoints, &mut rsp_bps, &mut pending_events);`
//@   outline O_enq: `for event in pending_events { $stmts_c }` => `self.outline_enqueue_all(pending_events);`
//@   outline O_pend: `self.enqueue_progress_update( $u ); self.enqueue_progress_end( $e );` => `self.outline_progress_end(progress_id, bps_len);`
//@   outline O_json: `json!({"breakpoints": rsp_bps})` => `outline_json_body(rsp_bps)`
//@ end

//@ extract: impl DebugSession / fn handle_set_breakpoints
//@   sig: pub fn handle_set_breakpoints(&mut self, req: &DapRequest) -> (r: Result<(), AnyErr>)
//@   requires R_keys: obeys_key_model::<PathStr>()
//@   ensures E_replaced_set: r is Ok ==> final(self).dbg.removed@ == old(self).dbg.removed@ + records_under(old(self), map_path(client_path_of(req)))
//@   ensures E_stored_key: r is Ok ==> final(self).breakpoints_by_source@.contains_key(map_path(client_path_of(req)))
//@   ensures E_other_keys: r is Ok ==> forall|k: PathStr| k != map_path(client_path_of(req)) ==> (#[trigger] final(self).breakpoints_by_source@.contains_key(k) <==> old(self).breakpoints_by_source@.contains_key(k))
//@   proof begin: broadcast use group_hash_axioms;
//@   outline O_path: `req .arguments .get("source") .and_then(|s| s.get("path")) .and_then(|p| p.as_str()) .ok_or_else(|| anyhow!("setBreakpoints: missing arguments.source.path"))? .to_string()` => `outline_client_path(req)?`
//@   outline O_prev: `self .breakpoints_by_source .remove(&$k) .unwrap_or_default()` => `outline_take_records(&mut self.breakpoints_by_source, &$k)`
//@   outline O_bps: `req .arguments .get("breakpoints") .and_then(|v| v.as_array()) .cloned() .unwrap_or_default()` => `outline_requested(req)`
//@   outline O_dbg: `self .debugger .as_mut() .ok_or_else(|| anyhow!($m))?` => `self.outline_debugger()?`
//@   outline O_rm: `for record in prev { $stmts_a }` => `outline_remove_prev(dbg, prev, &mut pending_events);`
//@   outline O_new: `for bp in bps { $stmts_b }` => `outline_install_new(dbg, bps, &source_path, &client_source_path, &mut next_id, &mut new_breakpoints, &mut rsp_bps, &mut pending_events);`
//@   outline O_enq: `for event in pending_events { $stmts_c }` => `self.outline_enqueue_all(pending_events);`
//@   outline O_json: `json!({"breakpoints": rsp_bps})` => `outline_json_body(rsp_bps)`
//@ end
}

} // verus!
fn main() {}
