//@ unit: C04.lines
//@ props: C04 C08
//@ implicit: C08
//@ source: src/debugger/debugee/dwarf/unit/mod.rs
//@ fn: BsUnit::find_place_by_idx, BsUnit::find_place_by_pc, BsUnit::find_exact_place_by_pc, BsUnit::find_eb, PlaceDescriptor::from, PlaceDescriptor::next, PlaceDescriptor::prev, LineRow::{is_stmt,prolog_end,epilog_begin,end_sequence}
//@ shim: src/debugger/debugee/dwarf/unit/mod.rs :: struct LineRow :: address: u64, file_index: u64, line: u64, column: u64, flags: u8
//@ shim: src/debugger/debugee/dwarf/unit/mod.rs :: struct BsUnit :: lines: Vec<LineRow>
//@ shim: src/debugger/debugee/dwarf/unit/mod.rs :: struct PlaceDescriptor :: file_idx: u64, address: GlobalAddress, line_number: u64, pos_in_unit: usize, is_stmt: bool, column_number: u64, epilog_begin: bool, end_sequence: bool, prolog_end: bool, unit: &'a BsUnit
//@ assume: BsUnit.lines is sorted by address (established by `lines.sort_unstable_by_key(|x| x.address)` in DwarfUnitParser::parse; std sort contract assumed)
//@ assume: PlaceDescriptor.file (`unit.files.get(file_index).expect(..)`) is dropped from the shim: the `expect` on a file index outside the unit's file table is NOT covered
//@ notcovered: find_closest_place (line -> rows), one breakpoint per instantiation, the line+1 fallback, comparison with an independent DWARF reader
use vstd::prelude::*;
verus! {
//@ include: prelude.rs

pub const IS_STMT: u8 = 2;
pub const PROLOG_END: u8 = 4;
pub const EPILOG_BEGIN: u8 = 8;
pub const END_SEQUENCE: u8 = 16;

#[derive(Clone, Copy)]
pub struct GlobalAddress(pub usize);

pub struct LineRow {
    pub address: u64,
    pub file_index: u64,
    pub line: u64,
    pub column: u64,
    pub flags: u8,
}

pub struct BsUnit {
    pub lines: Vec<LineRow>,
}

pub struct PlaceDescriptor<'a> {
    pub file_idx: u64,
    pub address: GlobalAddress,
    pub line_number: u64,
    pub pos_in_unit: usize,
    pub is_stmt: bool,
    pub column_number: u64,
    pub epilog_begin: bool,
    pub end_sequence: bool,
    pub prolog_end: bool,
    pub unit: &'a BsUnit,
}

pub open spec fn addrs(u: &BsUnit) -> Seq<u64> {
    Seq::new(u.lines@.len(), |i: int| u.lines@[i].address)
}

pub open spec fn wf_lines(u: &BsUnit) -> bool {
    forall|i: int, j: int| 0 <= i <= j < u.lines@.len() ==> #[trigger] adr(u, i) <= #[trigger] adr(u, j)
}

pub open spec fn adr(u: &BsUnit, k: int) -> u64 { u.lines@[k].address }
pub open spec fn is_eb(u: &BsUnit, k: int) -> bool { u.lines@[k].flags & 8 == 8 }

/// the descriptor `p` describes row `i` of unit `u`
pub open spec fn describes(p: PlaceDescriptor, u: &BsUnit, i: int) -> bool {
    &&& 0 <= i < u.lines@.len()
    &&& p.pos_in_unit == i
    &&& p.unit == u
    &&& p.address.0 == u.lines@[i].address
    &&& p.file_idx == u.lines@[i].file_index
    &&& p.line_number == u.lines@[i].line
    &&& p.column_number == u.lines@[i].column
    &&& p.is_stmt == (u.lines@[i].flags & 2 == 2)
    &&& p.prolog_end == (u.lines@[i].flags & 4 == 4)
    &&& p.epilog_begin == (u.lines@[i].flags & 8 == 8)
    &&& p.end_sequence == (u.lines@[i].flags & 16 == 16)
}

// ---- assumed contracts on std / conversions (outlined expressions; bodies are the verbatim source text)
#[verifier::external_body]
pub fn outline_ga_from_u64(a: u64) -> (r: GlobalAddress)
    ensures r.0 == a,
{
    GlobalAddress(a as usize)
}

#[verifier::external_body]
pub fn outline_u64_from_ga(a: GlobalAddress) -> (r: u64)
    ensures r == a.0,
{
    a.0 as u64
}

impl LineRow {
//@ extract: impl LineRow / fn is_stmt
//@   ret: r
//@   ensures E_is_stmt: r == (self.flags & 2 == 2)
//@ end
//@ extract: impl LineRow / fn prolog_end
//@   ret: r
//@   ensures E_prolog_end: r == (self.flags & 4 == 4)
//@ end
//@ extract: impl LineRow / fn epilog_begin
//@   ret: r
//@   ensures E_epilog_begin: r == (self.flags & 8 == 8)
//@ end
//@ extract: impl LineRow / fn end_sequence
//@   ret: r
//@   ensures E_end_sequence: r == (self.flags & 16 == 16)
//@ end
}

impl<'a> PlaceDescriptor<'a> {
//@ extract: impl From<(&'a BsUnit, usize, &LineRow)> for PlaceDescriptor<'a> / fn from
//@   sig: pub fn from_parts(unit: &'a BsUnit, pos_in_unit: usize, line_row: &LineRow) -> (r: Self)
//@   requires R_from: 0 <= pos_in_unit < unit.lines@.len() && *line_row == unit.lines@[pos_in_unit as int]
//@   ensures E_from: describes(r, unit, pos_in_unit as int)
//@   rewrite W_file: `file: unit .files .get(line_row.file_index as usize) .expect("file should exists"),` => ``
//@   outline O_into: `line_row.address.into()` => `outline_ga_from_u64(line_row.address)`
//@ end

//@ extract: impl PlaceDescriptor<'a> / fn next
//@   ret: r
//@   requires R_next: self.pos_in_unit < usize::MAX
//@   ensures E_next1: r.is_some() <==> self.pos_in_unit + 1 < self.unit.lines@.len()
//@   ensures E_next2: r.is_some() ==> describes(r.unwrap(), self.unit, self.pos_in_unit + 1)
//@ end

//@ extract: impl PlaceDescriptor<'a> / fn prev
//@   ret: r
//@   ensures E_prev1: r.is_some() <==> (self.pos_in_unit >= 1 && self.pos_in_unit - 1 < self.unit.lines@.len())
//@   ensures E_prev2: r.is_some() ==> describes(r.unwrap(), self.unit, self.pos_in_unit - 1)
//@ end
}

impl BsUnit {
    #[verifier::external_body]
    pub fn outline_bsearch_prev(&self, pc: u64) -> (pos: usize)
        requires wf_lines(self),
        ensures
            // std: binary_search_by_key returns Ok(i) with key(i) == pc, or Err(i) = insertion point;
            // unwrap_or_else(|p| p.saturating_sub(1)) maps Err(i) to max(i,1)-1
            self.lines@.len() == 0 ==> pos == 0,
            self.lines@.len() > 0 ==> pos < self.lines@.len(),
            (exists|k: int| 0 <= k < self.lines@.len() && #[trigger] adr(self, k) == pc) ==> adr(self, pos as int) == pc,
            !(exists|k: int| 0 <= k < self.lines@.len() && #[trigger] adr(self, k) == pc) && self.lines@.len() > 0 ==> {
                &&& (adr(self, pos as int) < pc || pos == 0)
                &&& forall|k: int| pos < k < self.lines@.len() ==> #[trigger] adr(self, k) > pc
                &&& (pos == 0 && adr(self, 0) > pc ==> forall|k: int| 0 <= k < self.lines@.len() ==> #[trigger] adr(self, k) > pc)
            },
    {
        //@ verbatim: O_bsearch_prev
    }

    #[verifier::external_body]
    pub fn outline_bsearch(&self, pc: u64) -> (r: Result<usize, usize>)
        requires wf_lines(self),
        ensures
            match r {
                Ok(p) => p < self.lines@.len() && adr(self, p as int) == pc,
                Err(p) => p <= self.lines@.len()
                    && (forall|k: int| 0 <= k < p ==> #[trigger] adr(self, k) < pc)
                    && (forall|k: int| p <= k < self.lines@.len() ==> #[trigger] adr(self, k) > pc),
            },
    {
        //@ verbatim: O_bsearch
    }

//@ extract: impl BsUnit / fn find_place_by_idx
//@   ret: r
//@   ensures E_idx1: r.is_some() <==> line_pos < self.lines@.len()
//@   ensures E_idx2: r.is_some() ==> describes(r.unwrap(), self, line_pos as int)
//@   rewrite W_into: `(self, line_pos, line).into()` => `PlaceDescriptor::from_parts(self, line_pos, line)`
//@ end

//@ extract: impl BsUnit / fn find_place_by_pc
//@   ret: r
//@   requires R_sorted: wf_lines(self)
//@   ensures E_pc0: r.is_some() <==> self.lines@.len() > 0
//@   ensures E_pc1: r.is_some() ==> describes(r.unwrap(), self, r.unwrap().pos_in_unit as int)
//@   ensures E_pc2: r.is_some() && (exists|k: int| 0 <= k < self.lines@.len() && #[trigger] adr(self, k) <= pc.0) ==> adr(self, r.unwrap().pos_in_unit as int) <= pc.0
//@   ensures E_pc3: r.is_some() ==> forall|k: int| 0 <= k < self.lines@.len() && #[trigger] adr(self, k) <= pc.0 ==> adr(self, k) <= adr(self, r.unwrap().pos_in_unit as int)
//@   outline O_u64: `u64::from(pc)` => `outline_u64_from_ga(pc)`
//@   outline O_bsearch_prev: `self .lines .binary_search_by_key(&pc, |line| line.address) .unwrap_or_else(|p| p.saturating_sub(1))` => `self.outline_bsearch_prev(pc)`
//@ end

//@ extract: impl BsUnit / fn find_eb
//@   ret: r
//@   requires R_sorted: wf_lines(self)
//@   ensures E_eb1: r.is_some() ==> describes(r.unwrap(), self, r.unwrap().pos_in_unit as int) && r.unwrap().epilog_begin && r.unwrap().pos_in_unit >= 1
//@   ensures E_eb2: r.is_some() && (exists|k: int| 0 <= k < self.lines@.len() && #[trigger] adr(self, k) <= pc.0) ==> adr(self, r.unwrap().pos_in_unit as int) <= pc.0
//@   ensures E_eb3: r.is_some() ==> forall|k: int, j: int| r.unwrap().pos_in_unit < k < j < self.lines@.len() && #[trigger] adr(self, k) < #[trigger] adr(self, j) <= pc.0 ==> !#[trigger] is_eb(self, k)
//@   ensures E_eb4: r.is_none() ==> forall|k: int, j: int| 1 <= k < j < self.lines@.len() && #[trigger] adr(self, k) < #[trigger] adr(self, j) <= pc.0 ==> !#[trigger] is_eb(self, k)
//@   outline O_u64: `u64::from(pc)` => `outline_u64_from_ga(pc)`
//@   outline O_bsearch_prev: `self .lines .binary_search_by_key(&pc, |line| line.address) .unwrap_or_else(|p| p.saturating_sub(1))` => `self.outline_bsearch_prev(pc)`
//@   proof before `let pc = u64::from(pc);`: let ghost pc_arg = pc;
//@   proof after `.unwrap_or_else(|p| p.saturating_sub(1));`: let ghost pos0 = pos;
//@   loop 0 invariant I_ebp: pc == pc_arg.0
//@   loop 0 invariant I_eb0: wf_lines(self)
//@   loop 0 invariant I_eb1: pos <= pos0 && (pos0 < self.lines@.len() || pos0 == 0)
//@   loop 0 invariant I_eb2: forall|k: int| pos < k <= pos0 ==> !#[trigger] is_eb(self, k)
//@   loop 0 invariant I_eb3: (exists|k: int| 0 <= k < self.lines@.len() && #[trigger] adr(self, k) <= pc) ==> adr(self, pos0 as int) <= pc
//@   loop 0 invariant I_eb4: forall|j: int| pos0 < j < self.lines@.len() && #[trigger] adr(self, j) <= pc ==> adr(self, j) == adr(self, pos0 as int)
//@   loop 0 decreases: pos
//@ end

//@ extract: impl BsUnit / fn find_exact_place_by_pc
//@   ret: r
//@   requires R_sorted: wf_lines(self)
//@   ensures E_ex1: r.is_some() <==> (exists|k: int| 0 <= k < self.lines@.len() && #[trigger] adr(self, k) == pc.0)
//@   ensures E_ex2: r.is_some() ==> describes(r.unwrap(), self, r.unwrap().pos_in_unit as int) && adr(self, r.unwrap().pos_in_unit as int) == pc.0
//@   ensures E_ex3: r.is_some() ==> forall|k: int| 0 <= k < r.unwrap().pos_in_unit ==> #[trigger] adr(self, k) != pc.0
//@   outline O_u64: `u64::from(pc)` => `outline_u64_from_ga(pc)`
//@   outline O_bsearch: `self.lines.binary_search_by_key(&pc, |line| line.address)` => `self.outline_bsearch(pc)`
//@   loop 0 invariant I_ex1: p < self.lines@.len() && adr(self, p as int) == pc
//@   proof before `self.find_place_by_idx(p)`: assert(p > 0 ==> adr(self, p - 1) != pc);
//@   loop 0 decreases: p
//@ end
}

} // verus!
fn main() {}
