//@ unit: C04.lines
//@ props: C04 C08
//@ implicit: C08
//@ source: src/debugger/debugee/dwarf/unit/mod.rs
//@ fn: DebugInformation::find_closest_place (per-unit row selection loop), BsUnit::line, FatDieRef<Function>::prolog_end_place, BsUnit::find_lines_for_range, BsUnit::find_place_by_idx, BsUnit::find_place_by_pc, BsUnit::find_exact_place_by_pc, BsUnit::find_eb, PlaceDescriptor::from, PlaceDescriptor::next, PlaceDescriptor::prev, LineRow::{is_stmt,prolog_end,epilog_begin,end_sequence}
//@ shim: src/debugger/debugee/dwarf/unit/mod.rs :: struct LineRow :: address: u64, file_index: u64, line: u64, column: u64, flags: u8
//@ shim: src/debugger/debugee/dwarf/unit/mod.rs :: struct BsUnit :: lines: Vec<LineRow>
//@ shim: src/debugger/debugee/dwarf/unit/mod.rs :: struct PlaceDescriptor :: file_idx: u64, address: GlobalAddress, line_number: u64, pos_in_unit: usize, is_stmt: bool, column_number: u64, epilog_begin: bool, end_sequence: bool, prolog_end: bool, unit: &'a BsUnit
//@ assume: the contracts of the outlined binary-search expressions are validated (bounded: <= 4 rows) by the Kani units C04.outline.* on the verbatim expression text
//@ assume: BsUnit.lines is sorted by address (established by `lines.sort_unstable_by_key(|x| x.address)` in DwarfUnitParser::parse; std sort contract assumed)
//@ assume: PlaceDescriptor.file (`unit.files.get(file_index).expect(..)`) is dropped from the shim: the `expect` on a file index outside the unit's file table is NOT covered
//@ notcovered: the outer loops of find_closest_place (file index lookup, line+1 fallback, one breakpoint per subprogram via HashSet), comparison with an independent DWARF reader
use vstd::prelude::*;
verus! {
//@ include: prelude.rs

//@ const: src/debugger/debugee/dwarf/unit/mod.rs :: IS_STMT
//@ const: src/debugger/debugee/dwarf/unit/mod.rs :: PROLOG_END
//@ const: src/debugger/debugee/dwarf/unit/mod.rs :: EPILOG_BEGIN
//@ const: src/debugger/debugee/dwarf/unit/mod.rs :: END_SEQUENCE

#[derive(Clone, Copy)]
pub struct GlobalAddress(pub usize);

pub struct LineRow {
    pub address: u64,
    pub file_index: u64,
    pub line: u64,
    pub column: u64,
    pub flags: u8,
}

pub struct BsUnit {
    pub lines: Vec<LineRow>,
}

pub struct PlaceDescriptor<'a> {
    pub file_idx: u64,
    pub address: GlobalAddress,
    pub line_number: u64,
    pub pos_in_unit: usize,
    pub is_stmt: bool,
    pub column_number: u64,
    pub epilog_begin: bool,
    pub end_sequence: bool,
    pub prolog_end: bool,
    pub unit: &'a BsUnit,
}

pub open spec fn addrs(u: &BsUnit) -> Seq<u64> {
    Seq::new(u.lines@.len(), |i: int| u.lines@[i].address)
}

pub open spec fn wf_lines(u: &BsUnit) -> bool {
    forall|i: int, j: int| 0 <= i <= j < u.lines@.len() ==> #[trigger] adr(u, i) <= #[trigger] adr(u, j)
}

pub open spec fn adr(u: &BsUnit, k: int) -> u64 { u.lines@[k].address }
pub open spec fn is_eb(u: &BsUnit, k: int) -> bool { u.lines@[k].flags & 8 == 8 }

/// the descriptor `p` describes row `i` of unit `u`
pub open spec fn describes(p: PlaceDescriptor, u: &BsUnit, i: int) -> bool {
    &&& 0 <= i < u.lines@.len()
    &&& p.pos_in_unit == i
    &&& p.unit == u
    &&& p.address.0 == u.lines@[i].address
    &&& p.file_idx == u.lines@[i].file_index
    &&& p.line_number == u.lines@[i].line
    &&& p.column_number == u.lines@[i].column
    &&& p.is_stmt == (u.lines@[i].flags & 2 == 2)
    &&& p.prolog_end == (u.lines@[i].flags & 4 == 4)
    &&& p.epilog_begin == (u.lines@[i].flags & 8 == 8)
    &&& p.end_sequence == (u.lines@[i].flags & 16 == 16)
}

// ---- assumed contracts on std / conversions (outlined expressions; bodies are the verbatim source text)
#[verifier::external_body]
pub fn outline_ga_from_u64(a: u64) -> (r: GlobalAddress)
    ensures r.0 == a,
{
    GlobalAddress(a as usize)
}

#[verifier::external_body]
pub fn outline_u64_from_ga(a: GlobalAddress) -> (r: u64)
    ensures r == a.0,
{
    a.0 as u64
}

impl LineRow {
//@ extract: impl LineRow / fn is_stmt
//@   ret: r
//@   proof before `self.flags & IS_STMT`: assert(IS_STMT == 2) by (compute);
//@   ensures E_is_stmt: r == (self.flags & 2 == 2)
//@ end
//@ extract: impl LineRow / fn prolog_end
//@   ret: r
//@   proof before `self.flags & PROLOG_END`: assert(PROLOG_END == 4) by (compute);
//@   ensures E_prolog_end: r == (self.flags & 4 == 4)
//@ end
//@ extract: impl LineRow / fn epilog_begin
//@   ret: r
//@   proof before `self.flags & EPILOG_BEGIN`: assert(EPILOG_BEGIN == 8) by (compute);
//@   ensures E_epilog_begin: r == (self.flags & 8 == 8)
//@ end
//@ extract: impl LineRow / fn end_sequence
//@   ret: r
//@   proof before `self.flags & END_SEQUENCE`: assert(END_SEQUENCE == 16) by (compute);
//@   ensures E_end_sequence: r == (self.flags & 16 == 16)
//@ end
}

/// facts the std contract gives about spec_bsearch_prev (same text as the ensures of outline_bsearch_prev)
pub open spec fn bsearch_prev_facts(u: &BsUnit, pc: u64) -> bool {
    let pos = spec_bsearch_prev(u, pc);
    &&& (u.lines@.len() == 0 ==> pos == 0)
    &&& (u.lines@.len() > 0 ==> pos < u.lines@.len())
    &&& ((exists|k: int| 0 <= k < u.lines@.len() && #[trigger] adr(u, k) == pc) ==> adr(u, pos as int) == pc)
    &&& (!(exists|k: int| 0 <= k < u.lines@.len() && #[trigger] adr(u, k) == pc) && u.lines@.len() > 0 ==> {
            &&& (adr(u, pos as int) < pc || pos == 0)
            &&& forall|k: int| pos < k < u.lines@.len() ==> #[trigger] adr(u, k) > pc
        })
}

proof fn lemma_bsearch_prev_monotone(u: &BsUnit, a: u64, b: u64)
    requires wf_lines(u), a <= b, bsearch_prev_facts(u, a), bsearch_prev_facts(u, b),
    ensures spec_bsearch_prev(u, a) <= spec_bsearch_prev(u, b),
{
    let pa = spec_bsearch_prev(u, a);
    let pb = spec_bsearch_prev(u, b);
    if a < b && u.lines@.len() > 0 && pa > pb {
        // rows are sorted: adr(pb) <= adr(pa)
        assert(adr(u, pb as int) <= adr(u, pa as int));
        if exists|k: int| 0 <= k < u.lines@.len() && #[trigger] adr(u, k) == b {
            // adr(pb) == b > a >= ... but adr(pa) <= a unless pa == 0 (then pa > pb impossible)
            if exists|k: int| 0 <= k < u.lines@.len() && #[trigger] adr(u, k) == a {
            } else {
            }
        } else {
            // every row after pb is > b > a, so pa (which is > pb) has adr > a: contradiction with the facts for a
            assert(adr(u, pa as int) > b);
        }
    }
}

impl<'a> PlaceDescriptor<'a> {
//@ extract: impl From<(&'a BsUnit, usize, &LineRow)> for PlaceDescriptor<'a> / fn from
//@   sig: pub fn from_parts(unit: &'a BsUnit, pos_in_unit: usize, line_row: &LineRow) -> (r: Self)
//@   requires R_from: 0 <= pos_in_unit < unit.lines@.len() && *line_row == unit.lines@[pos_in_unit as int]
//@   ensures E_from: describes(r, unit, pos_in_unit as int)
//@   rewrite W_file: `file: unit .files .get(line_row.file_index as usize) .expect("file should exists"),` => ``
//@   outline O_into: `line_row.address.into()` => `outline_ga_from_u64(line_row.address)`
//@ end

//@ extract: impl PlaceDescriptor<'a> / fn next
//@   ret: r
//@   requires R_next: self.pos_in_unit < usize::MAX
//@   ensures E_next1: r.is_some() <==> self.pos_in_unit + 1 < self.unit.lines@.len()
//@   ensures E_next2: r.is_some() ==> describes(r.unwrap(), self.unit, self.pos_in_unit + 1)
//@ end

//@ extract: impl PlaceDescriptor<'a> / fn prev
//@   ret: r
//@   ensures E_prev1: r.is_some() <==> (self.pos_in_unit >= 1 && self.pos_in_unit - 1 < self.unit.lines@.len())
//@   ensures E_prev2: r.is_some() ==> describes(r.unwrap(), self.unit, self.pos_in_unit - 1)
//@ end
}

/// the index std's binary_search_by_key(..).unwrap_or_else(|p| p.saturating_sub(1)) returns (it is a
/// deterministic function of the slice and the key; which of several equal keys is hit is unspecified)
pub uninterp spec fn spec_bsearch_prev(u: &BsUnit, pc: u64) -> usize;

/// gimli::Range
pub struct Range {
    pub begin: u64,
    pub end: u64,
}

impl BsUnit {
    #[verifier::external_body]
    pub fn outline_bsearch_prev(&self, pc: u64) -> (pos: usize)
        requires wf_lines(self),
        ensures
            pos == spec_bsearch_prev(self, pc),
            // std: binary_search_by_key returns Ok(i) with key(i) == pc, or Err(i) = insertion point;
            // unwrap_or_else(|p| p.saturating_sub(1)) maps Err(i) to max(i,1)-1
            self.lines@.len() == 0 ==> pos == 0,
            self.lines@.len() > 0 ==> pos < self.lines@.len(),
            (exists|k: int| 0 <= k < self.lines@.len() && #[trigger] adr(self, k) == pc) ==> adr(self, pos as int) == pc,
            !(exists|k: int| 0 <= k < self.lines@.len() && #[trigger] adr(self, k) == pc) && self.lines@.len() > 0 ==> {
                &&& (adr(self, pos as int) < pc || pos == 0)
                &&& forall|k: int| pos < k < self.lines@.len() ==> #[trigger] adr(self, k) > pc
                &&& (pos == 0 && adr(self, 0) > pc ==> forall|k: int| 0 <= k < self.lines@.len() ==> #[trigger] adr(self, k) > pc)
            },
    {
        //@ verbatim: O_bsearch_prev
    }

    #[verifier::external_body]
    pub fn outline_bsearch(&self, pc: u64) -> (r: Result<usize, usize>)
        requires wf_lines(self),
        ensures
            match r {
                Ok(p) => p < self.lines@.len() && adr(self, p as int) == pc,
                Err(p) => p <= self.lines@.len()
                    && (forall|k: int| 0 <= k < p ==> #[trigger] adr(self, k) < pc)
                    && (forall|k: int| p <= k < self.lines@.len() ==> #[trigger] adr(self, k) > pc),
            },
    {
        //@ verbatim: O_bsearch
    }

//@ extract: impl BsUnit / fn find_place_by_idx
//@   ret: r
//@   ensures E_idx1: r.is_some() <==> line_pos < self.lines@.len()
//@   ensures E_idx2: r.is_some() ==> describes(r.unwrap(), self, line_pos as int)
//@   rewrite W_into: `(self, line_pos, line).into()` => `PlaceDescriptor::from_parts(self, line_pos, line)`
//@ end

//@ extract: impl BsUnit / fn find_place_by_pc
//@   ret: r
//@   requires R_sorted: wf_lines(self)
//@   ensures E_pc0: r.is_some() <==> self.lines@.len() > 0
//@   ensures E_pc1: r.is_some() ==> describes(r.unwrap(), self, r.unwrap().pos_in_unit as int) && r.unwrap().pos_in_unit == spec_bsearch_prev(self, pc.0 as u64)
//@   ensures E_pc4: wf_lines(self) ==> bsearch_prev_facts(self, pc.0 as u64)
//@   ensures E_pc2: r.is_some() && (exists|k: int| 0 <= k < self.lines@.len() && #[trigger] adr(self, k) <= pc.0) ==> adr(self, r.unwrap().pos_in_unit as int) <= pc.0
//@   ensures E_pc3: r.is_some() ==> forall|k: int| 0 <= k < self.lines@.len() && #[trigger] adr(self, k) <= pc.0 ==> adr(self, k) <= adr(self, r.unwrap().pos_in_unit as int)
//@   outline O_u64: `u64::from(pc)` => `outline_u64_from_ga(pc)`
//@   outline O_bsearch_prev: `self .lines .binary_search_by_key($k, $f) .unwrap_or_else($g)` => `self.outline_bsearch_prev(pc)`
//@ end

//@ extract: impl BsUnit / fn find_eb
//@   ret: r
//@   requires R_sorted: wf_lines(self)
//@   ensures E_eb1: r.is_some() ==> describes(r.unwrap(), self, r.unwrap().pos_in_unit as int) && r.unwrap().epilog_begin && r.unwrap().pos_in_unit >= 1
//@   ensures E_eb2: r.is_some() && (exists|k: int| 0 <= k < self.lines@.len() && #[trigger] adr(self, k) <= pc.0) ==> adr(self, r.unwrap().pos_in_unit as int) <= pc.0
//@   ensures E_eb3: r.is_some() ==> forall|k: int, j: int| r.unwrap().pos_in_unit < k < j < self.lines@.len() && #[trigger] adr(self, k) < #[trigger] adr(self, j) <= pc.0 ==> !#[trigger] is_eb(self, k)
//@   ensures E_eb4: r.is_none() ==> forall|k: int, j: int| 1 <= k < j < self.lines@.len() && #[trigger] adr(self, k) < #[trigger] adr(self, j) <= pc.0 ==> !#[trigger] is_eb(self, k)
//@   outline O_u64: `u64::from(pc)` => `outline_u64_from_ga(pc)`
//@   outline O_bsearch_prev: `self .lines .binary_search_by_key($k, $f) .unwrap_or_else($g)` => `self.outline_bsearch_prev(pc)`
//@   proof before `let pc = u64::from(pc);`: let ghost pc_arg = pc;
//@   proof before `while pos > 0`: let ghost pos0 = pos;
//@   loop 0 invariant I_ebp: pc == pc_arg.0
//@   loop 0 invariant I_eb0: wf_lines(self)
//@   loop 0 invariant I_eb1: pos <= pos0 && (pos0 < self.lines@.len() || pos0 == 0)
//@   loop 0 invariant I_eb2: forall|k: int| pos < k <= pos0 ==> !#[trigger] is_eb(self, k)
//@   loop 0 invariant I_eb3: (exists|k: int| 0 <= k < self.lines@.len() && #[trigger] adr(self, k) <= pc) ==> adr(self, pos0 as int) <= pc
//@   loop 0 invariant I_eb4: forall|j: int| pos0 < j < self.lines@.len() && #[trigger] adr(self, j) <= pc ==> adr(self, j) == adr(self, pos0 as int)
//@   loop 0 decreases: pos
//@ end

//@ extract: impl BsUnit / fn find_exact_place_by_pc
//@   ret: r
//@   requires R_sorted: wf_lines(self)
//@   ensures E_ex1: r.is_some() <==> (exists|k: int| 0 <= k < self.lines@.len() && #[trigger] adr(self, k) == pc.0)
//@   ensures E_ex2: r.is_some() ==> describes(r.unwrap(), self, r.unwrap().pos_in_unit as int) && adr(self, r.unwrap().pos_in_unit as int) == pc.0
//@   ensures E_ex3: r.is_some() ==> forall|k: int| 0 <= k < r.unwrap().pos_in_unit ==> #[trigger] adr(self, k) != pc.0
//@   outline O_u64: `u64::from(pc)` => `outline_u64_from_ga(pc)`
//@   outline O_bsearch: `self.lines.binary_search_by_key($k, $f)` => `self.outline_bsearch(pc)`
//@   loop 0 invariant I_ex1: p < self.lines@.len() && adr(self, p as int) == pc
//@   proof before `self.find_place_by_idx(p)`: assert(p > 0 ==> adr(self, p - 1) != pc);
//@   loop 0 decreases: p
//@ end

//@ extract: impl BsUnit / fn find_lines_for_range
//@   ret: r
//@   requires R_sorted: wf_lines(self)
//@   requires R_range: range.begin < range.end
//@   ensures E_lr1: forall|i: int| 0 <= i < r@.len() ==> describes(#[trigger] r@[i], self, r@[i].pos_in_unit as int)
//@   ensures E_lr2: forall|i: int, j: int| 0 <= i <= j < r@.len() ==> #[trigger] r@[i].pos_in_unit <= #[trigger] r@[j].pos_in_unit
//@   ensures E_lr3: self.lines@.len() > 0 ==> r@.len() >= 2 && r@[0].pos_in_unit == spec_bsearch_prev(self, range.begin) && r@[r@.len() - 1].pos_in_unit == spec_bsearch_prev(self, if range.end == 0 { 0u64 } else { (range.end - 1) as u64 })
//@   ensures E_lr4: self.lines@.len() > 0 ==> forall|i: int| 0 <= i < r@.len() - 1 ==> #[trigger] r@[i].pos_in_unit == r@[0].pos_in_unit + i
//@   ensures E_lr5: self.lines@.len() == 0 ==> r@.len() == 0
//@   outline O_ga: `GlobalAddress::from($x)` => `outline_ga_from_u64($x)`
//@   proof before `let result_cap`: assert(end_place.pos_in_unit >= start_place.pos_in_unit) by { lemma_bsearch_prev_monotone(self, range.begin, range_end_instr); }
//@   proof before `let result_cap`: vstd::std_specs::vec::axiom_spec_len(&self.lines);
//@   loop 0 invariant I_lr1: result@.len() == pos - start_place_pos_in_unit && start_place_pos_in_unit + 1 <= pos && (pos <= for_end_1 || pos == start_place_pos_in_unit + 1) && for_end_1 == end_place.pos_in_unit
//@   loop 0 decreases: for_end_1 - pos
//@   proof before `result.push(end_place);`: assert(forall|i: int| 0 <= i < result@.len() ==> (#[trigger] result@[i]).pos_in_unit == start_place_pos_in_unit + i && start_place_pos_in_unit + i <= end_place.pos_in_unit);
//@   loop 0 invariant I_lr2: forall|i: int| 0 <= i < result@.len() ==> describes(#[trigger] result@[i], self, start_place_pos_in_unit + i)
//@ end
}

/// a place chosen for `file:line`: a statement row of that line, taken from the file's row list
pub open spec fn ok_place(p: PlaceDescriptor, u: &BsUnit, file_lines: Seq<usize>, needle_line: u64) -> bool {
    &&& describes(p, u, p.pos_in_unit as int)
    &&& exists|k: int| 0 <= k < file_lines.len() && #[trigger] file_lines[k] == p.pos_in_unit
    &&& u.lines@[p.pos_in_unit as int].line == needle_line
    &&& u.lines@[p.pos_in_unit as int].flags & 2 == 2
}

impl BsUnit {
//@ extract: impl BsUnit / fn line
//@   ret: r
//@   requires R_line: index < self.lines@.len()
//@   ensures E_line: *r == self.lines@[index as int]
//@ end
}

//@ extract: impl DebugInformation / fn find_closest_place
//@   file: src/debugger/debugee/dwarf/mod.rs
//@   fragment: `let mut suitable_places_in_unit = vec![];` .. `i += 1; }`
//@   sig: fn closest_places_in_unit<'a>(unit: &'a BsUnit, file_lines: &Vec<usize>, needle_line: u64) -> (r: Vec<PlaceDescriptor<'a>>)
//@   tail: suitable_places_in_unit
//@   isolation: on
//@   requires R_fl: forall|k: int| 0 <= k < file_lines@.len() ==> #[trigger] file_lines@[k] < unit.lines@.len()
//@   ensures E_cl1: forall|j: int| 0 <= j < r@.len() ==> ok_place(#[trigger] r@[j], unit, file_lines@, needle_line)
//@   proof before `let mut i = 0;`: vstd::std_specs::vec::axiom_spec_len(file_lines);
//@   loop 0 invariant I_cl0: file_lines@.len() <= usize::MAX && forall|k: int| 0 <= k < file_lines@.len() ==> #[trigger] file_lines@[k] < unit.lines@.len()
//@   loop 0 invariant I_cl1: i <= file_lines@.len()
//@   loop 0 invariant I_cl2: forall|j: int| 0 <= j < suitable_places_in_unit@.len() ==> ok_place(#[trigger] suitable_places_in_unit@[j], unit, file_lines@, needle_line)
//@   loop 0 decreases: file_lines@.len() - i
//@   proof before `let mut ahead_idx = i + 1;`: let ghost i0 = i;
//@   loop 1 invariant I_cl6: file_lines@.len() <= usize::MAX && forall|k: int| 0 <= k < file_lines@.len() ==> #[trigger] file_lines@[k] < unit.lines@.len()
//@   loop 1 invariant I_cl3: i0 < ahead_idx <= file_lines@.len() && i0 < file_lines@.len()
//@   loop 1 invariant_except_break I_cl7: i == i0 && line_idx == file_lines@[i0 as int]
//@   loop 1 invariant I_cl4: next_line_row.line == needle_line && (next_line_row.flags & 2 == 2) && *next_line_row == unit.lines@[file_lines@[i0 as int] as int]
//@   loop 1 ensures I_cl5: i0 <= i < file_lines@.len() && line_idx == file_lines@[i as int] && unit.lines@[line_idx as int].line == needle_line && (unit.lines@[line_idx as int].flags & 2 == 2)
//@   loop 1 decreases: file_lines@.len() - ahead_idx
//@ end

pub struct DwarfError;
/// FatDieRef<'_, Function>: only the walk over line rows is under contract; the DIE / range access
/// (`prolog_start_place`: start_instruction + find_place_from_pc, gimli) is an external call
pub struct FatDieRefFunction<'a> {
    pub unit_ref: &'a BsUnit,
}
pub uninterp spec fn spec_prolog_start_pos(f: &FatDieRefFunction) -> int;

pub open spec fn is_pe(u: &BsUnit, k: int) -> bool { u.lines@[k].flags & 4 == 4 }

impl<'a> FatDieRefFunction<'a> {
    #[verifier::external_body]
    pub fn prolog_start_place(&self) -> (r: Result<PlaceDescriptor<'a>, DwarfError>)
        ensures r is Ok ==> describes(r->Ok_0, self.unit_ref, spec_prolog_start_pos(self)),
    {
        unimplemented!()
    }

//@ extract: impl FatDieRef<'dbg, Function> / fn prolog_end_place
//@   file: src/debugger/debugee/dwarf/unit/die_ref.rs
//@   sig: pub fn prolog_end_place(&self) -> (r: Result<PlaceDescriptor<'a>, DwarfError>)
//@   ensures E_pe1: r is Ok ==> describes(r->Ok_0, self.unit_ref, r->Ok_0.pos_in_unit as int) && r->Ok_0.pos_in_unit >= spec_prolog_start_pos(self)
//@   ensures E_pe2: r is Ok ==> (r->Ok_0.prolog_end || r->Ok_0.pos_in_unit == self.unit_ref.lines@.len() - 1)
//@   ensures E_pe3: r is Ok ==> forall|k: int| spec_prolog_start_pos(self) <= k < r->Ok_0.pos_in_unit ==> !#[trigger] is_pe(self.unit_ref, k)
//@   proof after `let mut place = self.prolog_start_place()?;`: vstd::std_specs::vec::axiom_spec_len(&self.unit_ref.lines);
//@   loop 0 invariant I_pe1: describes(place, self.unit_ref, place.pos_in_unit as int) && place.pos_in_unit >= spec_prolog_start_pos(self)
//@   loop 0 invariant I_pe2: forall|k: int| spec_prolog_start_pos(self) <= k < place.pos_in_unit ==> !#[trigger] is_pe(self.unit_ref, k)
//@   loop 0 decreases: self.unit_ref.lines@.len() - place.pos_in_unit
//@ end
}

} // verus!
fn main() {}
