//@ unit: C19.pieces
//@ props: C19
//@ implicit: C19
//@ source: src/debugger/debugee/dwarf/eval.rs
//@ fn: CompletedResult::into_raw_bytes (per-piece closure: size/offset computation, register and memory pieces)
//@ assume: `into_iter().enumerate().try_for_each(f)` applies f to every piece in order with its index (std); the closure body is spliced verbatim up to (not including) the `Location::Value` arm, the composing function closes the match with a catch-all; BytesMut::put / put_slice append exactly the bytes given (ghost length); read_register returns min(size, 8) bytes of the register shifted by `offset` (its body: RegisterMap + restore_registers_at_frame); read_memory_by_pid returns exactly `n` bytes (unit C15.read E_len)
//@ notcovered: Value / Bytes / ImplicitPointer / Empty pieces, which register number a piece names (Kani units C19.dwarf_numbers / map_from_regs), frame selection inside read_register
use vstd::prelude::*;
verus! {
//@ include: prelude.rs

pub struct DbgError;
pub type Error = DbgError;
#[derive(Clone, Copy)] pub struct Pid(pub i32);
#[derive(Clone, Copy)] pub struct Register(pub u16);
pub struct Debugee;
pub struct ExplorationContext;
impl ExplorationContext { #[verifier::external_body] pub fn pid_on_focus(&self) -> (r: Pid) { unimplemented!() } }
pub enum AddressKind { MemoryAddress, Value }
pub enum Location { Register { register: Register }, Address { address: u64 }, Other }
pub struct Piece { pub size_in_bits: Option<u64>, pub bit_offset: Option<u64>, pub location: Location }

pub struct Bytes { pub len: Ghost<nat> }
pub struct BytesMut { pub len: Ghost<nat> }
impl BytesMut {
    #[verifier::external_body]
    pub fn put(&mut self, b: Bytes) ensures final(self).len@ == old(self).len@ + b.len@, { unimplemented!() }
    /// `data.put_slice(&address.to_ne_bytes())`
    #[verifier::external_body]
    pub fn put_u64_bytes(&mut self, v: u64) ensures final(self).len@ == old(self).len@ + 8, { unimplemented!() }
}
#[verifier::external_body]
fn read_register(debugee: &Debugee, ecx: &ExplorationContext, reg: Register, size_in_bytes: usize, offset: u64) -> (r: Result<Bytes, DbgError>)
    ensures r is Ok ==> r->Ok_0.len@ == (if size_in_bytes <= 8 { size_in_bytes as nat } else { 8nat }),
{ unimplemented!() }
#[verifier::external_body]
fn outline_read_mem(pid: Pid, addr: usize, n: usize) -> (r: Result<Vec<u8>, DbgError>)
    ensures r is Ok ==> r->Ok_0@.len() == n,
{ unimplemented!() }
#[verifier::external_body]
fn outline_bytes_from(v: Vec<u8>) -> (r: Bytes) ensures r.len@ == v@.len(), { unimplemented!() }

pub open spec fn piece_size(piece: &Piece, byte_size: usize) -> nat {
    match piece.size_in_bits { Some(bits) => (bits as usize / 8) as nat, None => byte_size as nat }
}
/// `piece.size_in_bits.map(|bits| bits as usize / 8).unwrap_or(byte_size)`
#[verifier::external_body]
fn outline_read_size(piece: &Piece, byte_size: usize) -> (r: usize)
    ensures r as nat == piece_size(piece, byte_size),
{ unimplemented!() }

pub struct CompletedResult<'a> { pub debugee: &'a Debugee, pub ecx: &'a ExplorationContext }

//@ extract: impl CompletedResult / fn into_raw_bytes
//@   fragment: `let read_size = piece` .. `^Location::Value { value } =>`
//@   splice: F_piece
//@   outline O_size: `piece .size_in_bits .map(|bits| bits as usize / 8) .unwrap_or(byte_size)` => `outline_read_size(&piece, byte_size)`
//@   outline O_mem: `debugger::read_memory_by_pid( $a, $b, $c, ) .map_err(Ptrace)?` => `outline_read_mem($a, $b, $c)?`
//@   rewrite W_cap: `data_addr = Some` => `*data_addr = Some`
//@   outline O_from: `Bytes::from(memory)` => `outline_bytes_from(memory)`
//@   outline O_ne: `data.put_slice(&address.to_ne_bytes())` => `data.put_u64_bytes(address)`
//@ end

impl<'a> CompletedResult<'a> {
//@ begin_fn: src/debugger/debugee/dwarf/eval.rs :: into_raw_bytes [one piece: register / memory]
    fn piece_head(&self, i: usize, piece: Piece, byte_size: usize, address_kind: AddressKind, data: &mut BytesMut, data_addr: &mut Option<usize>) -> (r: Result<(), Error>)
        ensures
            // a register piece contributes the bytes of ITS size (capped by the register width), not of the whole value
            r is Ok && piece.location is Register ==> final(data).len@ == old(data).len@ + (if piece_size(&piece, byte_size) <= 8 { piece_size(&piece, byte_size) } else { 8nat }), /*@@E_reg_size*/
            // a memory piece reads exactly its size
            r is Ok && piece.location is Address && address_kind is MemoryAddress ==> final(data).len@ == old(data).len@ + piece_size(&piece, byte_size), /*@@E_mem_size*/
            // the address of the first piece is what is reported as the value's address
            r is Ok && piece.location is Address && i == 0 ==> *final(data_addr) == Some(piece.location->address as usize), /*@@E_first_addr*/
            !(piece.location is Address && i == 0) ==> *final(data_addr) == *old(data_addr), /*@@E_addr_frame*/
    {
        /*@@SPLICE:F_piece*/
            _ => {}
        };
        Ok(())
    }
//@ end_fn
}

} // verus!
fn main() {}
