//@ unit: C11.disable_all_frame
//@ props: C11
//@ source: src/debugger/breakpoint.rs
//@ fn: BreakpointRegistry::disable_all_breakpoints (everything around the per-breakpoint loop)
//@ assume: the per-breakpoint loop is outlined as ONE call (its body is unit C11.disable_all): it consumes the drained local map, adds templates through add_uninit only and does not touch the registry's installed table; it may leave early with the error of into_global; mem::take is outlined (moves the table out, leaves an empty one)
//@ notcovered: the loop body (C11.disable_all); what happens to the breakpoints not yet visited when into_global fails (they are dropped with the local map)
use vstd::prelude::*;
use std::collections::HashMap;
use vstd::std_specs::hash::*;
verus! {
//@ include: prelude.rs

pub struct DbgError;
pub type Error = DbgError;
#[derive(Clone, Copy, PartialEq, Eq, Hash)]
pub struct RelocatedAddress(pub u64);
pub struct Debugee;
pub struct Breakpoint { pub addr: RelocatedAddress, pub number: u32 }

pub struct BreakpointRegistry {
    /// installed (patched) breakpoints of the CURRENT process, by run-time address
    pub breakpoints: HashMap<RelocatedAddress, Breakpoint>,
    /// ghost: numbers handed to add_uninit
    pub templates: Ghost<Seq<u32>>,
}

#[verifier::external_body]
fn outline_take(m: &mut HashMap<RelocatedAddress, Breakpoint>) -> (r: HashMap<RelocatedAddress, Breakpoint>)
    ensures r@ == old(m)@, final(m)@ == Map::<RelocatedAddress, Breakpoint>::empty(),
{ unimplemented!() }

impl BreakpointRegistry {
    #[verifier::external_body]
    fn outline_loop(&mut self, breakpoints: &mut HashMap<RelocatedAddress, Breakpoint>, errors: &mut Vec<Error>, debugee: &Debugee) -> (r: Result<(), Error>)
        ensures final(self).breakpoints@ == old(self).breakpoints@,
    { unimplemented!() }

//@ extract: impl BreakpointRegistry / fn disable_all_breakpoints
//@   ensures E_installed_table_emptied: final(self).breakpoints@ == Map::<RelocatedAddress, Breakpoint>::empty()
//@   outline O_take: `std::mem::take(&mut self.breakpoints)` => `outline_take(&mut self.breakpoints)`
//@   rewrite W_loop: `for (_, brkpt) in breakpoints.drain() { $stmts_b }` => `self.outline_loop(&mut breakpoints, &mut errors, debugee)?;`
//@ end
}

} // verus!
fn main() {}
