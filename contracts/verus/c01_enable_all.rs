//@ unit: C01.enable_all
//@ props: C01
//@ source: src/debugger/breakpoint.rs
//@ fn: BreakpointRegistry::enable_all_breakpoints (per-template loop body)
//@ assume: `for (addr, uninit_brkpt) in disabled_breakpoints.drain()` visits every not-installed template once with its key (std HashMap::drain, the map was moved out of the registry with mem::take before); the loop body is spliced verbatim into `enable_one` (`continue;` -> `return;`); try_into_brkpt succeeds exactly for templates whose place is resolvable in the current process image (`resolvable`, e.g. the library is mapped) and keeps the number; HashMap::insert per vstd; add_and_enable is external (a failing ptrace patch is not modelled)
//@ notcovered: the retry when a library is loaded later (continue_execution, LinkerMapFn arm), enable_entry_breakpoint, numbers and places of the re-created breakpoints (C18.try_into_brkpt)
use vstd::prelude::*;
use std::collections::HashMap;
use vstd::std_specs::hash::*;
verus! {
//@ include: prelude.rs

pub struct DbgError;
pub type Error = DbgError;
#[derive(Clone, Copy, PartialEq, Eq, Hash)]
pub struct Address(pub u64);
pub struct Debugee;
pub struct Breakpoint { pub number: u32 }
pub struct UninitBreakpoint { pub addr: Address, pub number: u32 }
/// the template's place can be resolved in the current process image (its object is mapped)
pub uninterp spec fn resolvable(t: &UninitBreakpoint) -> bool;
impl UninitBreakpoint {
    #[verifier::external_body]
    pub fn try_into_brkpt(self, debugee: &Debugee) -> (r: Result<Breakpoint, DbgError>)
        ensures r is Ok == resolvable(&self), r is Ok ==> r->Ok_0.number == self.number,
    { unimplemented!() }
    #[verifier::external_body]
    pub fn clone(&self) -> (r: UninitBreakpoint) ensures r == *self, { unimplemented!() }
}

pub struct BreakpointRegistry {
    pub disabled_breakpoints: HashMap<Address, UninitBreakpoint>,
    /// ghost: numbers of the breakpoints handed to add_and_enable
    pub installed: Ghost<Seq<u32>>,
}

impl BreakpointRegistry {
    #[verifier::external_body]
    pub fn add_and_enable(&mut self, brkpt: Breakpoint) -> (r: Result<(), DbgError>)
        ensures final(self).installed@ == old(self).installed@.push(brkpt.number), final(self).disabled_breakpoints == old(self).disabled_breakpoints,
    { unimplemented!() }

//@ extract: impl BreakpointRegistry / fn enable_all_breakpoints
//@   fragment: `^in disabled_breakpoints.drain() {` .. `^} errors`
//@   splice: F_one
//@   rewrite W_cont: `continue;` => `return;`
//@ end

//@ begin_fn: src/debugger/breakpoint.rs :: enable_all_breakpoints [loop body for one template]
    fn enable_one(&mut self, addr: Address, uninit_brkpt: UninitBreakpoint, debugee: &Debugee, errors: &mut Vec<Error>)
        requires obeys_key_model::<Address>(), uninit_brkpt.addr == addr, !old(self).disabled_breakpoints@.contains_key(addr),
        ensures
            // "restart re-creates the process with all user breakpoints intact": a template is either installed now (and then it is
            // no longer a not-installed template: one breakpoint lives in ONE table, so removing it removes it) ...
            resolvable(&uninit_brkpt) ==> final(self).installed@ == old(self).installed@.push(uninit_brkpt.number) && !final(self).disabled_breakpoints@.contains_key(addr), /*@@E_installed*/
            // ... or, when its code is not mapped yet (a library loaded later with dlopen), it STAYS registered as a not-installed breakpoint
            !resolvable(&uninit_brkpt) ==> final(self).disabled_breakpoints@.contains_key(addr) && final(self).disabled_breakpoints@[addr] == uninit_brkpt && final(self).installed@ == old(self).installed@, /*@@E_kept*/
    {
        broadcast use group_hash_axioms;
        /*@@SPLICE:F_one*/
    }
//@ end_fn
}

} // verus!
fn main() {}
