//@ unit: C18.try_into_brkpt
//@ props: C18
//@ source: src/debugger/breakpoint.rs
//@ fn: UninitBreakpoint::try_into_brkpt, RelocatedAddress::into_global, GlobalAddress::relocate_to_segment, RequirementsResolver::relocation_addr
//@ shim: src/debugger/breakpoint.rs :: struct UninitBreakpoint :: addr: Address, pid: Pid, number: u32, place: Option<PlaceDescriptorOwned>, r#type: BrkptType, debug_info_file: Option<PathBuf>
//@ assume: load model: every mapped object has one load offset `off(obj)`; `obj_of(a)` is the object whose region contains the run-time address a (DwarfRegistry::find_range: unit C18.find_range); Debugee::mapping_offset_for_pc(a) = off(obj_of(a)), mapping_offset_for_file(d) = off(d.id), debug_info(a).id = obj_of(a), program_debug_info().id = MAIN, debug_info_from_file(p).id = file_obj(p); remove_vas_region_offset / relocate are exact subtraction / addition (Kani unit C18.reloc)
//@ assume: recorded precondition R_above: a run-time address is not below the load offset of its object (Verus lemma C18.find_range: offset <= address)
//@ assume: (relocation_addr) DW_OP_addr operands of a location expression are link-time addresses of the object whose code is executing: they must be relocated with the load offset of the object that contains the focus pc
//@ notcovered: place lookup for the new breakpoint (find_place_from_pc: C04 units), Breakpoint::new_inner, which templates are created before start, the deferred retry
use vstd::prelude::*;
verus! {
//@ include: prelude.rs

pub struct DbgError;
pub type Error = DbgError;
#[derive(Clone, Copy, PartialEq, Eq)]
pub struct RelocatedAddress(pub usize);
#[derive(Clone, Copy, PartialEq, Eq)]
pub struct GlobalAddress(pub usize);
pub enum Address { Relocated(RelocatedAddress), Global(GlobalAddress) }
#[derive(Clone, Copy)]
pub struct Pid(pub i32);
pub struct PlaceDescriptorOwned;
pub struct PathBuf(pub u64);
pub enum BrkptType { EntryPoint, UserDefined, Other }

pub type ObjId = int;
pub uninterp spec fn obj_of(a: usize) -> ObjId;
pub uninterp spec fn off(o: ObjId) -> usize;
pub uninterp spec fn file_obj(p: u64) -> ObjId;
pub uninterp spec fn main_obj() -> ObjId;

pub struct DebugInformation { pub id: Ghost<ObjId> }
pub struct Debugee;

impl Debugee {
    #[verifier::external_body]
    pub fn mapping_offset_for_pc(&self, pc: RelocatedAddress) -> (r: Result<usize, DbgError>)
        ensures r is Ok ==> r->Ok_0 == off(obj_of(pc.0)),
    { unimplemented!() }
    #[verifier::external_body]
    pub fn mapping_offset_for_file(&self, d: &DebugInformation) -> (r: Result<usize, DbgError>)
        ensures r is Ok ==> r->Ok_0 == off(d.id@),
    { unimplemented!() }
    #[verifier::external_body]
    pub fn program_debug_info(&self) -> (r: Result<&DebugInformation, DbgError>)
        ensures r is Ok ==> r->Ok_0.id@ == main_obj(),
    { unimplemented!() }
    #[verifier::external_body]
    pub fn debug_info_from_file(&self, p: &PathBuf) -> (r: Result<&DebugInformation, DbgError>)
        ensures r is Ok ==> r->Ok_0.id@ == file_obj(p.0),
    { unimplemented!() }
}

/// `rel_addr.and_then(|addr| debugee.debug_info(addr).ok())`
#[verifier::external_body]
fn outline_debug_info_of(debugee: &Debugee, rel_addr: Option<RelocatedAddress>) -> (r: Option<&DebugInformation>)
    ensures r is Some ==> rel_addr is Some && r->Some_0.id@ == obj_of(rel_addr->Some_0.0),
{ unimplemented!() }
/// `x.ok()`
#[verifier::external_body]
fn outline_ok<'a>(x: Result<&'a DebugInformation, DbgError>) -> (r: Option<&'a DebugInformation>)
    ensures r is Some == x is Ok, r is Some ==> r->Some_0 == x->Ok_0,
{ unimplemented!() }
#[verifier::external_body]
fn outline_some_or_err<'a>(x: Option<&'a DebugInformation>) -> (r: Result<&'a DebugInformation, DbgError>)
    ensures r is Ok == x is Some, r is Ok ==> r->Ok_0 == x->Some_0,
{ unimplemented!() }
#[verifier::external_body] fn outline_is_entry(t: &BrkptType) -> (r: bool) ensures r == (t is EntryPoint), { unimplemented!() }
#[verifier::external_body] fn outline_is_user(t: &BrkptType) -> (r: bool) ensures r == (t is UserDefined), { unimplemented!() }
#[verifier::external_body]
fn outline_place_of(dwarf: &DebugInformation, g: GlobalAddress) -> (r: Result<PlaceDescriptorOwned, DbgError>) { unimplemented!() }
#[verifier::external_body] fn outline_path_of(dwarf: &DebugInformation) -> (r: PathBuf) { unimplemented!() }

pub struct Breakpoint { pub addr: RelocatedAddress, pub obj: Ghost<ObjId> }
impl Breakpoint {
    #[verifier::external_body]
    pub fn new_inner(addr: RelocatedAddress, pid: Pid, number: u32, place: Option<PlaceDescriptorOwned>, ty: BrkptType, file: PathBuf) -> (r: Breakpoint)
        ensures r.addr == addr,
    { unimplemented!() }
}

impl RelocatedAddress {
    /// GlobalAddress(self.0 - offset): proved exact by the Kani unit C18.reloc
    #[verifier::external_body]
    pub fn remove_vas_region_offset(self, offset: usize) -> (r: GlobalAddress)
        requires offset <= self.0,
        ensures r.0 == self.0 - offset,
    { unimplemented!() }
//@ extract: impl RelocatedAddress / fn into_global
//@   file: src/debugger/address.rs
//@   ret: r
//@   requires R_above: off(obj_of(self.0)) <= self.0
//@   ensures E_glob: r is Ok ==> r->Ok_0.0 == self.0 - off(obj_of(self.0))
//@ end
}

impl GlobalAddress {
    /// RelocatedAddress(self.0 + offset): proved exact by the Kani unit C18.reloc
    #[verifier::external_body]
    pub fn relocate(self, offset: usize) -> (r: RelocatedAddress)
        requires self.0 + offset <= usize::MAX,
        ensures r.0 == self.0 + offset,
    { unimplemented!() }
//@ extract: impl GlobalAddress / fn relocate_to_segment
//@   file: src/debugger/address.rs
//@   ret: r
//@   requires R_fit: self.0 + off(segment.id@) <= usize::MAX
//@   ensures E_reloc: r is Ok ==> r->Ok_0.0 == self.0 + off(segment.id@)
//@ end
}

pub struct UninitBreakpoint {
    pub addr: Address,
    pub pid: Pid,
    pub number: u32,
    pub place: Option<PlaceDescriptorOwned>,
    pub r#type: BrkptType,
    pub debug_info_file: Option<PathBuf>,
}

impl UninitBreakpoint {
//@ extract: impl UninitBreakpoint / fn try_into_brkpt
//@   sig: pub fn try_into_brkpt(self, debugee: &Debugee) -> (r: Result<Breakpoint, DbgError>)
//@   requires R_above: self.addr is Relocated ==> off(obj_of(self.addr->Relocated_0.0)) <= self.addr->Relocated_0.0
//@   requires R_fit: forall|o: ObjId| (match self.addr { Address::Relocated(a) => a.0, Address::Global(g) => g.0 }) + #[trigger] off(o) <= usize::MAX
//@   ensures E_same_place: r is Ok && self.addr is Relocated && self.debug_info_file is None && !(self.r#type is EntryPoint) ==> r->Ok_0.addr == self.addr->Relocated_0
//@   ensures E_file: r is Ok && self.addr is Global && self.debug_info_file is Some ==> r->Ok_0.addr.0 == self.addr->Global_0.0 + off(file_obj(self.debug_info_file->Some_0.0))
//@   ensures E_entry: r is Ok && self.addr is Global && self.debug_info_file is None && self.r#type is EntryPoint ==> r->Ok_0.addr.0 == self.addr->Global_0.0 + off(main_obj())
//@   rewrite W_e: `self.r#type == BrkptType::EntryPoint` => `outline_is_entry(&self.r#type)`
//@   rewrite W_u: `self.r#type == BrkptType::UserDefined` => `outline_is_user(&self.r#type)`
//@   outline O_prog: `debugee.program_debug_info().ok()` => `outline_ok(debugee.program_debug_info())`
//@   outline O_of: `rel_addr.and_then(|addr| debugee.debug_info(addr).ok())` => `outline_debug_info_of(debugee, rel_addr)`
//@   outline O_file: `debugee.debug_info_from_file(&path).ok()` => `outline_ok(debugee.debug_info_from_file(&path))`
//@   outline O_err: `.ok_or(NoDebugInformation("breakpoint"))?` => `; let dwarf = outline_some_or_err(dwarf)?`
//@   outline O_place: `dwarf .find_place_from_pc(global_addr)? .ok_or(PlaceNotFound(global_addr))? .to_owned()` => `outline_place_of(dwarf, global_addr)?`
//@   outline O_path: `dwarf.pathname().into()` => `outline_path_of(dwarf)`
//@ end
}

pub struct Location { pub pc: RelocatedAddress }
pub struct ExplorationContext { pub loc: Location }
impl ExplorationContext {
    #[verifier::external_body] pub fn location(&self) -> (r: Location) ensures r.pc == self.loc.pc, { unimplemented!() }
}
pub struct RequirementsResolver<'a> { pub debugee: &'a Debugee }
impl<'a> RequirementsResolver<'a> {
//@ extract: impl RequirementsResolver / fn relocation_addr
//@   file: src/debugger/debugee/dwarf/eval.rs
//@   sig: fn relocation_addr(&self, ecx: &ExplorationContext) -> (r: Result<usize, Error>)
//@   ensures E_reloc_base: r is Ok ==> r->Ok_0 == off(obj_of(ecx.loc.pc.0))
//@ end
}

} // verus!
fn main() {}
