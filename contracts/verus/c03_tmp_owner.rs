//@ unit: C03.tmp_owner
//@ props: C03 C09
//@ implicit: C03
//@ source: src/debugger/debugee/tracer.rs
//@ fn: Tracer::apply_new_status (TRAP_BRKPT arm: who may stop at a temporary step breakpoint)
//@ assume: recorded precondition R_member: the breakpoint that trapped is one of tcx.breakpoints (it was found there by address), so if it is temporary, `any temporary exists` is true
//@ assume: `tcx.breakpoints.iter().any(|b| b.is_temporary() | b.is_temporary_async())` outlined (some step is in progress); Breakpoint accessors are field reads; the step-over of a foreign breakpoint (disable, single steps, enable) is external: its patch primitive is proved under C02, its ledger under C10; set_stop marks the thread
//@ notcovered: that the absorbed thread really executes the original instruction once, the focus switch, watchpoint companions' scope logic
use vstd::prelude::*;
verus! {
//@ include: prelude.rs

pub struct DbgError;
pub type Error = DbgError;
#[derive(Clone, Copy, PartialEq, Eq, Structural)] pub struct Pid(pub i32);
#[derive(Clone, Copy)] pub struct TraceContext;
pub enum StopType { Interrupt, Other }
pub enum StopReason { Reported }
pub enum Kind { Temporary, TemporaryAsync, Companion, Other }
pub struct Breakpoint { pub pid: Pid, pub kind: Kind, pub enabled: bool }
impl Breakpoint {
    #[verifier::external_body] pub fn is_temporary(&self) -> (r: bool) ensures r == (self.kind is Temporary), { unimplemented!() }
    #[verifier::external_body] pub fn is_temporary_async(&self) -> (r: bool) ensures r == (self.kind is TemporaryAsync), { unimplemented!() }
    #[verifier::external_body] pub fn is_wp_companion(&self) -> (r: bool) ensures r == (self.kind is Companion), { unimplemented!() }
    #[verifier::external_body] pub fn is_enabled(&self) -> (r: bool) { unimplemented!() }
    #[verifier::external_body] pub fn disable(&self) -> (r: Result<(), DbgError>) { unimplemented!() }
    #[verifier::external_body] pub fn enable(&self) -> (r: Result<(), DbgError>) { unimplemented!() }
    #[verifier::external_body] pub fn clone(&self) -> (r: Breakpoint) ensures r.pid == self.pid, { unimplemented!() }
}
pub struct Tracee;
impl Tracee { #[verifier::external_body] pub fn set_stop(&mut self, t: StopType) { unimplemented!() } }
pub struct TraceeCtl;
impl TraceeCtl { #[verifier::external_body] pub fn tracee_ensure_mut(&mut self, pid: Pid) -> (r: &mut Tracee) { unimplemented!() } }
pub uninterp spec fn step_in_progress(tcx: &TraceContext) -> bool;
#[verifier::external_body]
fn outline_step_in_progress(tcx: &TraceContext) -> (r: bool) ensures r == step_in_progress(tcx), { unimplemented!() }

pub struct Tracer { pub tracee_ctl: TraceeCtl, pub absorbed: Ghost<nat> }
impl Tracer {
    #[verifier::external_body]
    fn single_step(&mut self, tcx: TraceContext, pid: Pid) -> (r: Result<Option<StopReason>, DbgError>) ensures final(self).absorbed@ == old(self).absorbed@, { unimplemented!() }

//@ extract: impl Tracer / fn apply_new_status
//@   fragment: `let has_tmp_breakpoints = tcx` .. `^self.tracee_ctl .tracee_ensure_mut(pid) .set_stop(StopType::Interrupt); self.group_stop_interrupt(tcx, pid)?; if let BrkptType::WatchpointCompanion(wps)`
//@   sig: fn tmp_filter(&mut self, tcx: TraceContext, pid: Pid, brkpt: &Breakpoint) -> (r: Result<Option<StopReason>, Error>)
//@   attr: #[verifier::exec_allows_no_decreases_clause]
//@   tail: Ok(Some(StopReason::Reported))
//@   requires R_member: (brkpt.kind is Temporary || brkpt.kind is TemporaryAsync) ==> step_in_progress(&tcx)
//@   ensures E_owner_stops: r is Ok && brkpt.kind is Temporary && pid == brkpt.pid ==> r->Ok_0 is Some
//@   ensures E_foreign_absorbed: r is Ok && r->Ok_0 is Some && brkpt.kind is Temporary ==> pid == brkpt.pid
//@   ensures E_async_and_companion: r is Ok && (brkpt.kind is TemporaryAsync || brkpt.kind is Companion) ==> r->Ok_0 is Some
//@   outline O_any: `tcx .breakpoints .iter() .any(|b| b.is_temporary() | b.is_temporary_async())` => `outline_step_in_progress(&tcx)`
//@ end
}

} // verus!
fn main() {}
