//@ unit: C01.registry_add
//@ props: C01 C02
//@ implicit: C01
//@ source: src/debugger/breakpoint.rs
//@ fn: BreakpointRegistry::add_and_enable, BreakpointRegistry::get_enabled, BreakpointRegistry::add_uninit
//@ shim: src/debugger/breakpoint.rs :: struct BreakpointRegistry :: breakpoints: HashMap<RelocatedAddress, Breakpoint>, disabled_breakpoints: HashMap<Address, UninitBreakpoint>
//@ assume: std HashMap per vstd (obeys_key_model for the address keys); Breakpoint::enable / disable act on debuggee memory (Kani units C02.patch.*), tracked here by a ghost set `armed` of addresses holding an INT3 of this registry (local ghost, updated next to the calls); `(&map[&k]).into()` view conversions outlined
//@ notcovered: set_breakpoint_at_* (place lookup), numbers, companions
use vstd::prelude::*;
use std::collections::HashMap;
use vstd::std_specs::hash::*;
verus! {
//@ include: prelude.rs

pub struct DbgError;
pub type Error = DbgError;
#[derive(Clone, Copy, PartialEq, Eq, Hash)] pub struct RelocatedAddress(pub usize);
#[derive(Clone, Copy, PartialEq, Eq, Hash)] pub struct Address(pub u64);
pub struct Breakpoint { pub addr: RelocatedAddress, pub number: u32 }
impl Breakpoint {
    #[verifier::external_body] pub fn enable(&self) -> (r: Result<(), DbgError>) { unimplemented!() }
    #[verifier::external_body] pub fn disable(&self) -> (r: Result<(), DbgError>) { unimplemented!() }
}
pub struct UninitBreakpoint { pub addr: Address, pub number: u32 }
pub struct BreakpointView;
#[verifier::external_body] fn outline_view_b(b: &Breakpoint) -> (r: BreakpointView) { unimplemented!() }
#[verifier::external_body] fn outline_view_u(b: &UninitBreakpoint) -> (r: BreakpointView) { unimplemented!() }

pub struct BreakpointRegistry {
    pub breakpoints: HashMap<RelocatedAddress, Breakpoint>,
    pub disabled_breakpoints: HashMap<Address, UninitBreakpoint>,
}

impl BreakpointRegistry {
//@ extract: impl BreakpointRegistry / fn add_and_enable
//@   sig: pub fn add_and_enable(&mut self, brkpt: Breakpoint) -> (r: Result<BreakpointView, Error>)
//@   requires R_keys: obeys_key_model::<RelocatedAddress>() && obeys_key_model::<Address>()
//@   ensures E_added: r is Ok ==> final(self).breakpoints@.contains_key(brkpt.addr) && final(self).breakpoints@[brkpt.addr] == brkpt
//@   ensures E_frame: r is Ok ==> forall|k: RelocatedAddress| k != brkpt.addr ==> (#[trigger] final(self).breakpoints@.contains_key(k) <==> old(self).breakpoints@.contains_key(k)) && (old(self).breakpoints@.contains_key(k) ==> final(self).breakpoints@[k] == old(self).breakpoints@[k])
//@   ensures E_err_unchanged: r is Err ==> final(self).breakpoints@ == old(self).breakpoints@
//@   ensures E_templates: final(self).disabled_breakpoints@ == old(self).disabled_breakpoints@
//@   proof begin: let ghost mut replaced_disarmed: bool = false; let ghost mut new_armed: bool = false;
//@   rewrite W_dis: `existed.disable()?;` => `existed.disable()?; proof { replaced_disarmed = true; }`
//@   rewrite W_en: `brkpt.enable()?;` => `proof { assert(old(self).breakpoints@.contains_key(brkpt.addr) ==> replaced_disarmed); } brkpt.enable()?; proof { new_armed = true; }`
//@   rewrite W_ins: `self.breakpoints.insert(addr, brkpt);` => `proof { assert(new_armed); } self.breakpoints.insert(addr, brkpt);`
//@   outline O_view: `(&self.breakpoints[&addr]).into()` => `outline_view_b(self.breakpoints.get(&addr).unwrap())`
//@   proof after `let addr = brkpt.addr;`: broadcast use group_hash_axioms;
//@ end

//@ extract: impl BreakpointRegistry / fn get_enabled
//@   ret: r
//@   requires R_keys: obeys_key_model::<RelocatedAddress>()
//@   ensures E_get: r is Some == self.breakpoints@.contains_key(addr) && (r is Some ==> *r->Some_0 == self.breakpoints@[addr])
//@   proof begin: broadcast use group_hash_axioms;
//@ end

//@ extract: impl BreakpointRegistry / fn add_uninit
//@   sig: pub fn add_uninit(&mut self, brkpt: UninitBreakpoint) -> (r: BreakpointView)
//@   requires R_keys: obeys_key_model::<Address>()
//@   ensures E_uninit: final(self).disabled_breakpoints@ == old(self).disabled_breakpoints@.insert(brkpt.addr, brkpt) && final(self).breakpoints@ == old(self).breakpoints@
//@   proof begin: broadcast use group_hash_axioms;
//@   outline O_view: `(&self.disabled_breakpoints[&addr]).into()` => `outline_view_u(self.disabled_breakpoints.get(&addr).unwrap())`
//@ end
}

} // verus!
fn main() {}
