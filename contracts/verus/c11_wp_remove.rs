//@ unit: C11.wp_remove
//@ props: C11
//@ source: src/debugger/watchpoint.rs
//@ fn: WatchpointRegistry::remove
//@ shim: src/debugger/watchpoint.rs :: struct WatchpointRegistry :: watchpoints: Vec<Watchpoint>, last_seen_state: Option<HardwareDebugState>
//@ assume: Watchpoint::disable clears the watchpoint's debug-register slot in every thread and returns the resulting register image (Kani units C14.hw_disable / C14.roundtrip); `last_seen_state` is the image that WatchpointRegistry::distribute_to_tracee pushes into threads created later (Kani unit C14.distribute); Vec::remove per vstd; the view conversion is outlined
//@ notcovered: remove_by_num / remove_by_addr / remove_by_dqe (position lookups), companion breakpoints, that detach clears what is left (C11.detach)
use vstd::prelude::*;
verus! {
//@ include: prelude.rs

pub struct DbgError;
pub type Error = DbgError;
pub struct TraceeCtl;
pub struct BreakpointRegistry;
#[derive(PartialEq, Eq)]
pub struct HardwareDebugState(pub u64);
pub struct Watchpoint { pub number: u32 }
pub struct WatchpointView;
/// the debug-register image after this watchpoint's slot has been released
pub uninterp spec fn image_without(wp: &Watchpoint) -> HardwareDebugState;
impl Watchpoint {
    #[verifier::external_body]
    pub fn disable(&mut self, tracee_ctl: &TraceeCtl, brkpts: &mut BreakpointRegistry) -> (r: Result<HardwareDebugState, DbgError>)
        ensures final(self).number == old(self).number, r is Ok ==> r->Ok_0 == image_without(old(self)),
    { unimplemented!() }
}
#[verifier::external_body] fn outline_view(wp: Watchpoint) -> (r: WatchpointView) { unimplemented!() }

pub struct WatchpointRegistry { pub watchpoints: Vec<Watchpoint>, pub last_seen_state: Option<HardwareDebugState> }

impl WatchpointRegistry {
//@ extract: impl WatchpointRegistry / fn remove
//@   sig: fn remove(&mut self, tracee_ctl: &TraceeCtl, brkpts: &mut BreakpointRegistry, idx: usize) -> (r: Result<Option<WatchpointView>, Error>)
//@   requires R_idx: idx < old(self).watchpoints@.len()
//@   ensures E_inherit: r is Ok ==> final(self).last_seen_state == Some(image_without(&old(self).watchpoints@[idx as int]))
//@   ensures E_removed: final(self).watchpoints@ == old(self).watchpoints@.remove(idx as int)
//@   outline O_view: `wp.into()` => `outline_view(wp)`
//@ end
}

} // verus!
fn main() {}
