//@ unit: C04.fn_by_pc
//@ props: C04 C08
//@ implicit: C08
//@ source: src/debugger/debugee/dwarf/mod.rs
//@ fn: DebugInformation::find_function_by_pc (index arithmetic fragment: binary search on fn_ranges + forward scan over equal `begin`)
//@ shim: src/debugger/debugee/dwarf/unit/mod.rs :: struct DieRange :: range: Range
//@ assume: fn_ranges sorted by range.begin (established by `fn_ranges.sort_unstable_by_key(|dr| dr.range.begin)` in DwarfUnitParser::parse_additional; std sort contract assumed)
//@ assume: DieRange.die_off dropped from the shim; std contract of binary_search_by_key assumed (outlined)
//@ notcovered: the reverse scan `die_ranges[..find_pos].iter().rev().find_map(..)` (closure over fn_info lookup), find_unit_by_pc, function name index
use vstd::prelude::*;
verus! {
//@ include: prelude.rs

pub struct Range {
    pub begin: u64,
    pub end: u64,
}
pub struct DieRange {
    pub range: Range,
}

pub open spec fn beg(s: Seq<DieRange>, k: int) -> u64 { s[k].range.begin }
pub open spec fn sorted_begin(s: Seq<DieRange>) -> bool {
    forall|i: int, j: int| 0 <= i <= j < s.len() ==> #[trigger] beg(s, i) <= #[trigger] beg(s, j)
}

#[verifier::external_body]
fn outline_bsearch_begin(die_ranges: &Vec<DieRange>, pc: u64) -> (r: Result<usize, usize>)
    requires sorted_begin(die_ranges@),
    ensures
        match r {
            Ok(p) => p < die_ranges@.len() && beg(die_ranges@, p as int) == pc,
            Err(p) => p <= die_ranges@.len()
                && (forall|k: int| 0 <= k < p ==> #[trigger] beg(die_ranges@, k) < pc)
                && (forall|k: int| p <= k < die_ranges@.len() ==> #[trigger] beg(die_ranges@, k) > pc),
        },
{
    //@ verbatim: O_bs
}

//@ extract: impl DebugInformation / fn find_function_by_pc
//@   fragment: `let find_pos = match` .. `^die_ranges[..find_pos]`
//@   sig: fn find_pos_of(die_ranges: &Vec<DieRange>, pc: u64) -> (find_pos: usize)
//@   tail: find_pos
//@   requires R_sorted: sorted_begin(die_ranges@)
//@   ensures E_fp0: find_pos <= die_ranges@.len()
//@   ensures E_fp1: forall|k: int| 0 <= k < find_pos ==> #[trigger] beg(die_ranges@, k) <= pc
//@   ensures E_fp2: forall|k: int| find_pos <= k < die_ranges@.len() ==> #[trigger] beg(die_ranges@, k) > pc
//@   outline O_bs: `die_ranges.binary_search_by_key($k, $f)` => `outline_bsearch_begin(die_ranges, pc)`
//@   proof before `let find_pos`: vstd::std_specs::vec::axiom_spec_len(die_ranges);
//@   proof after `idx += 1; }`: assert(idx < die_ranges@.len() ==> beg(die_ranges@, idx as int) > pc) by { if idx < die_ranges@.len() { assert(beg(die_ranges@, pos as int) <= beg(die_ranges@, idx as int)); } } assert(forall|k: int| idx <= k < die_ranges@.len() ==> beg(die_ranges@, idx as int) <= #[trigger] beg(die_ranges@, k));
//@   loop 0 invariant I_fp1: pos < idx <= die_ranges@.len() && beg(die_ranges@, pos as int) == pc
//@   loop 0 invariant I_fp2: forall|k: int| pos <= k < idx ==> #[trigger] beg(die_ranges@, k) == pc
//@   loop 0 decreases: die_ranges@.len() - idx
//@ end

} // verus!
fn main() {}
