//@ unit: C11.drop
//@ props: C11
//@ source: src/debugger/mod.rs
//@ fn: <Debugger as Drop>::drop
//@ assume: process protocol model with ghost state on the Debugger shim (as in C11.detach / C11.restart): `patched`, `dr_active`, `status`, `live` (thread ids the tracer currently controls), `released` (thread ids released with PTRACE_DETACH), `continued`; disable_all_breakpoints empties `patched`, clear_all empties `dr_active`; SIGKILL + waitpid of the main thread reaps the process (status Exited); the PTRACE_DETACH fan-out requires that no patch and no armed debug register is left and is told WHICH threads to release; panics of the `expect` calls are not modelled
//@ assume: `print`-free: every syscall expression is outlined as a method of the shim that changes only the ghost fields named in its contract
//@ notcovered: that the kernel really delivers SIGKILL / reaps, zombie threads, the SIGSTOP round before detaching a launched process, the exit code
use vstd::prelude::*;
verus! {
//@ include: prelude.rs

#[derive(Clone, Copy, PartialEq, Eq)]
pub struct Pid(pub i32);
pub enum ExecutionStatus { Unload, InProgress, Exited }
pub struct WaitRes(pub i32);

pub open spec fn none_u(s: Set<usize>) -> bool { forall|a: usize| !s.contains(a) }
pub open spec fn none_i(s: Set<int>) -> bool { forall|a: int| !s.contains(a) }

pub struct Debugger {
    pub detached: bool,
    pub external: Ghost<bool>,
    pub status: Ghost<ExecutionStatus>,
    pub patched: Ghost<Set<usize>>,
    pub dr_active: Ghost<Set<int>>,
    pub live: Ghost<Seq<Pid>>,
    pub released: Ghost<Seq<Pid>>,
    pub continued: Ghost<bool>,
}

pub open spec fn same_but(a: &Debugger, b: &Debugger) -> bool {
    a.detached == b.detached && a.external@ == b.external@ && a.live@ == b.live@
}

impl Debugger {
    #[verifier::external_body]
    fn outline_is_external(&self) -> (r: bool) ensures r == self.external@, { unimplemented!() }
    #[verifier::external_body]
    fn outline_status(&self) -> (r: ExecutionStatus) ensures r == self.status@, { unimplemented!() }
    #[verifier::external_body]
    fn outline_disable_all(&mut self)
        ensures same_but(old(self), final(self)), none_u(final(self).patched@), final(self).dr_active@ == old(self).dr_active@, final(self).status@ == old(self).status@, final(self).released@ == old(self).released@, final(self).continued@ == old(self).continued@,
    { unimplemented!() }
    #[verifier::external_body]
    fn outline_clear_watchpoints(&mut self)
        ensures same_but(old(self), final(self)), none_i(final(self).dr_active@), final(self).patched@.subset_of(old(self).patched@), final(self).status@ == old(self).status@, final(self).released@ == old(self).released@, final(self).continued@ == old(self).continued@,
    { unimplemented!() }
    /// self.debugee.tracee_ctl().tracee_iter().map(|t| t.pid).collect(): the threads the tracer controls NOW
    #[verifier::external_body]
    fn outline_thread_ids(&self) -> (r: Vec<Pid>) ensures r@ == self.live@, { unimplemented!() }
    /// self.process.external_info().map(|info| info.threads.clone()).unwrap_or_default(): the threads seized AT ATTACH TIME
    /// (another thread list that exists in the code base; it says nothing about threads created since)
    #[verifier::external_body]
    fn outline_attach_time_threads(&self) -> (r: Vec<Pid>) { unimplemented!() }
    /// current_tids.iter().for_each(|tid| { sys::ptrace::detach(*tid, None).expect(..); })
    #[verifier::external_body]
    fn outline_detach_all(&mut self, tids: &Vec<Pid>)
        requires none_u(old(self).patched@), none_i(old(self).dr_active@),   // released with original code and no hardware breakpoint
        ensures same_but(old(self), final(self)), final(self).released@ == old(self).released@ + tids@, final(self).patched@ == old(self).patched@, final(self).dr_active@ == old(self).dr_active@, final(self).status@ == old(self).status@, final(self).continued@ == old(self).continued@,
    { unimplemented!() }
    #[verifier::external_body]
    fn outline_sigcont(&mut self)
        ensures same_but(old(self), final(self)), final(self).continued@, final(self).released@ == old(self).released@, final(self).patched@ == old(self).patched@, final(self).dr_active@ == old(self).dr_active@, final(self).status@ == old(self).status@,
    { unimplemented!() }
    #[verifier::external_body]
    fn outline_sigkill(&mut self)
        ensures same_but(old(self), final(self)), final(self).status@ == old(self).status@, final(self).released@ == old(self).released@, final(self).continued@ == old(self).continued@,
    { unimplemented!() }
    /// waitpid(main pid, None).expect(..) after SIGKILL: reaps the process
    #[verifier::external_body]
    fn outline_reap_main(&mut self)
        ensures same_but(old(self), final(self)), final(self).status@ is Exited, final(self).released@ == old(self).released@, final(self).continued@ == old(self).continued@,
    { unimplemented!() }
    /// the SIGSTOP round + PTRACE_DETACH of a launched process' threads (three iterator statements)
    #[verifier::external_body]
    fn outline_stop_and_detach(&mut self, tids: Vec<Pid>)
        requires none_u(old(self).patched@), none_i(old(self).dr_active@),
        ensures same_but(old(self), final(self)), final(self).status@ == old(self).status@, final(self).continued@ == old(self).continued@, final(self).patched@ == old(self).patched@, final(self).dr_active@ == old(self).dr_active@,
    { unimplemented!() }
    /// waitpid(-1, None).expect(..): some wait status; when it is the main thread's the process is reaped
    #[verifier::external_body]
    fn outline_wait_any(&mut self) -> (r: WaitRes)
        ensures same_but(old(self), final(self)), final(self).continued@ == old(self).continued@, final(self).released@ == old(self).released@,
            is_main(r) ==> final(self).status@ is Exited,
    { unimplemented!() }
}
pub uninterp spec fn is_main(w: WaitRes) -> bool;
#[verifier::external_body]
fn outline_is_main(w: &WaitRes) -> (r: bool) ensures r == is_main(*w), { unimplemented!() }

impl Debugger {
//@ extract: impl Drop for Debugger / fn drop
//@   sig: fn drop(&mut self)
//@   attr: #[verifier::exec_allows_no_decreases_clause]
//@   requires R_fresh: old(self).released@.len() == 0 && !old(self).continued@
//@   ensures E_detached: old(self).detached ==> final(self).released@ == old(self).released@ && final(self).status@ == old(self).status@ && !final(self).continued@
//@   ensures E_launched_gone: !old(self).detached && !old(self).external@ ==> final(self).status@ is Exited
//@   ensures E_external_released: !old(self).detached && old(self).external@ ==> final(self).released@ == old(self).live@ && (final(self).continued@ <==> old(self).live@.len() > 0) && none_u(final(self).patched@) && none_i(final(self).dr_active@)
//@   outline O_ext: `self.process.is_external()` => `self.outline_is_external()`
//@   outline O_dis: `let _ = self.breakpoints.disable_all_breakpoints(&self.debugee);` => `self.outline_disable_all();`
//@   outline O_wp: `self.watchpoints .clear_all(self.debugee.tracee_ctl(), &mut self.breakpoints);` => `self.outline_clear_watchpoints();`
//@   outline O_tids: `self .debugee .tracee_ctl() .tracee_iter() .map(|t| t.pid) .collect()` => `self.outline_thread_ids()`
//@   outline O_tids_attach: `self .process .external_info() .map(|info| info.threads.clone()) .unwrap_or_default()` => `self.outline_attach_time_threads()`
//@   outline O_det: `current_tids.iter().for_each(|tid| { sys::ptrace::detach(*tid, None).expect("detach debugee"); });` => `self.outline_detach_all(&current_tids);`
//@   outline O_cont: `signal::kill(self.debugee.tracee_ctl().proc_pid(), Signal::SIGCONT) .expect("kill debugee");` => `self.outline_sigcont();`
//@   outline O_st: `self.debugee.execution_status()` => `self.outline_status()`
//@   outline O_kill: `signal::kill(self.debugee.tracee_ctl().proc_pid(), Signal::SIGKILL) .expect("kill debugee");` => `self.outline_sigkill();`
//@   outline O_reap: `waitpid(self.debugee.tracee_ctl().proc_pid(), None).expect("waiting child");` => `self.outline_reap_main();`
//@   outline O_stop: `let prepare_stopped: Vec<_> = current_tids .into_iter() .filter(|&tid| sys::ptrace::cont(tid, Signal::SIGSTOP).is_ok()) .collect(); let stopped: Vec<_> = prepare_stopped .into_iter() .filter(|&tid| waitpid(tid, None).is_ok()) .collect(); stopped.into_iter().for_each(|tid| { sys::ptrace::detach(tid, None).expect("detach tracee"); });` => `self.outline_stop_and_detach(current_tids);`
//@   outline O_wait: `waitpid(Pid::from_raw(-1), None).expect("waiting debugee")` => `self.outline_wait_any()`
//@   outline O_main: `wait_result.pid() == Some(self.debugee.tracee_ctl().proc_pid())` => `outline_is_main(&wait_result)`
//@   loop 0 invariant I_dr: same_but(old(self), self) && !old(self).detached && !old(self).external@
//@   loop 0 ensures I_dr_done: self.status@ is Exited
//@   isolation: on
//@ end
}

} // verus!
fn main() {}
