//@ unit: C18.reload_plan
//@ props: C18
//@ source: src/debugger/debugee/registry.rs
//@ fn: DwarfRegistry::reload_plan
//@ assume: `self.files.keys().cloned().collect()` lists exactly the objects whose debug information the registry holds (`files`), `self.mappings.keys()..` exactly the objects that currently have a load offset: two different tables (after a restart `files` survives, `mappings` is empty until the next update); both expressions are outlined with that contract; the two by-value `for` loops are rewritten to index loops; Vec::contains / HashMap::contains_key are membership
//@ notcovered: executing the plan (add_file / remove_file), how the target list is read from the rendezvous structure
use vstd::prelude::*;
verus! {
//@ include: prelude.rs

#[derive(Clone, Copy, PartialEq, Eq, Structural)]
pub struct PathBuf(pub u64);
pub struct ReloadPlan { pub to_del: Vec<PathBuf>, pub to_add: Vec<PathBuf> }
pub struct FileTable { pub keys: Ghost<Set<PathBuf>> }
impl FileTable {
    #[verifier::external_body] pub fn contains_key(&self, k: &PathBuf) -> (r: bool) ensures r == self.keys@.contains(*k), { unimplemented!() }
}
pub struct DwarfRegistry { pub files: FileTable, pub mappings: FileTable, pub program_path: PathBuf }

#[verifier::external_body]
fn outline_keys(t: &FileTable) -> (r: Vec<PathBuf>)
    ensures forall|p: PathBuf| #[trigger] r@.contains(p) <==> t.keys@.contains(p),
{ unimplemented!() }
#[verifier::external_body]
fn outline_contains(v: &Vec<PathBuf>, p: &PathBuf) -> (r: bool) ensures r == v@.contains(*p), { unimplemented!() }

impl DwarfRegistry {
//@ extract: impl DwarfRegistry / fn reload_plan
//@   ret: r
//@   ensures E_del: forall|p: PathBuf| #[trigger] r.to_del@.contains(p) <==> (self.files.keys@.contains(p) && !target@.contains(p) && p != self.program_path)
//@   ensures E_add: forall|p: PathBuf| #[trigger] r.to_add@.contains(p) <==> (target@.contains(p) && !self.files.keys@.contains(p))
//@   outline O_files: `self.files.keys().cloned().collect()` => `outline_keys(&self.files)`
//@   outline O_maps: `self.mappings.keys().cloned().collect()` => `outline_keys(&self.mappings)`
//@   rewrite W_for1: `for current_lib in current_libs {` => `let mut i1_: usize = 0; while i1_ < current_libs.len() { let current_lib = current_libs[i1_]; i1_ += 1;`
//@   rewrite W_for2: `for target_lib in target {` => `let mut i2_: usize = 0; while i2_ < target.len() { let target_lib = target[i2_]; i2_ += 1;`
//@   outline O_c: `target.contains(&current_lib)` => `outline_contains(&target, &current_lib)`
//@   loop 0 invariant I_rp1: i1_ <= current_libs@.len() && (forall|p: PathBuf| #[trigger] to_del@.contains(p) ==> current_libs@.contains(p) && !target@.contains(p) && p != self.program_path) && (forall|k: int| 0 <= k < i1_ && !target@.contains(#[trigger] current_libs@[k]) && current_libs@[k] != self.program_path ==> to_del@.contains(current_libs@[k]))
//@   proof after `to_del.push(current_lib);`: broadcast use vstd::seq_lib::group_seq_properties; assert(to_del@.last() == current_lib);
//@   loop 0 decreases: current_libs@.len() - i1_
//@   loop 1 invariant I_rp2: i2_ <= target@.len() && (forall|p: PathBuf| #[trigger] to_add@.contains(p) ==> target@.contains(p) && !self.files.keys@.contains(p)) && (forall|k: int| 0 <= k < i2_ && !self.files.keys@.contains(#[trigger] target@[k]) ==> to_add@.contains(target@[k]))
//@   proof after `to_add.push(target_lib);`: broadcast use vstd::seq_lib::group_seq_properties; assert(to_add@.last() == target_lib);
//@   proof before `ReloadPlan { to_del, to_add }`: broadcast use vstd::seq_lib::group_seq_properties; assert forall|p: PathBuf| self.files.keys@.contains(p) && !target@.contains(p) && p != self.program_path implies to_del@.contains(p) by { assert(current_libs@.contains(p)); let k = choose|k: int| 0 <= k < current_libs@.len() && current_libs@[k] == p; assert(to_del@.contains(current_libs@[k])); } assert forall|p: PathBuf| target@.contains(p) && !self.files.keys@.contains(p) implies to_add@.contains(p) by { let k = choose|k: int| 0 <= k < target@.len() && target@[k] == p; assert(to_add@.contains(target@[k])); }
//@   loop 1 decreases: target@.len() - i2_
//@ end
}

} // verus!
fn main() {}
