//@ unit: C09.group_stop
//@ props: C09
//@ source: src/debugger/debugee/tracer.rs
//@ fn: Tracer::group_stop_interrupt
//@ assume: thread-table model: TraceeCtl = ghost map `stopped: Map<Pid, bool>` (domain = threads the tracer controls; value = marked stopped); snapshot() lists exactly the current domain; tracee(p) / tracee_mut(p) are Some iff p is in the domain and show / update its mark; threads are ADDED only by apply_new_status and are added stopped (Tracee::new_stopped; unit C09.thread_table)
//@ assume: apply_new_status (nested event handling while a thread is being interrupted): never un-marks a stopped thread, may remove threads, may add stopped threads; when it reports Breakpoint/Watchpoint/SignalStop for a thread it has marked that thread stopped (its arms: C01.report E4, C10.push E8); PTRACE_INTERRUPT / waitpid are external calls without effect on the table
//@ assume: the two `for` loops are rewritten to index loops (`for _ in 0..2`, `for tid in tracees.into_iter().map(|t| t.pid)`); termination of the inner wait loop is not claimed (it waits for the kernel)
//@ notcovered: that a thread marked stopped IS stopped in the kernel, threads created after the second round by threads that were still running in round one (the two-round heuristic), interleavings, exactly-once reporting per arrival
use vstd::prelude::*;
verus! {
//@ include: prelude.rs

pub enum DbgError { Ptrace(i32), ProcessExit(i32), Other }
pub type Error = DbgError;
use DbgError::{Ptrace, ProcessExit};
#[derive(Clone, Copy, PartialEq, Eq, Structural)]
pub struct Pid(pub i32);
#[derive(Clone, Copy)]
pub struct TraceContext;
pub struct WaitStatus(pub i32);
#[derive(Clone, Copy, PartialEq, Eq, Structural)]
pub enum StopType { Interrupt, SignalStop(i32) }
pub struct RelocatedAddress(pub usize);
pub struct Signal(pub i32);
pub struct HitTy(pub u8);
pub enum StopReason {
    DebugeeExit(i32), DebugeeStart, Breakpoint(Pid, RelocatedAddress), Watchpoint(Pid, RelocatedAddress, HitTy), SignalStop(Pid, Signal), NoSuchProcess(Pid),
}

pub struct Tracee { pub pid: Pid, pub is_stopped_: bool, pub interrupt_mark: bool }
impl Tracee {
    #[verifier::external_body] pub fn is_stopped(&self) -> (r: bool) ensures r == self.is_stopped_, { unimplemented!() }
    #[verifier::external_body] pub fn wait_one(&self) -> (r: Result<WaitStatus, DbgError>) { unimplemented!() }
    #[verifier::external_body]
    pub fn set_stop(&mut self, t: StopType) ensures final(self).pid == old(self).pid, final(self).is_stopped_, { unimplemented!() }
    #[verifier::external_body] pub fn clone(&self) -> (r: Tracee) ensures r == *self, { unimplemented!() }
}

pub struct TraceeCtl { pub stopped: Ghost<Map<Pid, bool>> }
pub open spec fn all_stopped(c: &TraceeCtl) -> bool { forall|p: Pid| c.stopped@.contains_key(p) ==> #[trigger] c.stopped@[p] }
/// every thread listed in `tids[..n]` is gone or marked stopped
pub open spec fn done_prefix(c: &TraceeCtl, tids: Seq<Tracee>, n: int) -> bool {
    forall|k: int| 0 <= k < n ==> !c.stopped@.contains_key((#[trigger] tids[k]).pid) || c.stopped@[tids[k].pid]
}
/// relation "nothing got un-stopped, new threads are stopped" between two table states
pub open spec fn only_more_stopped(a: &TraceeCtl, b: &TraceeCtl) -> bool {
    forall|p: Pid| #[trigger] b.stopped@.contains_key(p) ==> (if a.stopped@.contains_key(p) { a.stopped@[p] ==> b.stopped@[p] } else { b.stopped@[p] })
}

pub open spec fn listed(tids: Seq<Tracee>, p: Pid) -> bool { exists|k: int| 0 <= k < tids.len() && (#[trigger] tids[k]).pid == p }
/// every thread that is NOT in the snapshot being processed is marked stopped (it was added, stopped, after the snapshot)
pub open spec fn unlisted_stopped(c: &TraceeCtl, tids: Seq<Tracee>) -> bool {
    forall|p: Pid| #[trigger] c.stopped@.contains_key(p) ==> listed(tids, p) || c.stopped@[p]
}

proof fn lemma_monotone(a: &TraceeCtl, b: &TraceeCtl, tids: Seq<Tracee>, n: int)
    requires only_more_stopped(a, b), done_prefix(a, tids, n), unlisted_stopped(a, tids), 0 <= n <= tids.len(),
    ensures done_prefix(b, tids, n), unlisted_stopped(b, tids),
{
    assert forall|k: int| 0 <= k < n implies !b.stopped@.contains_key((#[trigger] tids[k]).pid) || b.stopped@[tids[k].pid] by {
        let p = tids[k].pid;
        if b.stopped@.contains_key(p) { if a.stopped@.contains_key(p) { assert(a.stopped@[p]); } }
    }
    assert forall|p: Pid| #[trigger] b.stopped@.contains_key(p) implies listed(tids, p) || b.stopped@[p] by {
        if a.stopped@.contains_key(p) { if !listed(tids, p) { assert(a.stopped@[p]); } }
    }
}

proof fn lemma_round_done(c: &TraceeCtl, tids: Seq<Tracee>)
    requires done_prefix(c, tids, tids.len() as int), unlisted_stopped(c, tids),
    ensures all_stopped(c),
{
    assert forall|p: Pid| c.stopped@.contains_key(p) implies #[trigger] c.stopped@[p] by {
        if listed(tids, p) { let k = choose|k: int| 0 <= k < tids.len() && (#[trigger] tids[k]).pid == p; assert(!c.stopped@.contains_key(tids[k].pid) || c.stopped@[tids[k].pid]); }
    }
}

impl TraceeCtl {
    #[verifier::external_body]
    pub fn snapshot(&self) -> (r: Vec<Tracee>)
        ensures unlisted_stopped(self, r@) && forall|p: Pid| self.stopped@.contains_key(p) ==> listed(r@, p),
    { unimplemented!() }
    #[verifier::external_body]
    pub fn tracee(&self, pid: Pid) -> (r: Option<&Tracee>)
        ensures r is Some == self.stopped@.contains_key(pid), r is Some ==> r->Some_0.pid == pid && r->Some_0.is_stopped_ == self.stopped@[pid],
    { unimplemented!() }
    /// `self.tracee_ctl.tracee(pid).cloned()`
    #[verifier::external_body]
    pub fn tracee_cloned(&self, pid: Pid) -> (r: Option<Tracee>)
        ensures r is Some == self.stopped@.contains_key(pid), r is Some ==> r->Some_0.pid == pid && r->Some_0.is_stopped_ == self.stopped@[pid],
    { unimplemented!() }
    #[verifier::external_body]
    pub fn tracee_mut(&mut self, pid: Pid) -> (r: Option<&mut Tracee>)
        ensures r is Some == old(self).stopped@.contains_key(pid),
            r is Some ==> r->Some_0.pid == pid && r->Some_0.is_stopped_ == old(self).stopped@[pid] && final(self).stopped@ == old(self).stopped@.insert(pid, final(r->Some_0).is_stopped_),
            r is None ==> final(self).stopped@ == old(self).stopped@,
    { unimplemented!() }
}

#[verifier::external_body] fn outline_interrupt(pid: Pid) -> (r: Result<(), i32>) { unimplemented!() }
#[verifier::external_body] fn outline_is_esrch(e: i32) -> (r: bool) { unimplemented!() }
#[verifier::external_body] fn outline_is_event_stop(w: &WaitStatus) -> (r: bool) { unimplemented!() }
#[verifier::external_body] fn outline_interrupt_marked(t: &Tracee) -> (r: bool) { unimplemented!() }
#[verifier::external_body] fn outline_diverge() ensures false, { unimplemented!() }

pub struct Tracer { pub tracee_ctl: TraceeCtl, pub group_stop_guard: bool }

impl Tracer {
    #[verifier::external_body] fn group_stop_in_progress(&self) -> (r: bool) ensures r == self.group_stop_guard, { unimplemented!() }
    #[verifier::external_body] fn lock_group_stop(&mut self) ensures final(self).group_stop_guard, final(self).tracee_ctl == old(self).tracee_ctl, { unimplemented!() }
    #[verifier::external_body] fn unlock_group_stop(&mut self) ensures !final(self).group_stop_guard, final(self).tracee_ctl == old(self).tracee_ctl, { unimplemented!() }
    /// `self.tracee_ctl.tracee_iter().any(|t| t.pid != initiator_pid)`
    #[verifier::external_body]
    fn outline_others_exist(&self, initiator_pid: Pid) -> (r: bool)
        ensures r == (exists|p: Pid| self.tracee_ctl.stopped@.contains_key(p) && p != initiator_pid),
    { unimplemented!() }
    #[verifier::external_body]
    fn apply_new_status(&mut self, tcx: TraceContext, status: WaitStatus) -> (r: Result<Option<StopReason>, DbgError>)
        ensures final(self).group_stop_guard == old(self).group_stop_guard,
            only_more_stopped(&old(self).tracee_ctl, &final(self).tracee_ctl),
            r matches Ok(Some(StopReason::Breakpoint(p, _))) ==> !final(self).tracee_ctl.stopped@.contains_key(p) || final(self).tracee_ctl.stopped@[p],
            r matches Ok(Some(StopReason::Watchpoint(p, _, _))) ==> !final(self).tracee_ctl.stopped@.contains_key(p) || final(self).tracee_ctl.stopped@[p],
    { unimplemented!() }

//@ extract: impl Tracer / fn group_stop_interrupt
//@   sig: fn group_stop_interrupt(&mut self, tcx: TraceContext, initiator_pid: Pid) -> (r: Result<(), Error>)
//@   attr: #[verifier::exec_allows_no_decreases_clause]
//@   requires R_initiator: old(self).tracee_ctl.stopped@.contains_key(initiator_pid) ==> old(self).tracee_ctl.stopped@[initiator_pid]
//@   ensures E_all_stop: r is Ok && !old(self).group_stop_guard ==> all_stopped(&final(self).tracee_ctl)
//@   ensures E_unlocked: r is Ok ==> final(self).group_stop_guard == old(self).group_stop_guard
//@   proof before `let stop = self.apply_new_status(tcx, wait)?;`: let ghost c0 = self.tracee_ctl;
//@   proof after `let stop = self.apply_new_status(tcx, wait)?;`: lemma_monotone(&c0, &self.tracee_ctl, tracees@, ti_ - 1);
//@   loop 0 invariant I_gs_guard: self.group_stop_guard && !old(self).group_stop_guard && round_ <= 2
//@   loop 0 invariant I_gs_round: round_ >= 1 ==> all_stopped(&self.tracee_ctl)
//@   loop 1 invariant I_gs_prefix: 0 <= ti_ <= tracees@.len() && done_prefix(&self.tracee_ctl, tracees@, ti_ as int) && unlisted_stopped(&self.tracee_ctl, tracees@)
//@   loop 1 invariant I_gs_guard1: self.group_stop_guard && !old(self).group_stop_guard && 1 <= round_ <= 2
//@   loop 2 invariant I_gs_wait: 1 <= ti_ <= tracees@.len() && done_prefix(&self.tracee_ctl, tracees@, ti_ - 1) && unlisted_stopped(&self.tracee_ctl, tracees@) && tracee.pid == tracees@[ti_ - 1].pid
//@   loop 2 invariant I_gs_guard2: self.group_stop_guard && !old(self).group_stop_guard && 1 <= round_ <= 2
//@   outline O_any: `self .tracee_ctl .tracee_iter() .any(|t| t.pid != initiator_pid)` => `self.outline_others_exist(initiator_pid)`
//@   rewrite W_round: `for _ in 0..2 {` => `let mut round_: u8 = 0; while round_ < 2 { round_ += 1;`
//@   rewrite W_tids: `for tid in tracees.into_iter().map(|t| t.pid) {` => `let mut ti_: usize = 0; while ti_ < tracees.len() { let tid = tracees[ti_].pid; ti_ += 1;`
//@   outline O_intr: `sys::ptrace::interrupt(tracee.pid)` => `outline_interrupt(tracee.pid)`
//@   outline O_esrch: `Errno::ESRCH == e` => `outline_is_esrch(e)`
//@   outline O_evstop: `matches!(wait, WaitStatus::PtraceEvent(_, _, libc::PTRACE_EVENT_STOP))` => `outline_is_event_stop(&wait)`
//@   outline O_unreach: `unreachable!($m)` => `outline_diverge()`
//@   outline O_cloned: `self.tracee_ctl.tracee(tracee.pid).cloned()` => `self.tracee_ctl.tracee_cloned(tracee.pid)`
//@   outline O_mark: `matches!(tracee.status, TraceeStatus::Stopped(StopType::Interrupt))` => `outline_interrupt_marked(&tracee)`
//@ end
}

} // verus!
fn main() {}
