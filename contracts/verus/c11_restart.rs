//@ unit: C11.restart
//@ props: C11
//@ source: src/debugger/mod.rs
//@ fn: Debugger::restart_debugee
//@ assume: process protocol model with ghost state on the Debugger shim: `status` = execution status of the CURRENT debuggee process (Unload: created and stopped at exec, not started; InProgress; Exited: gone and reaped); Debugee::execution_status / is_exited / is_in_progress report it; SIGKILL followed by Tracer::resume (which reaps the process: DebugeeExit) makes it Exited; Child::install creates the NEW process and its PRECONDITION is what the property promises: no process of the old run is left behind (status is Exited); disable_all_breakpoints / clear_local_disable_global keep the status
//@ assume: signature substitution: Result<Pid, Error> -> Result<Pid, DbgError>; `print_warns!(x)` evaluates x and prints (rewritten to `let _ = x;`); syscalls outlined
//@ notcovered: that breakpoints are re-enabled at the entry point of the new process (continue_execution), breakpoint templates (unit C11.disable_all), Drop (kill/reap at quit), the exit code
use vstd::prelude::*;
verus! {
//@ include: prelude.rs

pub struct DbgError;
#[derive(Clone, Copy)]
pub struct Pid(pub i32);
pub enum ExecutionStatus { Unload, InProgress, Exited }

pub struct Debugger {
    /// ghost: execution status of the current debuggee process
    pub status: Ghost<ExecutionStatus>,
    /// ghost: processes created by install() so far
    pub installs: Ghost<nat>,
}

pub struct DebugeeView<'a> { pub d: &'a Debugger }

impl Debugger {
    /// `self.debugee.execution_status()`
    #[verifier::external_body]
    fn outline_status(&self) -> (r: ExecutionStatus) ensures r == self.status@, { unimplemented!() }
    /// `self.debugee.is_exited()`
    #[verifier::external_body]
    fn outline_is_exited(&self) -> (r: bool) ensures r == (self.status@ is Exited), { unimplemented!() }
    /// `self.debugee.is_in_progress()`
    #[verifier::external_body]
    fn outline_is_in_progress(&self) -> (r: bool) ensures r == (self.status@ is InProgress), { unimplemented!() }
    /// `self.watchpoints.clear_local_disable_global(self.debugee.tracee_ctl(), &mut self.breakpoints)`
    #[verifier::external_body]
    fn outline_clear_watchpoints(&mut self) ensures final(self).status@ == old(self).status@, final(self).installs@ == old(self).installs@, { unimplemented!() }
    /// `self.breakpoints.disable_all_breakpoints(&self.debugee)`
    #[verifier::external_body]
    fn outline_disable_all(&mut self) -> (r: Result<(), DbgError>) ensures final(self).status@ == old(self).status@, final(self).installs@ == old(self).installs@, { unimplemented!() }
    /// `self.process.pid()`
    #[verifier::external_body]
    fn outline_pid(&self) -> (r: Pid) { unimplemented!() }
    /// `signal::kill(proc_pid, SIGKILL).map_err(..)`
    #[verifier::external_body]
    fn outline_sigkill(&mut self, pid: Pid) -> (r: Result<(), DbgError>)
        ensures final(self).status@ == old(self).status@, final(self).installs@ == old(self).installs@,
    { unimplemented!() }
    /// `_ = self.debugee.tracer_mut().resume(TraceContext::new(&[], &self.watchpoints));` after SIGKILL: the tracer sees the exit and reaps
    #[verifier::external_body]
    fn outline_resume_until_exit(&mut self)
        ensures final(self).status@ is Exited, final(self).installs@ == old(self).installs@,
    { unimplemented!() }
    /// `self.process = self.process.install()?;` creates the new process
    #[verifier::external_body]
    fn outline_install(&mut self) -> (r: Result<(), DbgError>)
        requires old(self).status@ is Exited,   // no process of the previous run is left behind
        ensures r is Ok ==> final(self).status@ is Unload && final(self).installs@ == old(self).installs@ + 1,
            r is Err ==> final(self).status@ == old(self).status@ && final(self).installs@ == old(self).installs@,
    { unimplemented!() }
    /// extend debugee / update_pid / hooks / exploration context: bookkeeping for the new process
    #[verifier::external_body]
    fn outline_rebind(&mut self) ensures final(self).status@ == old(self).status@, final(self).installs@ == old(self).installs@, { unimplemented!() }
    #[verifier::external_body]
    fn continue_execution(&mut self) -> (r: Result<(), DbgError>) ensures final(self).installs@ == old(self).installs@, { unimplemented!() }

//@ extract: impl Debugger / fn restart_debugee
//@   sig: pub fn restart_debugee(&mut self) -> (r: Result<Pid, DbgError>)
//@   ensures E_one_new: r is Ok ==> final(self).installs@ == old(self).installs@ + 1
//@   ensures E_at_most_one: final(self).installs@ <= old(self).installs@ + 1
//@   outline O_st: `self.debugee.execution_status()` => `self.outline_status()`
//@   outline O_ex: `self.debugee.is_exited()` => `self.outline_is_exited()`
//@   outline O_ip: `self.debugee.is_in_progress()` => `self.outline_is_in_progress()`
//@   outline O_wp: `print_warns!( self.watchpoints.clear_local_disable_global( self.debugee.tracee_ctl(), &mut self.breakpoints ) );` => `self.outline_clear_watchpoints();`
//@   outline O_dis: `print_warns!(self.breakpoints.disable_all_breakpoints(&self.debugee)?);` => `self.outline_disable_all()?;`
//@   outline O_pid0: `let proc_pid = self.process.pid();` => `let proc_pid = self.outline_pid();`
//@   outline O_kill: `signal::kill(proc_pid, SIGKILL).map_err(|e| Syscall("kill", e))?;` => `self.outline_sigkill(proc_pid)?;`
//@   outline O_res: `let _ = self .debugee .tracer_mut() .resume(TraceContext::new(&[], &self.watchpoints));` => `self.outline_resume_until_exit();`
//@   outline O_inst: `self.process = self.process.install()?;` => `self.outline_install()?;`
//@   outline O_rebind: `let new_debugee = self.debugee.extend(self.process.pid()); let _ = mem::replace(&mut self.debugee, new_debugee); self.breakpoints.update_pid(self.process.pid()); self.hooks.on_process_install(self.process.pid(), None); self.expl_context = ExplorationContext::new_non_running(self.process.pid());` => `self.outline_rebind();`
//@   outline O_pid1: `Ok(self.process.pid())` => `Ok(self.outline_pid())`
//@ end
}

} // verus!
fn main() {}
