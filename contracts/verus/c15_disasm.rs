//@ unit: C15.disasm_mask
//@ props: C15 C08
//@ implicit: C08
//@ source: src/debugger/debugee/disasm.rs
//@ fn: Disassembler::disasm_function (breakpoint masking statement: filter predicate + for_each body)
//@ shim: src/debugger/breakpoint.rs :: struct Breakpoint :: addr: RelocatedAddress, saved_data: Cell<u8>
//@ assume: Iterator::filter(..).for_each(..) semantics: the for_each body runs exactly once for every element the filter predicate accepts (the composing `if` below is hand-written; predicate and body are spliced verbatim)
//@ assume: text.len() == fn_reloc_pc_end - fn_reloc_pc_start (read_memory_by_pid returns exactly text_len bytes: C15.read E_len)
//@ notcovered: capstone decoding, the instruction cache, function range lookup
use vstd::prelude::*;
verus! {
//@ include: prelude.rs

#[derive(Clone, Copy, PartialEq, Eq, PartialOrd, Ord)]
pub struct RelocatedAddress(pub usize);

pub struct CellU8 { pub v: u8 }
impl CellU8 {
    #[verifier::external_body]
    pub fn get(&self) -> (r: u8) ensures r == self.v { self.v }
}
pub struct Breakpoint {
    pub addr: RelocatedAddress,
    pub saved_data: CellU8,
}

#[verifier::external_body]
fn outline_usize_from(a: RelocatedAddress) -> (r: usize)
    ensures r == a.0,
{
    a.0
}

//@ extract: impl Disassembler / fn disasm_function
//@   fragment: `^.filter(` .. `^) .for_each(`
//@   splice: F_filter
//@   rewrite W_clo: `|brkpt| brkpt.addr` => `brkpt.addr`
//@   rewrite W_a: `brkpt.addr` => `brkpt.addr.0`
//@   rewrite W_s: `fn_reloc_pc_start` => `fn_reloc_pc_start.0`
//@   rewrite W_e: `fn_reloc_pc_end` => `fn_reloc_pc_end.0`
//@ end
//@ extract: impl Disassembler / fn disasm_function
//@   fragment: `^.for_each(|brkpt| {` .. `^});`
//@   splice: F_body
//@   outline O_from: `usize::from($a)` => `outline_usize_from($a)`
//@   rewrite W_set: `text[byte_idx] = $v;` => `text.set(byte_idx, $v);`
//@ end

//@ begin_fn: src/debugger/debugee/disasm.rs :: disasm_function [mask one breakpoint]
fn mask_one(text: &mut Vec<u8>, brkpt: &Breakpoint, fn_reloc_pc_start: RelocatedAddress, fn_reloc_pc_end: RelocatedAddress)
    requires
        fn_reloc_pc_start.0 <= fn_reloc_pc_end.0,
        old(text)@.len() == fn_reloc_pc_end.0 - fn_reloc_pc_start.0, /*@@R_len*/
    ensures
        final(text)@.len() == old(text)@.len(), /*@@E_len*/
        // a breakpoint inside the function: its byte shows the ORIGINAL instruction byte
        fn_reloc_pc_start.0 <= brkpt.addr.0 < fn_reloc_pc_end.0 ==> final(text)@[brkpt.addr.0 - fn_reloc_pc_start.0] == brkpt.saved_data.v, /*@@E_masked*/
        // every other byte untouched
        forall|k: int| 0 <= k < old(text)@.len() && k != brkpt.addr.0 - fn_reloc_pc_start.0 ==> #[trigger] final(text)@[k] == old(text)@[k], /*@@E_frame*/
{
    if /*@@SPLICE:F_filter*/ {
        /*@@SPLICE:F_body*/
    }
}
//@ end_fn

} // verus!
fn main() {}
