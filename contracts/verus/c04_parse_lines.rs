//@ unit: C04.parse_lines
//@ props: C04
//@ source: src/debugger/debugee/dwarf/unit/parser.rs
//@ fn: parse_lines
//@ shim: src/debugger/debugee/dwarf/unit/mod.rs :: struct LineRow :: address: u64, file_index: u64, line: u64, column: u64, flags: u8
//@ assume: gimli's LineRows::next_row decodes the DWARF line-number program correctly; it is modelled as a source that yields a ghost sequence of rows one by one (signature substitution: `rows: &mut gimli::LineRows<..>` -> `rows: &mut RowSource`)
//@ assume: Vec::shrink_to_fit does not change the contents (outlined)
//@ notcovered: parse_files, the sort by address (std), DIE parsing
use vstd::prelude::*;
verus! {
//@ include: prelude.rs

//@ const: src/debugger/debugee/dwarf/unit/mod.rs :: IS_STMT
//@ const: src/debugger/debugee/dwarf/unit/mod.rs :: PROLOG_END
//@ const: src/debugger/debugee/dwarf/unit/mod.rs :: EPILOG_BEGIN
//@ const: src/debugger/debugee/dwarf/unit/mod.rs :: END_SEQUENCE

pub struct LineRow {
    pub address: u64,
    pub file_index: u64,
    pub line: u64,
    pub column: u64,
    pub flags: u8,
}

pub struct GimliError;

/// one decoded row of the DWARF line-number matrix (gimli::LineRow): only its accessors are used
pub struct GRow {
    pub address: u64,
    pub file_index: u64,
    pub line: Option<u64>,      // None: no source line (gimli: line 0)
    pub column: Option<u64>,    // None: ColumnType::LeftEdge
    pub is_stmt: bool,
    pub prologue_end: bool,
    pub epilogue_begin: bool,
    pub end_sequence: bool,
}

pub enum ColumnType { LeftEdge, Column(NonZero) }
pub struct NonZero(pub u64);
impl NonZero {
    #[verifier::external_body]
    pub fn get(&self) -> (r: u64) ensures r == self.0 { self.0 }
}

impl GRow {
    #[verifier::external_body] pub fn address(&self) -> (r: u64) ensures r == self.address { self.address }
    #[verifier::external_body] pub fn file_index(&self) -> (r: u64) ensures r == self.file_index { self.file_index }
    #[verifier::external_body] pub fn is_stmt(&self) -> (r: bool) ensures r == self.is_stmt { self.is_stmt }
    #[verifier::external_body] pub fn prologue_end(&self) -> (r: bool) ensures r == self.prologue_end { self.prologue_end }
    #[verifier::external_body] pub fn epilogue_begin(&self) -> (r: bool) ensures r == self.epilogue_begin { self.epilogue_begin }
    #[verifier::external_body] pub fn end_sequence(&self) -> (r: bool) ensures r == self.end_sequence { self.end_sequence }
    #[verifier::external_body]
    pub fn column(&self) -> (r: ColumnType)
        ensures match r { ColumnType::LeftEdge => self.column is None, ColumnType::Column(x) => self.column == Some(x.0) },
    { unimplemented!() }
    #[verifier::external_body]
    pub fn line(&self) -> (r: Option<NonZero>)
        ensures r is Some <==> self.line is Some, r is Some ==> r->Some_0.0 == self.line->Some_0,
    { unimplemented!() }
    /// `line_row.line().map(NonZeroU64::get).unwrap_or(0)`
    #[verifier::external_body]
    pub fn line_or_zero(&self) -> (r: u64)
        ensures r == (if self.line is Some { self.line->Some_0 } else { 0 }),
    { unimplemented!() }
}

/// the line program as a source of rows: `remaining` is what next_row will still yield
pub struct RowSource {
    pub remaining: Ghost<Seq<GRow>>,
}
impl RowSource {
    #[verifier::external_body]
    pub fn next_row(&mut self) -> (r: Result<Option<(u64, GRow)>, GimliError>)
        ensures
            r is Ok && r->Ok_0 is Some ==> old(self).remaining@.len() > 0 && r->Ok_0->Some_0.1 == old(self).remaining@[0] && final(self).remaining@ == old(self).remaining@.subrange(1, old(self).remaining@.len() as int),
            r is Ok && r->Ok_0 is None ==> old(self).remaining@.len() == 0 && final(self).remaining@ == old(self).remaining@,
    { unimplemented!() }
}

pub open spec fn flags_of(g: GRow) -> u8 {
    let f0 = 0u8;
    let f1 = if g.is_stmt { f0 | IS_STMT } else { f0 };
    let f2 = if g.prologue_end { f1 | PROLOG_END } else { f1 };
    let f3 = if g.epilogue_begin { f2 | EPILOG_BEGIN } else { f2 };
    if g.end_sequence { f3 | END_SEQUENCE } else { f3 }
}

/// the table row that corresponds to one DWARF row
pub open spec fn row_of(g: GRow) -> LineRow {
    LineRow {
        address: g.address,
        file_index: g.file_index,
        line: if g.line is Some { g.line->Some_0 } else { 0 },
        column: if g.column is Some { g.column->Some_0 } else { 0 },
        flags: flags_of(g),
    }
}

#[verifier::external_body]
fn outline_shrink(lines: &mut Vec<LineRow>)
    ensures final(lines)@ == old(lines)@,
{
    lines.shrink_to_fit();
}

//@ extract: fn parse_lines
//@   sig: fn parse_lines(rows: &mut RowSource) -> (r: Result<Vec<LineRow>, GimliError>)
//@   ensures E_all: r is Ok ==> r->Ok_0@.len() == old(rows).remaining@.len()
//@   ensures E_rows: r is Ok ==> forall|i: int| 0 <= i < r->Ok_0@.len() ==> #[trigger] r->Ok_0@[i] == row_of(old(rows).remaining@[i])
//@   rewrite W_col: `gimli::ColumnType::` => `ColumnType::`
//@   outline O_line: `line_row.line().map(NonZeroU64::get).unwrap_or(0)` => `line_row.line_or_zero()`
//@   outline O_shrink: `lines.shrink_to_fit();` => `outline_shrink(&mut lines);`
//@   proof before `let mut lines = vec![];`: let ghost all = rows.remaining@;
//@   loop 0 invariant I_pl1: lines@.len() + rows.remaining@.len() == all.len()
//@   loop 0 invariant I_pl2: rows.remaining@ =~= all.subrange(lines@.len() as int, all.len() as int)
//@   loop 0 invariant I_pl3: forall|i: int| 0 <= i < lines@.len() ==> #[trigger] lines@[i] == row_of(all[i])
//@   loop 0 decreases: rows.remaining@.len()
//@ end

} // verus!
fn main() {}
