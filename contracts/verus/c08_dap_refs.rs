//@ unit: C08.dap_refs
//@ props: C08 C15
//@ implicit: C08
//@ source: src/dap/yadap/session/mod.rs
//@ fn: parse_memory_reference_with_offset (arithmetic after the text has been parsed)
//@ assume: std contracts of i64::try_from(usize), i64::checked_add, usize::try_from(i64) (outlined); anyhow error construction is replaced by a unit error type
//@ notcovered: parse_memory_reference (str::trim / strip_prefix / from_str_radix on the reference text)
use vstd::prelude::*;
verus! {
//@ include: prelude.rs

pub struct AnyErr;

#[verifier::external_body]
fn outline_parse_memory_reference(reference: &str) -> (r: Result<usize, AnyErr>)
{
    unimplemented!()
}

#[verifier::external_body]
fn outline_i64_try_from(base: usize) -> (r: Result<i64, AnyErr>)
    ensures r is Ok <==> base <= 0x7fff_ffff_ffff_ffff, r is Ok ==> r->Ok_0 == base,
{
    i64::try_from(base).map_err(|_| AnyErr)
}

#[verifier::external_body]
fn outline_checked_add(a: i64, b: i64) -> (r: Result<i64, AnyErr>)
    ensures r is Ok <==> -0x8000_0000_0000_0000 <= a + b <= 0x7fff_ffff_ffff_ffff, r is Ok ==> r->Ok_0 == a + b,
{
    a.checked_add(b).ok_or(AnyErr)
}

#[verifier::external_body]
fn outline_usize_try_from(a: i64) -> (r: Result<usize, AnyErr>)
    ensures r is Ok <==> a >= 0, r is Ok ==> r->Ok_0 == a,
{
    usize::try_from(a).map_err(|_| AnyErr)
}

//@ extract: fn parse_memory_reference_with_offset
//@   sig: fn parse_memory_reference_with_offset(reference: &str, offset: i64) -> (r: Result<usize, AnyErr>)
//@   ensures E_range: r is Ok ==> r->Ok_0 <= 0x7fff_ffff_ffff_ffff
//@   rewrite W_parse: `parse_memory_reference(reference)?` => `outline_parse_memory_reference(reference)?`
//@   outline O_i64: `i64::try_from(base).context($m)?` => `outline_i64_try_from(base)?`
//@   outline O_add: `base_i64 .checked_add(offset) .ok_or_else($c)?` => `outline_checked_add(base_i64, offset)?`
//@   rewrite W_bail: `anyhow::bail!($m);` => `return Err(AnyErr);`
//@   outline O_usize: `usize::try_from(addr).context($m)` => `outline_usize_try_from(addr)`
//@ end



} // verus!
fn main() {}
