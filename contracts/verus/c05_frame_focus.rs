//@ unit: C05.frame_focus
//@ props: C05 C08 C19
//@ implicit: C08
//@ source: src/debugger/mod.rs
//@ fn: Debugger::set_frame_into_focus, Debugger::ecx_update_location, Debugger::ecx_restore_frame, Debugger::ecx_switch_thread, ExplorationContext::new
//@ shim: src/debugger/mod.rs :: struct ExplorationContext :: focus_location: Location, focus_frame: u32
//@ shim: src/debugger/debugee/mod.rs :: struct Location :: pc: RelocatedAddress, global_pc: GlobalAddress, pid: Pid
//@ assume: `self.debugee.unwind(pid)` returns the backtrace `spec_backtrace(debugee, pid)` (gimli CFI unwinding: external; its register carriage is covered by the Kani units of C05); `frame.ip.into_global(&self.debugee)` is the external address conversion (C18)
//@ assume: the macro `disable_when_not_stared!(self)` is expanded by hand to its definition (`if !self.debugee.is_in_progress() { return Err(ProcessNotStarted) }`)
//@ notcovered: what the unwinder puts into the frames, variable/argument evaluation in the selected frame
use vstd::prelude::*;
verus! {
//@ include: prelude.rs

#[derive(Clone, Copy, PartialEq, Eq)]
pub struct RelocatedAddress(pub usize);
#[derive(Clone, Copy, PartialEq, Eq)]
pub struct GlobalAddress(pub usize);
#[derive(Clone, Copy, PartialEq, Eq)]
pub struct Pid(pub i32);
pub enum DbgError { ProcessNotStarted, FrameNotFound(u32), Other }
#[derive(Clone, Copy)]
pub struct Location { pub pc: RelocatedAddress, pub global_pc: GlobalAddress, pub pid: Pid }
pub struct FrameSpan { pub ip: RelocatedAddress }
pub struct ExplorationContext { pub focus_location: Location, pub focus_frame: u32 }
pub struct Debugee;
pub struct Debugger { pub debugee: Debugee, pub expl_context: ExplorationContext }

pub uninterp spec fn spec_backtrace(d: &Debugee, pid: Pid) -> Seq<FrameSpan>;
pub uninterp spec fn spec_global(d: &Debugee, a: RelocatedAddress) -> GlobalAddress;
/// the real location (thread, program counter) of thread `pid` as the kernel reports it
pub uninterp spec fn spec_real_location(d: &Debugee, pid: Pid) -> Location;

impl Debugee {
    #[verifier::external_body] pub fn is_in_progress(&self) -> (r: bool) { unimplemented!() }
    #[verifier::external_body]
    pub fn unwind(&self, pid: Pid) -> (r: Result<Vec<FrameSpan>, DbgError>)
        ensures r is Ok ==> r->Ok_0@ == spec_backtrace(self, pid),
    { unimplemented!() }
}
impl RelocatedAddress {
    #[verifier::external_body]
    pub fn into_global(self, d: &Debugee) -> (r: Result<GlobalAddress, DbgError>)
        ensures r is Ok ==> r->Ok_0 == spec_global(d, self),
    { unimplemented!() }
}
impl ExplorationContext {
//@ extract: impl ExplorationContext / fn new
//@   ret: r
//@   ensures E_new: r.focus_location == location && r.focus_frame == frame_num
//@ end
    #[verifier::external_body]
    pub fn pid_on_focus(&self) -> (r: Pid) ensures r == self.focus_location.pid { unimplemented!() }
    #[verifier::external_body]
    pub fn frame_num(&self) -> (r: u32) ensures r == self.focus_frame { unimplemented!() }
    #[verifier::external_body]
    pub fn location(&self) -> (r: Location) ensures r == self.focus_location { unimplemented!() }
}
impl Debugger {
    #[verifier::external_body]
    pub fn ecx(&self) -> (r: &ExplorationContext) ensures *r == self.expl_context { unimplemented!() }

    /// self.debugee.get_tracee_ensure(pid).location(&self.debugee)
    #[verifier::external_body]
    fn outline_real_location(&self, pid: Pid) -> (r: Result<Location, DbgError>)
        ensures r is Ok ==> r->Ok_0 == spec_real_location(&self.debugee, pid),
    { unimplemented!() }

//@ extract: impl Debugger / fn ecx_update_location
//@   sig: fn ecx_update_location(&mut self) -> (r: Result<(), DbgError>)
//@   ensures E_upd: r is Ok ==> final(self).expl_context.focus_frame == 0 && final(self).expl_context.focus_location == spec_real_location(&old(self).debugee, old(self).expl_context.focus_location.pid)
//@   ensures E_upd_err: r is Err ==> final(self).expl_context == old(self).expl_context
//@   outline O_loc: `self.debugee .get_tracee_ensure(old_ecx.pid_on_focus()) .location(&self.debugee)?` => `self.outline_real_location(old_ecx.pid_on_focus())?`
//@   rewrite W_ret: `Ok(&self.expl_context)` => `Ok(())`
//@   rewrite W_old: `let old_ecx = self.ecx();` => `let old_ecx = ExplorationContext { focus_location: self.expl_context.focus_location, focus_frame: self.expl_context.focus_frame };`
//@ end

//@ extract: impl Debugger / fn ecx_restore_frame
//@   sig: fn ecx_restore_frame(&mut self) -> (r: Result<(), DbgError>)
//@   ensures E_restore: r is Ok ==> final(self).expl_context.focus_frame == 0 && final(self).expl_context.focus_location == spec_real_location(&old(self).debugee, old(self).expl_context.focus_location.pid)
//@ end

//@ extract: impl Debugger / fn ecx_switch_thread
//@   sig: fn ecx_switch_thread(&mut self, pid: Pid) -> (r: Result<(), DbgError>)
//@   ensures E_switch: r is Ok ==> final(self).expl_context.focus_frame == 0 && final(self).expl_context.focus_location == spec_real_location(&old(self).debugee, pid)
//@   outline O_loc: `self.debugee .get_tracee_ensure(pid) .location(&self.debugee)?` => `self.outline_real_location(pid)?`
//@   rewrite W_ret: `Ok(&self.expl_context)` => `Ok(())`
//@ end

//@ extract: impl Debugger / fn set_frame_into_focus
//@   sig: pub fn set_frame_into_focus(&mut self, num: u32) -> (r: Result<u32, DbgError>)
//@   ensures E_ok: r is Ok ==> r->Ok_0 == num && num < spec_backtrace(&old(self).debugee, old(self).expl_context.focus_location.pid).len()
//@   ensures E_ctx: r is Ok ==> final(self).expl_context.focus_frame == num && final(self).expl_context.focus_location.pc == spec_backtrace(&old(self).debugee, old(self).expl_context.focus_location.pid)[num as int].ip && final(self).expl_context.focus_location.pid == old(self).expl_context.focus_location.pid && final(self).expl_context.focus_location.global_pc == spec_global(&old(self).debugee, final(self).expl_context.focus_location.pc)
//@   ensures E_err: r is Err ==> final(self).expl_context == old(self).expl_context
//@   rewrite W_macro: `disable_when_not_stared!(self);` => `if !self.debugee.is_in_progress() { return Err(DbgError::ProcessNotStarted); }`
//@   rewrite W_err: `FrameNotFound(num)` => `DbgError::FrameNotFound(num)`
//@ end
}

} // verus!
fn main() {}
