//@ unit: C05.cfi_lookup
//@ props: C05
//@ implicit: C05
//@ source: src/debugger/debugee/dwarf/unwind.rs
//@ fn: UnwindContext::new (CFI lookup statement: .eh_frame first, .debug_frame fallback)
//@ assume: address-space typing: both fields of Location are modelled by one shim type `Addr` with a ghost space tag; Location::pc is a run-time (relocated) address, Location::global_pc the file-relative one (`ecx.location()` contract); gimli's fde_for_address / unwind_info_for_address work on the address space of the object file, so their PRECONDITION (on the outlined calls) is that the address handed over is file-relative -- an object loaded at a non-zero offset is unwound correctly only then
//@ assume: gimli's lookups themselves (external crate); `e.into()` error conversion outlined
//@ notcovered: which FDE/row gimli returns, CFA evaluation and register rules (evaluate_cfa, the closures below the fragment), the register carriage (Kani units of C05)
use vstd::prelude::*;
verus! {
//@ include: prelude.rs

pub struct DbgError;
pub enum Space { Relocated, Global }
#[derive(Clone, Copy)]
pub struct Addr { pub v: usize, pub space: Ghost<Space> }
#[derive(Clone, Copy)]
pub struct Location { pub pc: Addr, pub global_pc: Addr }
pub struct ExplorationContext { pub loc: Location }
impl ExplorationContext {
    #[verifier::external_body]
    pub fn location(&self) -> (r: Location)
        ensures r.pc.space@ is Relocated, r.global_pc.space@ is Global,
    { unimplemented!() }
}
pub mod gimli { pub enum Error { NoUnwindInfoForAddress, Other } }
pub struct Bases;
pub struct Fde;
pub struct Row;
pub struct Ucx;
pub struct EhFrame;
pub struct DebugFrame;
pub struct DebugInformation { pub eh_frame: EhFrame, pub debug_frame: Option<DebugFrame>, pub bases: Bases }

#[verifier::external_body]
fn outline_eh_fde(eh: &EhFrame, bases: &Bases, a: Addr) -> (r: Result<Fde, gimli::Error>)
    requires a.space@ is Global,
{ unimplemented!() }
#[verifier::external_body]
fn outline_df_fde(df: &DebugFrame, bases: &Bases, a: Addr) -> (r: Result<Fde, gimli::Error>)
    requires a.space@ is Global,
{ unimplemented!() }
#[verifier::external_body]
fn outline_eh_row(fde: &Fde, eh: &EhFrame, bases: &Bases, ucx: &mut Ucx, a: Addr) -> (r: Result<Row, DbgError>)
    requires a.space@ is Global,
{ unimplemented!() }
#[verifier::external_body]
fn outline_df_row(fde: &Fde, df: &DebugFrame, bases: &Bases, ucx: &mut Ucx, a: Addr) -> (r: Result<Row, DbgError>)
    requires a.space@ is Global,
{ unimplemented!() }
#[verifier::external_body]
fn outline_err(e: gimli::Error) -> (r: DbgError) { unimplemented!() }

//@ extract: impl UnwindContext / fn new
//@   fragment: `let (fde, row) = match dwarf.eh_frame.fde_for_address(` .. `^let cfa = dwarf.evaluate_cfa(`
//@   sig: fn cfi_lookup(dwarf: &DebugInformation, ecx: &ExplorationContext, mut ucx: Ucx) -> (r: Result<Option<(Fde, Row)>, DbgError>)
//@   tail: Ok(Some((fde, row)))
//@   outline O_eh_fde: `dwarf.eh_frame.fde_for_address( &dwarf.bases, $a.into(), EhFrame::cie_from_offset, )` => `outline_eh_fde(&dwarf.eh_frame, &dwarf.bases, $a)`
//@   outline O_df_fde: `debug_frame.fde_for_address( &dwarf.bases, $a.into(), DebugFrame::cie_from_offset, )` => `outline_df_fde(debug_frame, &dwarf.bases, $a)`
//@   outline O_eh_row: `fde.unwind_info_for_address( &dwarf.eh_frame, &dwarf.bases, &mut ucx, $a.into(), )?` => `outline_eh_row(&fde, &dwarf.eh_frame, &dwarf.bases, &mut ucx, $a)?`
//@   outline O_df_row: `fde.unwind_info_for_address( debug_frame, &dwarf.bases, &mut ucx, $a.into(), )?` => `outline_df_row(&fde, debug_frame, &dwarf.bases, &mut ucx, $a)?`
//@   outline O_into: `e.into()` => `outline_err(e)`
//@ end

} // verus!
fn main() {}
