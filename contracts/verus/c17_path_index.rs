//@ unit: C17.path_index
//@ props: C17
//@ implicit: C17
//@ source: src/debugger/debugee/dwarf/utils.rs
//@ fn: PathSearchIndex::insert_w_head, PathSearchIndex::insert, PathSearchIndex::get
//@ shim: src/debugger/debugee/dwarf/utils.rs :: struct PathIndexInner :: next_nonce: u64, heads: HashMap<string_interner::DefaultSymbol, (Vec<usize>, u64)>, tails: Vec<Vec<string_interner::DefaultSymbol>>, data: HashMap<(u64, usize), T>
//@ shim: src/debugger/debugee/dwarf/utils.rs :: struct PathSearchIndex :: delimiter: String, index: PathIndexInner<T>
//@ assume: the global string interner (gcx().with_interner(|i| i.get_or_intern(s))) is a function of the string: `intern` is an uninterpreted spec function; the postconditions are stated over interned component sequences, so "same components" means "same strings" exactly when the interner is injective (string_interner's documented contract)
//@ assume: splitting the needle on the delimiter (str::starts_with / str::split / skip / iter::once + interning, first statement of get) is outlined as one assumed expression yielding `needle_syms(needle)` with at least one component (str::split never yields an empty iterator); a change to that expression makes the unit UNDECIDED (unsupported construct), not verified
//@ assume: std contracts: HashMap::entry(k).or_insert_with(f) returns the existing value or inserts f() (f's body is spliced verbatim into `new_rec` and verified); slice::ends_with is suffix equality; `iter().filter(F).filter_map(G).collect()` applies F then G to every element in order and collects the Some results (the composing loop `get_compose` is hand-written; F and G bodies are spliced verbatim); Hash/Eq of DefaultSymbol and (u64, usize) are lawful (vstd obeys_key_model)
//@ assume: signature substitution: path components (`impl IntoIterator<Item = impl AsRef<str>>`, `impl AsRef<str>`) become `Vec<Part>` / `&Part` where Part is an opaque component
//@ notcovered: how function paths are built (demangled linkage name / DIE namespace chain), which objects and units are searched, `symbol <regex>` (regex crate + HashMap), file-path component iteration (std::path), monomorphization lookup in find_function_by_pattern
use vstd::prelude::*;
use std::collections::HashMap;
use vstd::std_specs::hash::*;
verus! {
//@ include: prelude.rs

#[derive(Clone, Copy, PartialEq, Eq, Hash)]
pub struct Sym(pub u32);

/// one path component as the caller passes it (a &str / String in the real code)
pub struct Part(pub u64);

pub uninterp spec fn intern(p: Part) -> Sym;

pub struct PathIndexInner<T> {
    pub next_nonce: u64,
    pub heads: HashMap<Sym, (Vec<usize>, u64)>,
    pub tails: Vec<Vec<Sym>>,
    pub data: HashMap<(u64, usize), T>,
}

pub struct PathSearchIndex<T> {
    pub delimiter: String,
    pub index: PathIndexInner<T>,
}

pub open spec fn tails_view(t: Seq<Vec<Sym>>) -> Seq<Seq<Sym>> { t.map(|i: int, v: Vec<Sym>| v@) }

pub open spec fn ends_with(a: Seq<Sym>, b: Seq<Sym>) -> bool {
    b.len() <= a.len() && a.subrange(a.len() - b.len(), a.len() as int) == b
}

/// the abstract view: the log of inserted (path, value) pairs; a path is never empty
pub open spec fn log_wf<T>(log: Seq<(Seq<Sym>, T)>) -> bool {
    forall|k: int| 0 <= k < log.len() ==> (#[trigger] log[k]).0.len() >= 1
}

/// indices of the log entries whose last path component is `h`, ascending
pub open spec fn as_ints(s: Seq<usize>) -> Seq<int> { s.map_values(|x: usize| x as int) }

pub open spec fn idx_with_head<T>(log: Seq<(Seq<Sym>, T)>, h: Sym) -> Seq<int>
    decreases log.len(),
{
    if log.len() == 0 { Seq::empty() } else {
        let r = idx_with_head(log.drop_last(), h);
        if log.last().0.last() == h { r.push(log.len() - 1) } else { r }
    }
}

/// what a query must return: the values of exactly the entries whose path ends with `needle`, in insertion order
pub open spec fn matching<T>(log: Seq<(Seq<Sym>, T)>, needle: Seq<Sym>) -> Seq<T>
    decreases log.len(),
{
    if log.len() == 0 { Seq::empty() } else {
        let r = matching(log.drop_last(), needle);
        if ends_with(log.last().0, needle) { r.push(log.last().1) } else { r }
    }
}

pub open spec fn represents<T>(ix: &PathIndexInner<T>, log: Seq<(Seq<Sym>, T)>) -> bool {
    &&& log_wf(log)
    &&& ix.tails@.len() == log.len()
    &&& ix.next_nonce <= log.len()
    &&& forall|k: int| 0 <= k < log.len() ==> (#[trigger] ix.tails@[k])@ == log[k].0.drop_last()
    &&& forall|k: int| 0 <= k < log.len() ==> ix.heads@.contains_key((#[trigger] log[k]).0.last())
    &&& forall|h: Sym| #[trigger] ix.heads@.contains_key(h) ==> as_ints(ix.heads@[h].0@) == idx_with_head(log, h) && ix.heads@[h].1 < ix.next_nonce
    &&& forall|h1: Sym, h2: Sym| #[trigger] ix.heads@.contains_key(h1) && #[trigger] ix.heads@.contains_key(h2) && h1 != h2 ==> ix.heads@[h1].1 != ix.heads@[h2].1
    &&& forall|k: int| 0 <= k < log.len() ==> ix.data@.contains_key((ix.heads@[(#[trigger] log[k]).0.last()].1, k as usize)) && ix.data@[(ix.heads@[log[k].0.last()].1, k as usize)] == log[k].1
}


pub struct Gcx;

#[verifier::external_body]
fn outline_gcx() -> (r: Gcx) { unimplemented!() }

#[verifier::external_body]
fn outline_intern(gcx: &Gcx, p: &Part) -> (r: Sym)
    ensures r == intern(*p),
{ unimplemented!() }

pub open spec fn intern_all(p: Seq<Part>) -> Seq<Sym> { p.map(|i: int, x: Part| intern(x)) }

#[verifier::external_body]
fn outline_intern_all(gcx: &Gcx, path: Vec<Part>) -> (r: Vec<Sym>)
    ensures r@ == intern_all(path@),
{ unimplemented!() }


/// the needle split on the delimiter and interned (root-dir rule included): assumed, see outline_split
pub uninterp spec fn needle_syms(needle: &str) -> Seq<Sym>;

//@ extract: impl PathSearchIndex / fn insert_w_head
//@   fragment: `^.or_insert_with(|| {` .. `^});`
//@   splice: F_newrec
//@   rewrite W_nn: `index.next_nonce` => `*next_nonce`
//@ end

//@ begin_fn: src/debugger/debugee/dwarf/utils.rs :: insert_w_head [closure passed to or_insert_with]
fn new_rec(next_nonce: &mut u64) -> (r: (Vec<usize>, u64))
    requires *old(next_nonce) < u64::MAX, /*@@R_nonce*/
    ensures
        r.0@.len() == 0, /*@@E_nr_empty*/
        r.1 == *old(next_nonce), /*@@E_nr_nonce*/
        *final(next_nonce) == *old(next_nonce) + 1, /*@@E_nr_next*/
{
    /*@@SPLICE:F_newrec*/
}
//@ end_fn

/// `index.heads.entry(head).or_insert_with(|| <new_rec>)`
#[verifier::external_body]
fn outline_entry<'a>(heads: &'a mut HashMap<Sym, (Vec<usize>, u64)>, next_nonce: &mut u64, head: Sym) -> (r: &'a mut (Vec<usize>, u64))
    requires *old(next_nonce) < u64::MAX,
    ensures
        old(heads)@.contains_key(head) ==> *r == old(heads)@[head] && *final(next_nonce) == *old(next_nonce),
        !old(heads)@.contains_key(head) ==> r.0@.len() == 0 && r.1 == *old(next_nonce) && *final(next_nonce) == *old(next_nonce) + 1,
        final(heads)@ == old(heads)@.insert(head, *final(r)),
{ unimplemented!() }

proof fn lemma_idx_push<T>(log: Seq<(Seq<Sym>, T)>, e: (Seq<Sym>, T), h: Sym)
    ensures idx_with_head(log.push(e), h) == (if e.0.last() == h { idx_with_head(log, h).push(log.len() as int) } else { idx_with_head(log, h) }),
{
    assert(log.push(e).drop_last() =~= log);
}

proof fn lemma_idx_bound<T>(log: Seq<(Seq<Sym>, T)>, h: Sym)
    ensures forall|j: int| 0 <= j < idx_with_head(log, h).len() ==> 0 <= (#[trigger] idx_with_head(log, h)[j]) < log.len() && log[idx_with_head(log, h)[j]].0.last() == h,
    decreases log.len(),
{
    if log.len() > 0 {
        lemma_idx_bound(log.drop_last(), h);
        let r = idx_with_head(log.drop_last(), h);
        assert forall|j: int| 0 <= j < idx_with_head(log, h).len() implies 0 <= (#[trigger] idx_with_head(log, h)[j]) < log.len() && log[idx_with_head(log, h)[j]].0.last() == h by {
            if j < r.len() {
                assert(idx_with_head(log, h)[j] == r[j]);
                assert(log.drop_last()[r[j]] == log[r[j]]);
            }
        }
    }
}

proof fn lemma_insert_represents<T>(o: &PathIndexInner<T>, n: &PathIndexInner<T>, log: Seq<(Seq<Sym>, T)>, tail: Seq<Sym>, head: Sym, value: T)
    requires
        represents(o, log),
        n.tails@.len() == o.tails@.len() + 1,
        forall|k: int| 0 <= k < o.tails@.len() ==> #[trigger] n.tails@[k] == o.tails@[k],
        n.tails@[o.tails@.len() as int]@ == tail,
        o.heads@.contains_key(head) ==> n.next_nonce == o.next_nonce && n.heads@ == o.heads@.insert(head, n.heads@[head])
            && n.heads@[head].1 == o.heads@[head].1 && n.heads@[head].0@ == o.heads@[head].0@.push(o.tails@.len() as usize),
        !o.heads@.contains_key(head) ==> n.next_nonce == o.next_nonce + 1 && n.heads@ == o.heads@.insert(head, n.heads@[head])
            && n.heads@[head].1 == o.next_nonce && n.heads@[head].0@ =~= Seq::<usize>::empty().push(o.tails@.len() as usize),
        n.data@ == o.data@.insert((n.heads@[head].1, o.tails@.len() as usize), value),
        o.tails@.len() < usize::MAX,
    ensures represents(n, log.push((tail.push(head), value))),
{
    let e = (tail.push(head), value);
    let log2 = log.push(e);
    let kk = log.len() as int;
    assert(e.0.last() == head);
    assert(e.0.drop_last() =~= tail);
    assert(n.heads@.contains_key(head));
    assert forall|h: Sym| #[trigger] n.heads@.contains_key(h) implies as_ints(n.heads@[h].0@) == idx_with_head(log2, h) && n.heads@[h].1 < n.next_nonce by {
        lemma_idx_push(log, e, h);
        if h == head {
            if !o.heads@.contains_key(head) {
                // no earlier entry has this head
                lemma_idx_bound(log, head);
                if idx_with_head(log, head).len() > 0 {
                    let k0 = idx_with_head(log, head)[0];
                    assert(o.heads@.contains_key(log[k0].0.last()));
                }
                assert(idx_with_head(log, head) =~= Seq::<int>::empty());
                assert(as_ints(n.heads@[h].0@) =~= idx_with_head(log2, h));
            } else {
                assert(as_ints(o.heads@[h].0@) == idx_with_head(log, h));
                assert(as_ints(n.heads@[h].0@) =~= idx_with_head(log2, h));
            }
        } else {
            assert(o.heads@.contains_key(h));
            assert(n.heads@[h] == o.heads@[h]);
        }
    }
    assert forall|h1: Sym, h2: Sym| #[trigger] n.heads@.contains_key(h1) && #[trigger] n.heads@.contains_key(h2) && h1 != h2 implies n.heads@[h1].1 != n.heads@[h2].1 by {
        if h1 != head { assert(o.heads@.contains_key(h1)); }
        if h2 != head { assert(o.heads@.contains_key(h2)); }
    }
    assert forall|k: int| 0 <= k < log2.len() implies n.data@.contains_key((n.heads@[(#[trigger] log2[k]).0.last()].1, k as usize)) && n.data@[(n.heads@[log2[k].0.last()].1, k as usize)] == log2[k].1 by {
        if k < kk {
            assert(log2[k] == log[k]);
            let hk = log[k].0.last();
            assert(o.heads@.contains_key(hk));
            assert(n.heads@[hk].1 == o.heads@[hk].1);
        }
    }
    assert forall|k: int| 0 <= k < log2.len() implies (#[trigger] n.tails@[k])@ == log2[k].0.drop_last() by {
        if k < kk { assert(log2[k] == log[k]); assert(n.tails@[k] == o.tails@[k]); }
    }
    assert forall|k: int| 0 <= k < log2.len() implies n.heads@.contains_key((#[trigger] log2[k]).0.last()) by {
        if k < kk { assert(log2[k] == log[k]); assert(o.heads@.contains_key(log[k].0.last())); }
    }
    assert(log_wf(log2)) by {
        assert forall|k: int| 0 <= k < log2.len() implies (#[trigger] log2[k]).0.len() >= 1 by {
            if k < kk { assert(log2[k] == log[k]); }
        }
    }
}


/// `path.into_iter().collect()` on a Vec: the same elements in the same order
#[verifier::external_body]
fn outline_collect_parts(path: Vec<Part>) -> (r: Vec<Part>)
    ensures r@ == path@,
{ unimplemented!() }

/// `path[..n].iter()` handed to insert_w_head: the first n components
#[verifier::external_body]
fn outline_prefix(path: &Vec<Part>, n: usize) -> (r: Vec<Part>)
    requires n <= path@.len(),   // std: slice index panics otherwise
    ensures r@ == path@.take(n as int),
{ unimplemented!() }

#[verifier::external_body]
fn outline_ends_with(tail: &Vec<Sym>, expected_tail: &Vec<Sym>) -> (r: bool)
    ensures r == ends_with(tail@, expected_tail@),
{ unimplemented!() }

/// values selected from the first n candidate indices
pub open spec fn sel<T>(ix: &PathIndexInner<T>, ks: Seq<usize>, nonce: u64, exp_tail: Seq<Sym>, n: int) -> Seq<&T>
    decreases n,
{
    if n <= 0 { Seq::empty() } else {
        let r = sel(ix, ks, nonce, exp_tail, n - 1);
        let k = ks[n - 1];
        if ends_with(ix.tails@[k as int]@, exp_tail) && ix.data@.contains_key((nonce, k)) { r.push(&ix.data@[(nonce, k)]) } else { r }
    }
}

pub open spec fn derefs<T>(s: Seq<&T>) -> Seq<T> { s.map_values(|x: &T| *x) }

proof fn lemma_ends_with_split(p: Seq<Sym>, n: Seq<Sym>)
    requires p.len() >= 1, n.len() >= 1,
    ensures ends_with(p, n) <==> (p.last() == n.last() && ends_with(p.drop_last(), n.drop_last())),
{
    let pl = p.len() as int; let nl = n.len() as int;
    if ends_with(p, n) {
        assert(p.subrange(pl - nl, pl)[nl - 1] == n[nl - 1]);
        assert(p.drop_last().subrange(pl - nl, pl - 1) =~= p.subrange(pl - nl, pl).drop_last());
    }
    if p.last() == n.last() && ends_with(p.drop_last(), n.drop_last()) {
        assert(p.subrange(pl - nl, pl) =~= p.drop_last().subrange(pl - nl, pl - 1).push(p.last()));
        assert(n =~= n.drop_last().push(n.last()));
    }
}

/// selecting over the candidate list of head h == filtering the whole log by the full needle
proof fn lemma_sel_matching<T>(ix: &PathIndexInner<T>, log: Seq<(Seq<Sym>, T)>, needle: Seq<Sym>, m: int)
    requires represents(ix, log), needle.len() >= 1, ix.heads@.contains_key(needle.last()), 0 <= m <= log.len(),
    ensures ({
        let h = needle.last();
        let ks = ix.heads@[h].0@;
        let pre = idx_with_head(log.take(m), h);
        pre.len() <= ks.len() && pre =~= as_ints(ks).take(pre.len() as int)
        && derefs(sel(ix, ks, ix.heads@[h].1, needle.drop_last(), pre.len() as int)) == matching(log.take(m), needle)
    }),
    decreases m,
{
    let h = needle.last();
    let ks = ix.heads@[h].0@;
    let nonce = ix.heads@[h].1;
    lemma_idx_prefix(log, h, m);
    if m > 0 {
        lemma_sel_matching(ix, log, needle, m - 1);
        assert(log.take(m).drop_last() =~= log.take(m - 1));
        let e = log[m - 1];
        assert(log.take(m).last() == e);
        let pre0 = idx_with_head(log.take(m - 1), h);
        let pre = idx_with_head(log.take(m), h);
        lemma_ends_with_split(e.0, needle);
        if e.0.last() == h {
            assert(pre =~= pre0.push(m - 1));
            let n = pre.len() as int;
            assert(as_ints(ks)[n - 1] == pre[n - 1]);
            assert(ks[n - 1] as int == m - 1);
            assert(ix.tails@[m - 1]@ == e.0.drop_last());
            assert(ix.data@.contains_key((nonce, (m - 1) as usize)));
            assert(ix.data@[(nonce, (m - 1) as usize)] == e.1);
            if ends_with(e.0, needle) {
                assert(derefs(sel(ix, ks, nonce, needle.drop_last(), n)) =~= derefs(sel(ix, ks, nonce, needle.drop_last(), n - 1)).push(e.1));
            }
        } else {
            assert(pre =~= pre0);
        }
    } else {
        assert(log.take(0) =~= Seq::empty());
        assert(derefs(sel(ix, ks, nonce, needle.drop_last(), 0)) =~= Seq::<T>::empty());
    }
}

/// idx_with_head of a prefix of the log is a prefix of idx_with_head of the log
proof fn lemma_idx_prefix<T>(log: Seq<(Seq<Sym>, T)>, h: Sym, m: int)
    requires 0 <= m <= log.len(),
    ensures idx_with_head(log.take(m), h).len() <= idx_with_head(log, h).len(),
        idx_with_head(log.take(m), h) =~= idx_with_head(log, h).take(idx_with_head(log.take(m), h).len() as int),
    decreases log.len() - m,
{
    if m < log.len() {
        lemma_idx_prefix(log, h, m + 1);
        assert(log.take(m + 1).drop_last() =~= log.take(m));
    } else {
        assert(log.take(m) =~= log);
    }
}

proof fn lemma_no_head_no_match<T>(ix: &PathIndexInner<T>, log: Seq<(Seq<Sym>, T)>, needle: Seq<Sym>, m: int)
    requires represents(ix, log), needle.len() >= 1, !ix.heads@.contains_key(needle.last()), 0 <= m <= log.len(),
    ensures matching(log.take(m), needle) =~= Seq::<T>::empty(),
    decreases m,
{
    if m > 0 {
        lemma_no_head_no_match(ix, log, needle, m - 1);
        assert(log.take(m).drop_last() =~= log.take(m - 1));
        let e = log[m - 1];
        assert(log.take(m).last() == e);
        assert(ix.heads@.contains_key(e.0.last()));
        lemma_ends_with_split(e.0, needle);
    } else {
        assert(log.take(0) =~= Seq::empty());
    }
}


impl<T> PathSearchIndex<T> {
//@ extract: impl PathSearchIndex / fn insert_w_head
//@   sig: pub fn insert_w_head(&mut self, path: Vec<Part>, head: &Part, value: T)
//@   requires R_keys: obeys_key_model::<Sym>() && obeys_key_model::<(u64, usize)>()
//@   requires R_repr: exists|log: Seq<(Seq<Sym>, T)>| represents(&old(self).index, log)
//@   requires R_room: old(self).index.tails@.len() < usize::MAX
//@   ensures E_ins: forall|log: Seq<(Seq<Sym>, T)>| represents(&old(self).index, log) ==> #[trigger] represents(&final(self).index, log.push((intern_all(path@).push(intern(*head)), value)))
//@   outline O_gcx: `gcx()` => `outline_gcx()`
//@   outline O_intern_all: `path .into_iter() .map(|p| gcx.with_interner(|i| i.get_or_intern(p))) .collect()` => `outline_intern_all(&gcx, path)`
//@   outline O_intern: `gcx.with_interner(|i| i.get_or_intern($p))` => `outline_intern(&gcx, $p)`
//@   outline O_entry: `index.heads.entry(head).or_insert_with($clo)` => `outline_entry(&mut index.heads, &mut index.next_nonce, head)`
//@   proof before `let head_entry =`: broadcast use group_hash_axioms; let log0 = choose|log: Seq<(Seq<Sym>, T)>| represents(&old(self).index, log); assert(represents(&old(self).index, log0));
//@   proof after `index.data.insert((head_entry.1, tail_idx), value);`: assert forall|log: Seq<(Seq<Sym>, T)>| represents(&old(self).index, log) implies #[trigger] represents(&self.index, log.push((tail@.push(head), value))) by { lemma_insert_represents(&old(self).index, &self.index, log, tail@, head, value); }
//@ end

//@ extract: impl PathSearchIndex / fn insert
//@   sig: pub fn insert(&mut self, path: Vec<Part>, value: T)
//@   requires R_keys: obeys_key_model::<Sym>() && obeys_key_model::<(u64, usize)>()
//@   requires R_repr: exists|log: Seq<(Seq<Sym>, T)>| represents(&old(self).index, log)
//@   requires R_room: old(self).index.tails@.len() < usize::MAX
//@   ensures E_insert: forall|log: Seq<(Seq<Sym>, T)>| represents(&old(self).index, log) ==> (path@.len() == 0 ==> represents(&final(self).index, log)) && (path@.len() > 0 ==> #[trigger] represents(&final(self).index, log.push((intern_all(path@), value))))
//@   outline O_collect: `path.into_iter().collect()` => `outline_collect_parts(path)`
//@   outline O_prefix: `path[..$n].iter()` => `outline_prefix(&path, $n)`
//@   proof before `self.insert_w_head(`: assert(intern_all(path@.take(path@.len() - 1)).push(intern(*head)) =~= intern_all(path@));
//@ end

    /// first statement of `get`: split the needle on the delimiter (root-dir rule) and intern every part
    #[verifier::external_body]
    fn outline_split(&self, needle: &str) -> (r: Vec<Sym>)
        ensures r@ == needle_syms(needle), r@.len() >= 1,   // str::split yields at least one item
    { unimplemented!() }

//@ extract: impl PathSearchIndex / fn get
//@   fragment: `^.filter(|&&idx| {` .. `^});`
//@   splice: F_filter
//@   outline O_ends: `tail.ends_with($b)` => `outline_ends_with(tail, $b)`
//@ end
//@ extract: impl PathSearchIndex / fn get
//@   fragment: `^.filter_map(|tail_idx|` .. `^) .collect()`
//@   splice: F_map
//@ end

//@ begin_fn: src/debugger/debugee/dwarf/utils.rs :: get [filter / filter_map closures over the candidate list]
    #[verifier::loop_isolation(false)]
    fn get_compose<'a>(&'a self, tail_indexes: &Vec<usize>, head_nonce: &u64, expected_tail: &Vec<Sym>) -> (r: Vec<&'a T>)
        requires
            obeys_key_model::<Sym>() && obeys_key_model::<(u64, usize)>(),
            forall|j: int| 0 <= j < tail_indexes@.len() ==> (#[trigger] tail_indexes@[j]) < self.index.tails@.len(), /*@@R_gc_inb*/
        ensures
            r@ == sel(&self.index, tail_indexes@, *head_nonce, expected_tail@, tail_indexes@.len() as int), /*@@E_gc_sel*/
    {
        broadcast use group_hash_axioms;
        let mut out: Vec<&T> = Vec::new();
        let mut i = 0;
        while i < tail_indexes.len()
            invariant
                0 <= i <= tail_indexes@.len(),
                out@ == sel(&self.index, tail_indexes@, *head_nonce, expected_tail@, i as int), /*@@I_gc_sel*/
            decreases tail_indexes@.len() - i,
        {
            let idx = tail_indexes[i];        // `|&&idx|`
            let tail_idx = &tail_indexes[i];  // `|tail_idx|`
            if { /*@@SPLICE:F_filter*/ } {
                if let Some(v) = /*@@SPLICE:F_map*/ {
                    out.push(v);
                }
            }
            i += 1;
            proof { reveal_with_fuel(sel, 2); }
        }
        out
    }
//@ end_fn

//@ extract: impl PathSearchIndex / fn get
//@   ret: r
//@   requires R_keys: obeys_key_model::<Sym>() && obeys_key_model::<(u64, usize)>()
//@   requires R_repr: exists|log: Seq<(Seq<Sym>, T)>| represents(&self.index, log)
//@   ensures E_get: forall|log: Seq<(Seq<Sym>, T)>| #[trigger] represents(&self.index, log) ==> derefs(r@) =~= matching(log, needle_syms(needle))
//@   outline O_split: `if needle.starts_with(&self.delimiter) { iter::once(self.delimiter.as_str()) .chain(needle.split(&self.delimiter).skip(1)) .map(|part| gcx().with_interner(|i| i.get_or_intern(part))) .collect() } else { needle .split(&self.delimiter) .map(|part| gcx().with_interner(|i| i.get_or_intern(part))) .collect() }` => `self.outline_split(needle)`
//@   outline O_chain: `let tail_indexes = tail_indexes.iter().filter($f); tail_indexes .filter_map($g) .collect()` => `let r_ = self.get_compose(tail_indexes, head_nonce, &expected_tail); proof { assert forall|log: Seq<(Seq<Sym>, T)>| #[trigger] represents(&self.index, log) implies derefs(r_@) == matching(log, needle_syms(needle)) by { lemma_sel_matching(&self.index, log, needle_syms(needle), log.len() as int); assert(log.take(log.len() as int) =~= log); assert(expected_tail@ =~= needle_syms(needle).drop_last()); } } r_`
//@   proof before `let Some((tail_indexes, head_nonce)) =`: broadcast use group_hash_axioms; assert(derefs(Seq::<&T>::empty()) =~= Seq::<T>::empty()); if !self.index.heads@.contains_key(expected_head) { assert forall|log: Seq<(Seq<Sym>, T)>| #[trigger] represents(&self.index, log) implies matching(log, needle_syms(needle)) =~= Seq::<T>::empty() by { lemma_no_head_no_match(&self.index, log, needle_syms(needle), log.len() as int); assert(log.take(log.len() as int) =~= log); } } else { let log0 = choose|log: Seq<(Seq<Sym>, T)>| represents(&self.index, log); lemma_idx_bound(log0, expected_head); let ks = self.index.heads@[expected_head].0@; assert(as_ints(ks) == idx_with_head(log0, expected_head)); assert forall|j: int| 0 <= j < ks.len() implies (#[trigger] ks[j]) < self.index.tails@.len() by { assert(as_ints(ks)[j] == ks[j] as int); } }
//@ end
}

} // verus!
fn main() {}
