//@ unit: C09.single_step_moved
//@ props: C09
//@ implicit: C09
//@ source: src/debugger/debugee/tracer.rs
//@ fn: Tracer::single_step (same extraction as C10.single_step; this copy owns the pc-moved assertion for C09 and leaves the queue-distinctness clauses, whose known finding is recorded under C10, to the C10 unit)
//@ shim: src/debugger/debugee/tracer.rs :: struct Tracer :: tracee_ctl: TraceeCtl, inject_signal_queue: VecDeque<(Pid, Signal)>
//@ assume: ghost ledger on the TraceeCtl shim: `arrived` = signals the kernel reported in signal-delivery-stop and that the debugger took responsibility for (appended by apply_new_status exactly when it queues one), `delivered` = signals injected into the debuggee with PTRACE_CONT / PTRACE_SINGLESTEP
//@ assume: a wait status obtained from Tracee::wait_one is about that thread, and the SignalStop reported for it names that thread (the `WaitStatus::Stopped(pid, signal)` arm)
//@ assume: apply_new_status (assumed contract; its signal-stop arm is proved by the Kani unit C10.push): delivers nothing; appends the same sequence `added` to the queue and to `arrived`; when it reports SignalStop(p, s) with s quiet (hence not SIGINT: C10.tables) then added == [(p, s)] (no group stop is made for quiet signals, so nothing else is queued)
//@ assume: environment substitution: `self.tracee_ctl.tracee_ensure(pid).step(sig)` (PTRACE_SINGLESTEP with a signal, through &self) is rewritten to `self.tracee_ctl.step_thread(pid, sig)` on `&mut TraceeCtl` so that the ghost ledger can record the injection; `Tracee::step(None)`, pc(), wait_one(), getsiginfo, ptrace::syscall, the debug-register reads and the breakpoint lookup have no effect on the ledger
//@ assume: the three `unreachable!` arms diverge (panic): outlined as a helper that never returns; panic-freedom of single_step is not claimed
//@ assume: (C03/C09) a completed step is reported (trap branch, `break None`) only when the program counter differs from the one the thread had when single_step was entered (asserted at that exit): an instruction that traps without moving the pc (rep-prefixed string instructions) is stepped again, so one arrival is one report
//@ notcovered: termination (the loop waits for the debuggee), the trap classification (si_code tests are outlined as opaque predicates), watchpoint detection, syscall-stop handling, that the kernel delivers the signal passed to PTRACE_SINGLESTEP exactly once
use vstd::prelude::*;
use std::collections::VecDeque;
verus! {
//@ include: prelude.rs

#[derive(Clone, Copy, PartialEq, Eq)]
pub struct Pid(pub i32);
#[derive(Clone, Copy, PartialEq, Eq)]
pub struct Signal(pub i32);
pub enum DbgError { Ptrace, Waitpid, ProcessExit(i32), Other }
use DbgError::ProcessExit;
#[derive(Clone, Copy, PartialEq, Eq, Structural)]
pub struct RelocatedAddress(pub usize);
pub struct WaitStatus(pub i32);
/// the thread a wait status is about (first field of every nix WaitStatus variant)
pub uninterp spec fn status_pid(s: WaitStatus) -> Pid;
pub struct SigInfo { pub si_code: i32 }
#[derive(Clone, Copy)]
pub struct TraceContext;
#[derive(Clone, Copy)]
pub struct DebugRegisterNumber(pub u8);
pub enum WatchpointHitType { DebugRegister(DebugRegisterNumber), EndOfScope(Vec<u32>) }
pub enum BrkptType { WatchpointCompanion(Vec<u32>), Other }
pub struct Breakpoint { pub addr: RelocatedAddress }

pub enum StopReason {
    DebugeeExit(i32),
    DebugeeStart,
    Breakpoint(Pid, RelocatedAddress),
    Watchpoint(Pid, RelocatedAddress, WatchpointHitType),
    SignalStop(Pid, Signal),
    NoSuchProcess(Pid),
}

pub struct Tracee { pub pid: Pid, pub pc_: Ghost<usize> }
impl Tracee {
    #[verifier::external_body]
    pub fn pc(&self) -> (r: Result<RelocatedAddress, DbgError>) ensures r is Ok ==> r->Ok_0.0 == self.pc_@, { unimplemented!() }
    /// PTRACE_SINGLESTEP without a signal: nothing is injected
    #[verifier::external_body]
    pub fn step(&self, sig: Option<Signal>) -> (r: Result<(), DbgError>)
        requires sig is None,
    { unimplemented!() }
    #[verifier::external_body]
    pub fn wait_one(&self) -> (r: Result<WaitStatus, DbgError>)
        ensures r is Ok ==> status_pid(r->Ok_0) == self.pid,   // waitpid(self.pid, ..) reports this thread only
    { unimplemented!() }
}

pub struct TraceeCtl {
    /// ghost: every (thread, signal) pair injected into the debuggee, in order
    pub delivered: Ghost<Seq<(Pid, Signal)>>,
    /// ghost: every (thread, signal) pair the debugger intercepted and became responsible for
    pub arrived: Ghost<Seq<(Pid, Signal)>>,
    pub process_pid: Pid,
}

/// program counter of thread `pid` as long as nobody resumed it (a function of the control block's state)
pub uninterp spec fn entry_pc(c: &TraceeCtl, pid: Pid) -> usize;

impl TraceeCtl {
    #[verifier::external_body]
    pub fn tracee_ensure(&self, pid: Pid) -> (r: &Tracee) ensures r.pid == pid, r.pc_@ == entry_pc(self, pid), { unimplemented!() }
    #[verifier::external_body]
    pub fn tracee_ensure_mut(&mut self, pid: Pid) -> (r: &mut Tracee)
        ensures r.pid == pid, final(self).delivered@ == old(self).delivered@, final(self).arrived@ == old(self).arrived@,
            final(self).process_pid == old(self).process_pid,
    { unimplemented!() }
    /// `self.tracee_ensure(pid).step(sig)`: PTRACE_SINGLESTEP of thread `pid`, injecting `sig` if there is one
    #[verifier::external_body]
    pub fn step_thread(&mut self, pid: Pid, sig: Option<Signal>) -> (r: Result<(), DbgError>)
        ensures
            final(self).arrived@ == old(self).arrived@, final(self).process_pid == old(self).process_pid,
            r is Ok && sig is Some ==> final(self).delivered@ == old(self).delivered@.push((pid, sig->Some_0)),
            r is Ok && sig is None ==> final(self).delivered@ == old(self).delivered@,
    { unimplemented!() }
}

pub struct Dr6;
impl Dr6 {
    #[verifier::external_body]
    pub fn detect_and_flush(&mut self) -> (r: Option<DebugRegisterNumber>) { unimplemented!() }
}
pub struct HardwareDebugState { pub dr6: Dr6 }
impl HardwareDebugState {
    #[verifier::external_body]
    pub fn sync(&self, pid: Pid) -> (r: Result<(), DbgError>) { unimplemented!() }
}

#[verifier::external_body]
fn outline_getsiginfo(pid: Pid) -> (r: Result<SigInfo, DbgError>) { unimplemented!() }
#[verifier::external_body]
fn outline_in_step_trap(status: &WaitStatus, info: &SigInfo) -> (r: bool) { unimplemented!() }
#[verifier::external_body]
fn outline_in_syscall_trap(status: &WaitStatus, info: &SigInfo) -> (r: bool) { unimplemented!() }
#[verifier::external_body]
fn outline_is_interrupt(status: &WaitStatus, pid: Pid) -> (r: bool) { unimplemented!() }
#[verifier::external_body]
fn outline_hw_current(pid: Pid) -> (r: Result<HardwareDebugState, DbgError>) { unimplemented!() }
#[verifier::external_body]
fn outline_find_brkpt(tcx: &TraceContext, pc: RelocatedAddress) -> (r: Option<&Breakpoint>) { unimplemented!() }
#[verifier::external_body]
fn outline_brkpt_type<'a>(b: Option<&'a Breakpoint>) -> (r: Option<&'a BrkptType>) { unimplemented!() }
#[verifier::external_body]
fn outline_ptrace_syscall(pid: Pid) -> (r: Result<(), DbgError>) { unimplemented!() }
/// `unreachable!(..)`: panics, never returns
#[verifier::external_body]
fn outline_diverge() ensures false, { unimplemented!() }

pub uninterp spec fn quiet(s: Signal) -> bool;
pub uninterp spec fn transparent(s: Signal) -> bool;
/// `TRANSPARENT_SIGNALS.contains(&signal)`; the two tables are disjoint (Kani unit C10.tables: QUIET = {ALRM, URG, CHLD, IO, VTALRM, PROF}, TRANSPARENT = {INT})
#[verifier::external_body]
fn outline_is_transparent(signal: &Signal) -> (r: bool) ensures r == transparent(*signal), r ==> !quiet(*signal), { unimplemented!() }
/// `QUIET_SIGNALS.contains(&signal)`; the table itself is proved by the Kani unit C10.tables
#[verifier::external_body]
fn outline_is_quiet(signal: &Signal) -> (r: bool) ensures r == quiet(*signal), { unimplemented!() }

/// Some((thread, signal)) iff `stop` is a signal stop for a quiet signal
pub open spec fn quiet_stop(stop: Option<StopReason>) -> Option<(Pid, Signal)> {
    match stop {
        Some(StopReason::SignalStop(p, s)) => if quiet(s) { Some((p, s)) } else { None },
        _ => None,
    }
}

pub struct Tracer {
    pub tracee_ctl: TraceeCtl,
    pub inject_signal_queue: VecDeque<(Pid, Signal)>,
}

/// every signal the debugger became responsible for is either delivered once or queued once:
/// as multisets, delivered + queue == arrived
pub open spec fn balanced(t: &Tracer) -> bool {
    t.tracee_ctl.delivered@.to_multiset().add(t.inject_signal_queue@.to_multiset()) =~= t.tracee_ctl.arrived@.to_multiset()
}

pub open spec fn queued(q: Seq<(Pid, Signal)>, p: Pid) -> bool { exists|i: int| 0 <= i < q.len() && (#[trigger] q[i]).0 == p }
pub open spec fn distinct_pids(q: Seq<(Pid, Signal)>) -> bool { forall|i: int, j: int| 0 <= i < j < q.len() ==> (#[trigger] q[i]).0 != (#[trigger] q[j]).0 }

/// appending entries for threads that are not queued yet (pairwise different threads) keeps the queue duplicate-free
proof fn lemma_append_distinct(q: Seq<(Pid, Signal)>, added: Seq<(Pid, Signal)>)
    requires distinct_pids(q), distinct_pids(added), forall|i: int| 0 <= i < added.len() ==> !queued(q, (#[trigger] added[i]).0),
    ensures distinct_pids(q + added),
{
    let t = q + added;
    assert forall|i: int, j: int| 0 <= i < j < t.len() implies (#[trigger] t[i]).0 != (#[trigger] t[j]).0 by {
        if j < q.len() { assert(t[i] == q[i] && t[j] == q[j]); }
        else if i < q.len() { assert(t[i] == q[i] && t[j] == added[j - q.len()]); if t[i].0 == t[j].0 { assert(queued(q, added[j - q.len()].0)); } }
        else { assert(t[i] == added[i - q.len()] && t[j] == added[j - q.len()]); }
    }
}

proof fn lemma_drop_last_distinct(q: Seq<(Pid, Signal)>)
    requires distinct_pids(q), q.len() > 0,
    ensures distinct_pids(q.drop_last()), !queued(q.drop_last(), q.last().0),
{
    let t = q.drop_last();
    assert forall|i: int, j: int| 0 <= i < j < t.len() implies (#[trigger] t[i]).0 != (#[trigger] t[j]).0 by { assert(t[i] == q[i] && t[j] == q[j]); }
    if queued(t, q.last().0) { let i = choose|i: int| 0 <= i < t.len() && (#[trigger] t[i]).0 == q.last().0; assert(t[i] == q[i]); assert(q[i].0 != q[q.len() - 1].0); }
}

proof fn lemma_push_ms(s: Seq<(Pid, Signal)>, x: (Pid, Signal))
    ensures s.push(x).to_multiset() =~= s.to_multiset().insert(x),
{
    broadcast use vstd::seq_lib::group_to_multiset_ensures;
}

proof fn lemma_add_ms(s: Seq<(Pid, Signal)>, a: Seq<(Pid, Signal)>)
    ensures (s + a).to_multiset() =~= s.to_multiset().add(a.to_multiset()),
{
    vstd::seq_lib::lemma_multiset_commutative(s, a);
}

proof fn lemma_drop_last_ms(s: Seq<(Pid, Signal)>)
    requires s.len() > 0,
    ensures s.to_multiset() =~= s.drop_last().to_multiset().insert(s.last()),
{
    assert(s =~= s.drop_last().push(s.last()));
    lemma_push_ms(s.drop_last(), s.last());
}

impl Tracer {
    #[verifier::external_body]
    fn apply_new_status(&mut self, tcx: TraceContext, status: WaitStatus) -> (r: Result<Option<StopReason>, DbgError>)
        ensures
            final(self).tracee_ctl.delivered@ == old(self).tracee_ctl.delivered@,
            final(self).tracee_ctl.process_pid == old(self).tracee_ctl.process_pid,
            exists|added: Seq<(Pid, Signal)>|
                #[trigger] (old(self).inject_signal_queue@ + added) == final(self).inject_signal_queue@
                && final(self).tracee_ctl.arrived@ == old(self).tracee_ctl.arrived@ + added
                && (r is Ok && quiet_stop(r->Ok_0) is Some ==> added == seq![quiet_stop(r->Ok_0)->Some_0] && quiet_stop(r->Ok_0)->Some_0.0 == status_pid(status))
                // only threads that were running can stop for a signal: the thread the status is about, or threads that are not queued
                && distinct_pids(added)
                && (forall|i: int| 0 <= i < added.len() ==> (#[trigger] added[i]).0 == status_pid(status) || !queued(old(self).inject_signal_queue@, added[i].0))
                // nothing is queued unless a signal stop is reported
                && (r is Ok && !(r->Ok_0 is Some && r->Ok_0->Some_0 is SignalStop) ==> added.len() == 0),
    { unimplemented!() }

//@ extract: impl Tracer / fn single_step
//@   sig: pub fn single_step(&mut self, tcx: TraceContext, pid: Pid) -> (r: Result<Option<StopReason>, DbgError>)
//@   attr: #[verifier::exec_allows_no_decreases_clause]
//@   requires R_bal: balanced(old(self))
//@   ensures E_once: r is Ok ==> balanced(final(self))
//@   outline O_siginfo: `sys::ptrace::getsiginfo(pid).map_err(Ptrace)?` => `outline_getsiginfo(pid)?`
//@   outline O_trap: `matches!(status, WaitStatus::Stopped(_, Signal::SIGTRAP)) && (info.si_code == code::TRAP_TRACE || info.si_code == code::TRAP_BRKPT || info.si_code == code::SI_KERNEL || info.si_code == code::TRAP_HWBKPT)` => `outline_in_step_trap(&status, &info)`
//@   outline O_systrap: `matches!(status, WaitStatus::Stopped(_, Signal::SIGTRAP)) && (info.si_code == 5)` => `outline_in_syscall_trap(&status, &info)`
//@   outline O_intr: `matches!( status, WaitStatus::PtraceEvent(p, SIGSTOP, libc::PTRACE_EVENT_STOP) if pid == p, )` => `outline_is_interrupt(&status, pid)`
//@   outline O_hw: `register::debug::HardwareDebugState::current(pid)?` => `outline_hw_current(pid)?`
//@   outline O_find: `tcx.breakpoints.iter().find(|brkpt| brkpt.addr == pc)` => `outline_find_brkpt(&tcx, pc)`
//@   outline O_btype: `mb_brkpt.map(|b| b.r#type())` => `outline_brkpt_type(mb_brkpt)`
//@   outline O_syscall: `sys::ptrace::syscall(tracee.pid, None).map_err(Ptrace)?` => `outline_ptrace_syscall(tracee.pid)?`
//@   outline O_unreach: `unreachable!($m)` => `outline_diverge()`
//@   outline O_quiet: `QUIET_SIGNALS.contains(&$s)` => `outline_is_quiet(&$s)`
//@   outline O_transp: `TRANSPARENT_SIGNALS.contains(&$s)` => `outline_is_transparent(&$s)`
//@   rewrite W_step: `self.tracee_ctl.tracee_ensure(pid).step($s)?` => `self.tracee_ctl.step_thread(pid, $s)?`
//@   proof before `let stop = self.apply_new_status(tcx, status)?;`: let ghost q0 = self.inject_signal_queue@; let ghost a0 = self.tracee_ctl.arrived@;
//@   proof after `let stop = self.apply_new_status(tcx, status)?;`: let added = choose|added: Seq<(Pid, Signal)>| #[trigger] (q0 + added) == self.inject_signal_queue@ && self.tracee_ctl.arrived@ == a0 + added && (quiet_stop(stop) is Some ==> added == seq![quiet_stop(stop)->Some_0] && quiet_stop(stop)->Some_0.0 == pid) && distinct_pids(added) && (forall|i: int| 0 <= i < added.len() ==> (#[trigger] added[i]).0 == status_pid(status) || !queued(q0, added[i].0)) && (!(stop is Some && stop->Some_0 is SignalStop) ==> added.len() == 0); lemma_add_ms(q0, added); lemma_add_ms(a0, added); assert(balanced(self)); if quiet_stop(stop) is Some { let x = quiet_stop(stop)->Some_0; assert(self.inject_signal_queue@.last() == x); lemma_drop_last_ms(self.inject_signal_queue@); lemma_push_ms(self.tracee_ctl.delivered@, x); }
//@   rewrite W_moved: `let hit_type = WatchpointHitType::EndOfScope(wps.clone()); { reason_loopval_ = Some(StopReason::Watchpoint(pid, pc, hit_type)); break; } } { reason_loopval_ = None; break; }` => `let hit_type = WatchpointHitType::EndOfScope(wps.clone()); { reason_loopval_ = Some(StopReason::Watchpoint(pid, pc, hit_type)); break; } } assert(pc.0 != entry_pc(&old(self).tracee_ctl, pid)); { reason_loopval_ = None; break; }`
//@   loop 0 invariant I_bal: balanced(self)
//@ end
}

} // verus!
fn main() {}
