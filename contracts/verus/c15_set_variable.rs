//@ unit: C15.set_variable_cache
//@ props: C15
//@ source: src/dap/yadap/session/data.rs
//@ fn: DebugSession::handle_set_variable (the `match write {..}` statement: what a write does to the adapter's cached view of the variable)
//@ assume: the match statement is spliced verbatim into a composing function whose parameters are the locals / disjoint session fields it uses (item = the VarItem found by name, child_links = self.child_links); serialize_dap_value(..).map_err(..) and the text arguments of send_err are outlined; write_bytes is external here (C15.write); a failing `?` leaves through Err
//@ notcovered: the lookup of the item, the reply, the `invalidated` event; that clients re-read after `invalidated`
use vstd::prelude::*;
verus! {
//@ include: prelude.rs

pub struct AnyErr;
pub struct DapRequest { pub seq: i64 }
pub struct Dbg;
#[derive(Clone, Copy)] pub struct Txt;
#[derive(Clone, Copy)] pub struct TypeGraph;
#[derive(Clone, Copy)] pub struct Kind;
pub struct Bytes { pub bytes: Vec<u8> }
pub struct Source;
impl Source { #[verifier::external_body] pub fn type_id(&self) -> (r: Option<u64>) { unimplemented!() } }
pub enum WriteMeta { Scalar { addr: usize, kind: Kind }, Composite { addr: usize, type_graph: TypeGraph } }
/// snapshot of the children taken when the stop was processed
pub struct ChildSnapshot;
pub struct VarItem { pub source: Option<Source>, pub child: Option<ChildSnapshot>, pub value: Txt }
pub struct Links { pub m: Ghost<Map<(i64, usize), i64>> }
impl Links {
    #[verifier::external_body]
    pub fn remove(&mut self, k: &(i64, usize)) -> (r: Option<i64>)
        ensures final(self).m@ == old(self).m@.remove(*k), r == (if old(self).m@.contains_key(*k) { Some(old(self).m@[*k]) } else { None::<i64> }),
    { unimplemented!() }
}
#[verifier::external_body] fn parse_set_value(kind: Kind, v: &Txt) -> (r: Result<Vec<u8>, AnyErr>) { unimplemented!() }
#[verifier::external_body] fn write_bytes(dbg: &Dbg, addr: usize, bytes: &Vec<u8>) -> (r: Result<(), AnyErr>) { unimplemented!() }
#[verifier::external_body] fn outline_serialize() -> (r: Result<Bytes, AnyErr>) { unimplemented!() }

pub struct DebugSession {
    pub child_links: Links,
    /// ghost: error responses sent
    pub errs: Ghost<nat>,
}
impl DebugSession {
    #[verifier::external_body]
    fn send_err(&mut self, req: &DapRequest) -> (r: Result<(), AnyErr>)
        ensures final(self).errs@ == old(self).errs@ + 1, final(self).child_links == old(self).child_links,
    { unimplemented!() }

//@ extract: impl super::DebugSession / fn handle_set_variable
//@   fragment: `match write {` .. `^item.value = new_value.clone();`
//@   splice: F_write
//@   outline O_ser: `debugger::variable::value::serialize::serialize_dap_value($a) .map_err(|err| anyhow!("setVariable: {err}"))` => `outline_serialize()`
//@   rewrite W_err: `self.send_err( req, $m, )?` => `self.send_err(req)?`
//@   rewrite W_deref: `child_ref_to_remove = Some(child_ref);` => `*child_ref_to_remove = Some(child_ref);`
//@ end

//@ begin_fn: src/dap/yadap/session/data.rs :: handle_set_variable [match write]
    fn apply_write(&mut self, write: WriteMeta, item: &mut VarItem, vars_ref: i64, index: usize, dbg: &Dbg, new_value: Txt, req: &DapRequest, child_ref_to_remove: &mut Option<i64>) -> (r: Result<(), AnyErr>)
        requires *old(child_ref_to_remove) is None,
        ensures
            // after a structured value was overwritten in the debuggee, nothing the adapter cached about its OLD contents is
            // served any more: the item's child snapshot is dropped, its child reference unlinked and handed back for removal
            r is Ok && write is Composite && final(self).errs@ == old(self).errs@ ==> final(item).child is None, /*@@E_snapshot_dropped*/
            r is Ok && write is Composite && final(self).errs@ == old(self).errs@ ==> !final(self).child_links.m@.contains_key((vars_ref, index))
                && (old(self).child_links.m@.contains_key((vars_ref, index)) ==> *final(child_ref_to_remove) == Some(old(self).child_links.m@[(vars_ref, index)])), /*@@E_child_ref_unlinked*/
            // a scalar write changes no structure
            write is Scalar ==> final(self).child_links == old(self).child_links && *final(child_ref_to_remove) is None, /*@@E_scalar_keeps_links*/
    {
        /*@@SPLICE:F_write*/
        Ok(())
    }
//@ end_fn
}

} // verus!
fn main() {}
