//@ unit: C13.condition
//@ props: C13
//@ source: src/dap/yadap/session/control.rs
//@ fn: DebugSession::literal_truthy, DebugSession::evaluate_condition_expression
//@ assume: oracle for truthiness (the property: "a conditional breakpoint stops only when its condition holds"): a literal condition holds iff it is a non-empty string/array, a non-zero number/address, `true`, or an enum variant; the float arm is outlined as a whole (Verus has no f64 comparisons); the two chumsky parsers (literal / data-query expression) and Debugger::read_variable are external: what is verified is the ORDER and the decision: empty text holds; a text that parses completely as a literal is judged as that literal; otherwise it is evaluated as a data query and judged by its first result, no result = does not hold
//@ notcovered: the grammar itself (a bare identifier parses as an enum-variant literal and is therefore always true: observation of a seeding agent, not a finding of this unit), value_truthy's rendering fallback, evaluation errors
use vstd::prelude::*;
verus! {
//@ include: prelude.rs

pub struct AnyErr;
pub struct F64(pub u64);
pub struct LitItem;
pub enum Literal {
    String(String), Int(i64), Float(F64), Address(usize), Bool(bool), EnumVariant(String, Option<Box<LitItem>>), Array(Vec<LitItem>), AssocArray(Vec<LitItem>),
}
pub uninterp spec fn float_nonzero(f: F64) -> bool;
#[verifier::external_body]
fn outline_float_nonzero(f: &F64) -> (r: bool) ensures r == float_nonzero(*f), { unimplemented!() }
#[verifier::external_body]
fn outline_str_is_empty(s: &String) -> (r: bool) ensures r == (s@.len() == 0), { unimplemented!() }

pub open spec fn holds(l: &Literal) -> bool {
    match l {
        Literal::String(v) => v@.len() > 0,
        Literal::Int(v) => *v != 0,
        Literal::Float(v) => float_nonzero(*v),
        Literal::Address(v) => *v != 0,
        Literal::Bool(v) => *v,
        Literal::EnumVariant(_, _) => true,
        Literal::Array(items) => items@.len() > 0,
        Literal::AssocArray(items) => items@.len() > 0,
    }
}

pub struct Dqe;
pub struct QueryResult;
pub struct Value;
pub struct Dbg;
pub uninterp spec fn literal_of(text: Seq<char>) -> Option<Literal>;
pub uninterp spec fn value_holds(v: &Value) -> bool;
pub uninterp spec fn first_value(text: Seq<char>) -> Option<Value>;

#[verifier::external_body]
fn outline_trim(s: &str) -> (r: &str) { unimplemented!() }
#[verifier::external_body]
fn outline_is_empty(s: &str) -> (r: bool) ensures r == (s@.len() == 0), { unimplemented!() }
/// `bs_expr::literal().then_ignore(end()).parse(trimmed).into_result()`
#[verifier::external_body]
fn outline_parse_literal(s: &str) -> (r: Result<Literal, AnyErr>)
    ensures r is Ok == literal_of(s@) is Some, r is Ok ==> r->Ok_0 == literal_of(s@)->Some_0,
{ unimplemented!() }
/// `bs_expr::parser().parse(trimmed).into_result().map_err(..)`
#[verifier::external_body]
fn outline_parse_dqe(s: &str) -> (r: Result<Dqe, AnyErr>) { unimplemented!() }

pub struct DebugSession { pub dbg: Dbg }
impl DebugSession {
//@ extract: impl super::DebugSession / fn literal_truthy
//@   sig: fn literal_truthy(literal: &Literal) -> (r: bool)
//@   ensures E_truthy: r == holds(literal)
//@   outline O_se: `!value.is_empty()` => `!outline_str_is_empty(value)`
//@   outline O_f: `Literal::Float(value) => $e,` => `Literal::Float(value) => outline_float_nonzero(value),`
//@ end

    #[verifier::external_body]
    fn value_truthy(value: &Value) -> (r: bool) ensures r == value_holds(value), { unimplemented!() }
    /// debugger lookup + read_variable + first result
    #[verifier::external_body]
    fn outline_first_result(&mut self, dqe: Dqe, text: &str) -> (r: Result<Option<Value>, AnyErr>)
        ensures r is Ok ==> r->Ok_0 == first_value(text@),
    { unimplemented!() }

//@ extract: impl super::DebugSession / fn evaluate_condition_expression
//@   sig: fn evaluate_condition_expression(&mut self, expr: &str) -> (r: Result<bool, AnyErr>)
//@   ensures E_cond: r is Ok ==> ({ let t = cond_text(expr); r->Ok_0 == (if t.len() == 0 { true } else if literal_of(t) is Some { holds(&literal_of(t)->Some_0) } else { first_value(t) is Some && value_holds(&first_value(t)->Some_0) }) })
//@   outline O_trim: `expr.trim()` => `outline_trim_c(expr)`
//@   outline O_empty: `trimmed.is_empty()` => `outline_is_empty(trimmed)`
//@   outline O_lit: `bs_expr::literal() .then_ignore(end()) .parse(trimmed) .into_result()` => `outline_parse_literal(trimmed)`
//@   outline O_dqe: `bs_expr::parser() .parse(trimmed) .into_result() .map_err(|e| anyhow!("condition parse error: {e:?}"))?` => `outline_parse_dqe(trimmed)?`
//@   outline O_read: `let dbg = self .debugger .as_mut() .ok_or_else(|| anyhow!("evaluate condition: debugger not initialized"))?; let results = dbg .read_variable(dqe) .context("evaluate condition read_variable")?; let Some(result) = results.into_iter().next() else { return Ok(false); }; let (_id, value) = result.into_identified_value();` => `let Some(value) = self.outline_first_result(dqe, trimmed)? else { return Ok(false); };`
//@ end
}
pub uninterp spec fn cond_text(expr: &str) -> Seq<char>;
#[verifier::external_body]
fn outline_trim_c(s: &str) -> (r: &str) ensures r@ == cond_text(s), { unimplemented!() }

} // verus!
fn main() {}
