//@ unit: C03.step_entry
//@ props: C03
//@ source: src/debugger/mod.rs
//@ fn: Debugger::stepi, Debugger::step_out
//@ assume: protocol contract (ghost flag `ctx_real` on the Debugger shim): the stepping primitives single_step_instruction / step_out_frame decide whether the thread sits on an INT3 by looking at the exploration context's pc, so they REQUIRE that the context describes the thread's real pc; ecx_restore_frame (= ecx_update_location) establishes it; set_frame_into_focus(k > 0) destroys it.  The primitives' bodies (ptrace single step, disable -> step -> enable) are external
//@ assume: the macro `disable_when_not_stared!(self)` is expanded by hand to its definition; hooks are external
//@ notcovered: step_into / step_over entry points (match guards over hooks), the stepping algorithms themselves
use vstd::prelude::*;
verus! {
//@ include: prelude.rs

pub enum DbgError { ProcessNotStarted, Other }
#[derive(Clone, Copy)] pub struct Pid(pub i32);
#[derive(Clone, Copy)] pub struct Signal(pub i32);
#[derive(Clone, Copy)] pub struct RelocatedAddress(pub usize);
pub struct WatchTy;
pub enum StopReason { SignalStop(Pid, Signal), Watchpoint(Pid, RelocatedAddress, WatchTy), Other }
pub struct Debugee;
impl Debugee { #[verifier::external_body] pub fn is_in_progress(&self) -> (r: bool) { unimplemented!() } }
pub struct Hooks;
impl Hooks { #[verifier::external_body] pub fn on_signal(&self, s: Signal) { unimplemented!() } }
pub struct Debugger {
    pub debugee: Debugee,
    pub hooks: Hooks,
    /// ghost: the exploration context holds the focused thread's real program counter (frame 0)
    pub ctx_real: Ghost<bool>,
}
impl Debugger {
    #[verifier::external_body]
    fn ecx_restore_frame(&mut self) -> (r: Result<(), DbgError>)
        ensures r is Ok ==> final(self).ctx_real@,
    { unimplemented!() }
    #[verifier::external_body]
    fn single_step_instruction(&mut self) -> (r: Result<Option<StopReason>, DbgError>)
        requires old(self).ctx_real@,     // it tests `breakpoints.get_enabled(ecx.location().pc)` to step over an INT3
        ensures final(self).ctx_real@,
    { unimplemented!() }
    #[verifier::external_body]
    fn step_out_frame(&mut self) -> (r: Result<(), DbgError>)
        requires old(self).ctx_real@,     // the return address is unwound from ecx.location()
        ensures final(self).ctx_real@,
    { unimplemented!() }
    #[verifier::external_body]
    fn execute_on_step_hook(&self) -> (r: Result<(), DbgError>) { unimplemented!() }
    #[verifier::external_body]
    fn execute_on_watchpoint_hook(&self, pid: Pid, addr: RelocatedAddress, ty: &WatchTy) -> (r: Result<(), DbgError>) { unimplemented!() }

//@ extract: impl Debugger / fn stepi
//@   sig: pub fn stepi(&mut self) -> (r: Result<(), DbgError>)
//@   ensures E_stepi: r is Ok ==> final(self).ctx_real@
//@   rewrite W_macro: `disable_when_not_stared!(self);` => `if !self.debugee.is_in_progress() { return Err(DbgError::ProcessNotStarted); }`
//@ end

//@ extract: impl Debugger / fn step_out
//@   sig: pub fn step_out(&mut self) -> (r: Result<(), DbgError>)
//@   ensures E_step_out: r is Ok ==> final(self).ctx_real@
//@   rewrite W_macro: `disable_when_not_stared!(self);` => `if !self.debugee.is_in_progress() { return Err(DbgError::ProcessNotStarted); }`
//@ end
}

} // verus!
fn main() {}
