//@ unit: C18.deferred
//@ props: C18
//@ source: src/debugger/breakpoint.rs
//@ fn: Debugger::refresh_deferred (retain decision)
//@ assume: `Vec::retain(f)` keeps exactly the elements for which f returns true (std); the decision `match mb_error {..}` of the closure is spliced verbatim into `keep_deferred`; the three set_breakpoint_* attempts before it are not verified
//@ notcovered: the deferred retry trigger (rendezvous breakpoint), dlopen histories, the set_breakpoint_* attempts themselves
use vstd::prelude::*;
verus! {
//@ include: prelude.rs

pub enum SetError { NoSuitablePlace, Other(u8) }
use SetError::NoSuitablePlace;

//@ extract: impl Debugger / fn refresh_deferred
//@   fragment: `match mb_error {` .. `^});`
//@   splice: F_keep
//@ end

//@ begin_fn: src/debugger/breakpoint.rs :: refresh_deferred [retain decision]
fn keep_deferred(mb_error: Option<SetError>, errors: &mut Vec<SetError>) -> (r: bool)
    ensures
        // "a breakpoint requested before its library is loaded becomes active when the library appears":
        // a request stays deferred exactly as long as it has not been installed
        r == (mb_error is Some), /*@@E_keep*/
        // an unexpected error is reported, "no suitable place yet" is not
        final(errors)@.len() == old(errors)@.len() + (if mb_error is Some && !(mb_error->Some_0 is NoSuitablePlace) { 1int } else { 0int }), /*@@E_report*/
{
    /*@@SPLICE:F_keep*/
}
//@ end_fn


} // verus!
fn main() {}
