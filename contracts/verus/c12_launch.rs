//@ unit: C12.launch
//@ props: C12
//@ source: src/dap/yadap/session/init.rs
//@ fn: DebugSession::handle_launch, DebugSession::handle_attach (from the session-state reset to the end)
//@ assume: drain_events discards everything queued when the `terminated` latch is set (its first statement after emptying the queue; unit C12.drain) and otherwise writes the queued events; enqueue_* queue one event each; build_debugger / build_attached_debugger / emit_process_start do not touch the latch; argument parsing before the fragment touches no session state but source_map; string literals / json! outlined
//@ notcovered: what the events contain; the argument parsing before the reset
use vstd::prelude::*;
verus! {
//@ include: prelude.rs

pub struct AnyErr;
pub struct DapRequest { pub seq: i64 }
pub struct JsonV;
pub struct Txt;
pub struct Pid(pub i32);
pub struct ProgressId;
impl ProgressId { #[verifier::external_body] pub fn clone(&self) -> (r: ProgressId) { unimplemented!() } }
#[derive(PartialEq, Eq, Clone, Copy)] pub enum SessionMode { Launch, Attach }
#[verifier::external_body] fn outline_json() -> (r: JsonV) { unimplemented!() }
#[verifier::external_body] fn outline_msg() -> (r: Option<Txt>) { unimplemented!() }
#[verifier::external_body] fn outline_title() -> (r: Txt) { unimplemented!() }

pub struct DebugSession {
    pub terminated: bool,
    pub exit_code: Option<i32>,
    pub session_mode: Option<SessionMode>,
    /// ghost: events waiting in the queue
    pub queued: Ghost<nat>,
    /// ghost: events thrown away by drain_events because the latch was set
    pub lost: Ghost<nat>,
    /// ghost: responses written
    pub answered: Ghost<nat>,
}
pub open spec fn only_queue(a: &DebugSession, b: &DebugSession, n: nat) -> bool {
    b.terminated == a.terminated && b.exit_code == a.exit_code && b.session_mode == a.session_mode && b.lost@ == a.lost@ && b.answered@ == a.answered@ && b.queued@ == a.queued@ + n
}
impl DebugSession {
    #[verifier::external_body]
    fn enqueue_progress_start(&mut self, title: Txt, message: Option<Txt>, percentage: Option<u32>) -> (r: ProgressId) ensures only_queue(old(self), final(self), 1), { unimplemented!() }
    #[verifier::external_body]
    fn enqueue_progress_update(&mut self, id: ProgressId, message: Option<Txt>, percentage: Option<u32>) ensures only_queue(old(self), final(self), 1), { unimplemented!() }
    #[verifier::external_body]
    fn enqueue_progress_end(&mut self, id: ProgressId, message: Option<Txt>) ensures only_queue(old(self), final(self), 1), { unimplemented!() }
    #[verifier::external_body]
    fn enqueue_capabilities(&mut self, caps: JsonV) ensures only_queue(old(self), final(self), 1), { unimplemented!() }
    #[verifier::external_body]
    fn drain_events(&mut self) -> (r: Result<(), AnyErr>)
        ensures final(self).terminated == old(self).terminated, final(self).exit_code == old(self).exit_code, final(self).session_mode == old(self).session_mode, final(self).answered@ == old(self).answered@,
            final(self).queued@ == 0,
            final(self).lost@ == old(self).lost@ + (if old(self).terminated { old(self).queued@ } else { 0nat }),
    { unimplemented!() }
    #[verifier::external_body]
    fn build_debugger(&mut self, program: &Txt, args: &Vec<Txt>, oracles: &Vec<Txt>) -> (r: Result<(), AnyErr>) ensures only_queue(old(self), final(self), 0), { unimplemented!() }
    #[verifier::external_body]
    fn build_attached_debugger(&mut self, pid: Pid, oracles: &Vec<Txt>) -> (r: Result<(), AnyErr>) ensures only_queue(old(self), final(self), 0), { unimplemented!() }
    #[verifier::external_body]
    fn emit_process_start(&mut self) -> (r: Result<(), AnyErr>)
        ensures final(self).terminated == old(self).terminated, final(self).exit_code == old(self).exit_code, final(self).session_mode == old(self).session_mode, final(self).lost@ == old(self).lost@, final(self).answered@ == old(self).answered@, final(self).queued@ >= old(self).queued@,
    { unimplemented!() }
    #[verifier::external_body]
    fn send_success(&mut self, req: &DapRequest) -> (r: Result<(), AnyErr>)
        ensures final(self).terminated == old(self).terminated, final(self).exit_code == old(self).exit_code, final(self).session_mode == old(self).session_mode, final(self).lost@ == old(self).lost@, final(self).queued@ == old(self).queued@,
            final(self).answered@ == old(self).answered@ + (if r is Ok { 1nat } else { 0nat }),
    { unimplemented!() }

//@ extract: impl super::DebugSession / fn handle_launch
//@   fragment: `^self.source_map = SourceMap::from_launch_args(&req.arguments);` .. `self.drain_events()?; Ok(())`
//@   splice: F_launch
//@   outline O_json: `json!($x)` => `outline_json()`
//@   outline O_msg: `Some($s.to_string())` => `outline_msg()`
//@   outline O_t: `"Launching debuggee"` => `outline_title()`
//@ end

//@ begin_fn: src/dap/yadap/session/init.rs :: handle_launch [from the session-state reset]
    fn launch_tail(&mut self, req: &DapRequest, program: &Txt, args: Vec<Txt>, oracles: &Vec<Txt>) -> (r: Result<(), AnyErr>)
        ensures
            // a new debuggee starts a new event stream: nothing it announces (capabilities, progress, process, later stops and the
            // final exited/terminated) may be swallowed by the latch the PREVIOUS debuggee's termination left behind
            final(self).lost@ == old(self).lost@, /*@@E_launch_nothing_lost*/
            r is Ok ==> !final(self).terminated && final(self).exit_code is None && final(self).session_mode == Some(SessionMode::Launch) && final(self).queued@ == 0, /*@@E_launch_rearmed*/
            r is Ok ==> final(self).answered@ == old(self).answered@ + 1, /*@@E_launch_one_response*/
            r is Err ==> final(self).answered@ <= old(self).answered@ + 1, /*@@E_launch_err_at_most_one*/
    {
        /*@@SPLICE:F_launch*/
    }
//@ end_fn

//@ extract: impl super::DebugSession / fn handle_attach
//@   fragment: `^self.source_map = SourceMap::from_launch_args(&req.arguments);` .. `self.drain_events()?; Ok(())`
//@   splice: F_attach
//@   outline O_json: `json!($x)` => `outline_json()`
//@   outline O_msg: `Some($s.to_string())` => `outline_msg()`
//@   outline O_t: `"Attaching debuggee"` => `outline_title()`
//@ end

//@ begin_fn: src/dap/yadap/session/init.rs :: handle_attach [from the session-state reset]
    fn attach_tail(&mut self, req: &DapRequest, pid: Pid, oracles: &Vec<Txt>) -> (r: Result<(), AnyErr>)
        ensures
            final(self).lost@ == old(self).lost@, /*@@E_attach_nothing_lost*/
            r is Ok ==> !final(self).terminated && final(self).exit_code is None && final(self).session_mode == Some(SessionMode::Attach) && final(self).queued@ == 0, /*@@E_attach_rearmed*/
            r is Ok ==> final(self).answered@ == old(self).answered@ + 1, /*@@E_attach_one_response*/
    {
        /*@@SPLICE:F_attach*/
    }
//@ end_fn
}

} // verus!
fn main() {}
