//@ unit: C07.set_match
//@ props: C07
//@ source: src/debugger/variable/value/mod.rs
//@ fn: Value::match_literal (HashSet / BTreeSet arm: matching a set against an array literal)
//@ assume: `arr_literal.iter().position(|lit| ..item.clone().match_literal(lit)..)` returns the first index whose literal matches the item (None if none does) and `.position(|lit| matches!(lit, Wildcard))` the first wildcard: both outlined with std's contract over an uninterpreted `matches(item, literal)` relation (the recursive match_literal call); Vec::swap_remove removes exactly one element; `for item in items` visits every element once (rewritten to an index loop over a sequence of opaque items)
//@ notcovered: the other arms of match_literal, the grammar of literals, map keys
use vstd::prelude::*;
verus! {
//@ include: prelude.rs

pub struct Item(pub u64);
pub struct Lit(pub u64);
pub enum LiteralOrWildcard { Literal(Lit), Wildcard }
pub enum Literal { Array(Vec<LiteralOrWildcard>), Other }

pub uninterp spec fn item_matches(item: &Item, lit: &Lit) -> bool;

/// `arr_literal.iter().position(|lit| if let Literal(lit) = lit { item.clone().match_literal(lit) } else { false })`
#[verifier::external_body]
fn outline_pos_literal(arr: &Vec<LiteralOrWildcard>, item: &Item) -> (r: Option<usize>)
    ensures
        r is Some ==> r->Some_0 < arr@.len() && arr@[r->Some_0 as int] is Literal && item_matches(item, &arr@[r->Some_0 as int]->Literal_0),
        r is None ==> forall|k: int| 0 <= k < arr@.len() && (#[trigger] arr@[k]) is Literal ==> !item_matches(item, &arr@[k]->Literal_0),
{ unimplemented!() }
/// `arr_literal.iter().any(|lit| ..same closure..)`: whether some literal matches, WITHOUT saying which
#[verifier::external_body]
fn outline_any_literal(arr: &Vec<LiteralOrWildcard>, item: &Item) -> (r: bool)
    ensures r == (exists|k: int| 0 <= k < arr@.len() && (#[trigger] arr@[k]) is Literal && item_matches(item, &arr@[k]->Literal_0)),
{ unimplemented!() }
/// `arr_literal.iter().position(|lit| matches!(lit, LiteralOrWildcard::Wildcard))`
#[verifier::external_body]
fn outline_pos_wildcard(arr: &Vec<LiteralOrWildcard>) -> (r: Option<usize>)
    ensures
        r is Some ==> r->Some_0 < arr@.len() && arr@[r->Some_0 as int] is Wildcard,
        r is None ==> forall|k: int| 0 <= k < arr@.len() ==> !((#[trigger] arr@[k]) is Wildcard),
{ unimplemented!() }
#[verifier::external_body]
fn outline_to_vec(a: &Vec<LiteralOrWildcard>) -> (r: Vec<LiteralOrWildcard>) ensures r@ == a@, { unimplemented!() }

//@ extract: impl Value / fn match_literal
//@   fragment: `^| SpecializedValue::BTreeSet(HashSetVariable { items, .. }) => {` .. `^} SpecializedValue::Tls(inner) =>`
//@   sig: fn set_matches(items: &Vec<Item>, literal: &Literal) -> (r: bool)
//@   ensures E_false_shape: !(literal is Array) || literal->Array_0@.len() != items@.len() ==> !r
//@   outline O_vec: `arr_literal.to_vec()` => `outline_to_vec(arr_literal)`
//@   rewrite W_for: `for item in items {` => `let mut it_idx_: usize = 0; while it_idx_ < items.len() { let item = &items[it_idx_]; it_idx_ += 1;`
//@   outline O_pos: `arr_literal.iter().position(|lit| { if let LiteralOrWildcard::Literal(lit) = lit { item.clone().match_literal(lit) } else { false } })` => `outline_pos_literal(&arr_literal, item)`
//@   outline O_any: `arr_literal.iter().any(|lit| { if let LiteralOrWildcard::Literal(lit) = lit { item.clone().match_literal(lit) } else { false } })` => `outline_any_literal(&arr_literal, item)`
//@   outline O_wild: `arr_literal .iter() .position(|lit| matches!(lit, LiteralOrWildcard::Wildcard))` => `outline_pos_wildcard(&arr_literal)`
//@   loop 0 invariant I_sm_consumed: it_idx_ <= items@.len() && arr_literal@.len() + it_idx_ == items@.len()
//@   loop 0 decreases: items@.len() - it_idx_
//@ end

} // verus!
fn main() {}
