//@ unit: C05.cfa_rule
//@ props: C05
//@ source: src/debugger/debugee/dwarf/mod.rs
//@ fn: DebugInformation::evaluate_cfa (RegisterAndOffset arm)
//@ assume: DwarfRegisterMap::value(r) reads DWARF register r of the frame (Kani units C19.map_from_regs / C05.map_update); RelocatedAddress::offset(k) is exact signed addition (Kani unit C05.cfa_offset) -- imported as assumed contracts here, proved there
//@ notcovered: the CfaRule::Expression arm (DWARF expression evaluation), which row gimli returns (unit C05.cfi_lookup covers the address space of the lookup)
use vstd::prelude::*;
verus! {
//@ include: prelude.rs

pub struct DbgError;
pub type Error = DbgError;
#[derive(Clone, Copy)] pub struct GReg(pub u16);
pub struct DwarfRegisterMap;
pub uninterp spec fn reg_val(m: &DwarfRegisterMap, r: GReg) -> u64;
impl DwarfRegisterMap {
    #[verifier::external_body]
    pub fn value(&self, r: GReg) -> (v: Result<u64, DbgError>) ensures v is Ok ==> v->Ok_0 == reg_val(self, r), { unimplemented!() }
}
#[derive(Clone, Copy)]
pub struct RelocatedAddress(pub usize);
impl RelocatedAddress {
    #[verifier::external_body] pub fn from(v: usize) -> (r: RelocatedAddress) ensures r.0 == v, { unimplemented!() }
    /// proved by the Kani unit C05.cfa_offset: exact whenever the sum fits
    #[verifier::external_body]
    pub fn offset(self, k: isize) -> (r: RelocatedAddress)
        ensures 0 <= self.0 + k <= usize::MAX ==> r.0 == self.0 + k,
    { unimplemented!() }
}

//@ extract: impl DebugInformation / fn evaluate_cfa
//@   fragment: `^RegisterAndOffset { register, offset } => {` .. `^} CfaRule::Expression(expr) =>`
//@   splice: F_cfa
//@ end

//@ begin_fn: src/debugger/debugee/dwarf/mod.rs :: evaluate_cfa [register + offset rule]
fn cfa_reg_offset(registers: &DwarfRegisterMap, register: &GReg, offset: &i64) -> (r: Result<RelocatedAddress, Error>)
    ensures
        // DWARF 6.4.1: CFA = value of the rule's register + the rule's signed offset
        r is Ok && 0 <= reg_val(registers, *register) + *offset <= usize::MAX ==> r->Ok_0.0 == reg_val(registers, *register) + *offset, /*@@E_cfa*/
{
    /*@@SPLICE:F_cfa*/
}
//@ end_fn

} // verus!
fn main() {}
