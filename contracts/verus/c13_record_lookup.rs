//@ unit: C13.record_lookup
//@ props: C13
//@ implicit: C13
//@ source: src/dap/yadap/session/control.rs
//@ fn: DebugSession::with_breakpoint_record_mut (the three record predicates)
//@ shim: src/dap/yadap/session/breakpoint.rs :: struct BreakpointRecord :: id: i64, addresses: Vec<debugger::address::Address>, hit_count: u64
//@ assume: `iter_mut().find(P)` yields the first element that satisfies P (std); the composing loop `find_record_*` below is hand-written, the predicate P is spliced verbatim from /repo on every run; Vec::contains is membership (outlined)
//@ notcovered: the order in which the three record tables are searched, that `f` is applied to the record found, HashMap::values_mut iteration over the per-source tables
use vstd::prelude::*;
verus! {
//@ include: prelude.rs

#[derive(Clone, Copy, PartialEq, Eq)]
pub enum Address { Relocated(usize), Global(usize) }

pub struct BreakpointRecord {
    pub id: i64,
    pub addresses: Vec<Address>,
    pub hit_count: u64,
}

/// `v.contains(&a)`
#[verifier::external_body]
fn outline_contains(v: &Vec<Address>, a: &Address) -> (r: bool)
    ensures r == v@.contains(*a),
{ unimplemented!() }

/// a record answers for a stop address iff the address is ANY of the locations it installed
pub open spec fn owns(r: &BreakpointRecord, addr: Address) -> bool { r.addresses@.contains(addr) }

//@ extract: impl super::DebugSession / fn with_breakpoint_record_mut
//@   fragment: `^records .iter_mut() .find(|record|` .. `^) {`
//@   splice: P_source
//@   outline O_c1: `record.addresses.contains(&$a)` => `outline_contains(&record.addresses, &$a)`
//@ end
//@ extract: impl super::DebugSession / fn with_breakpoint_record_mut
//@   fragment: `^self .function_breakpoints .iter_mut() .find(|record|` .. `^) {`
//@   splice: P_function
//@   outline O_c2: `record.addresses.contains(&$a)` => `outline_contains(&record.addresses, &$a)`
//@ end
//@ extract: impl super::DebugSession / fn with_breakpoint_record_mut
//@   fragment: `^self .instruction_breakpoints .iter_mut() .find(|record|` .. `^) {`
//@   splice: P_instruction
//@   outline O_c3: `record.addresses.contains(&$a)` => `outline_contains(&record.addresses, &$a)`
//@ end

//@ begin_fn: src/dap/yadap/session/control.rs :: with_breakpoint_record_mut [source-breakpoint record predicate]
fn find_record_source(records: &Vec<BreakpointRecord>, addr: Address) -> (r: Option<usize>)
    ensures
        r is Some ==> r->Some_0 < records@.len() && owns(&records@[r->Some_0 as int], addr), /*@@E_src_hit*/
        r is Some ==> forall|j: int| 0 <= j < r->Some_0 ==> !owns(&#[trigger] records@[j], addr), /*@@E_src_first*/
        r is None ==> forall|j: int| 0 <= j < records@.len() ==> !owns(&#[trigger] records@[j], addr), /*@@E_src_none*/
{
    let mut i: usize = 0;
    while i < records.len()
        invariant 0 <= i <= records@.len(), forall|j: int| 0 <= j < i ==> !owns(&#[trigger] records@[j], addr),
        decreases records@.len() - i,
    {
        let record = &records[i];
        if /*@@SPLICE:P_source*/ { return Some(i); }
        i += 1;
    }
    None
}
//@ end_fn

//@ begin_fn: src/dap/yadap/session/control.rs :: with_breakpoint_record_mut [function-breakpoint record predicate]
fn find_record_function(records: &Vec<BreakpointRecord>, addr: Address) -> (r: Option<usize>)
    ensures
        r is Some ==> r->Some_0 < records@.len() && owns(&records@[r->Some_0 as int], addr), /*@@E_fn_hit*/
        r is Some ==> forall|j: int| 0 <= j < r->Some_0 ==> !owns(&#[trigger] records@[j], addr), /*@@E_fn_first*/
        r is None ==> forall|j: int| 0 <= j < records@.len() ==> !owns(&#[trigger] records@[j], addr), /*@@E_fn_none*/
{
    let mut i: usize = 0;
    while i < records.len()
        invariant 0 <= i <= records@.len(), forall|j: int| 0 <= j < i ==> !owns(&#[trigger] records@[j], addr),
        decreases records@.len() - i,
    {
        let record = &records[i];
        if /*@@SPLICE:P_function*/ { return Some(i); }
        i += 1;
    }
    None
}
//@ end_fn

//@ begin_fn: src/dap/yadap/session/control.rs :: with_breakpoint_record_mut [instruction-breakpoint record predicate]
fn find_record_instruction(records: &Vec<BreakpointRecord>, addr: Address) -> (r: Option<usize>)
    ensures
        r is Some ==> r->Some_0 < records@.len() && owns(&records@[r->Some_0 as int], addr), /*@@E_ins_hit*/
        r is Some ==> forall|j: int| 0 <= j < r->Some_0 ==> !owns(&#[trigger] records@[j], addr), /*@@E_ins_first*/
        r is None ==> forall|j: int| 0 <= j < records@.len() ==> !owns(&#[trigger] records@[j], addr), /*@@E_ins_none*/
{
    let mut i: usize = 0;
    while i < records.len()
        invariant 0 <= i <= records@.len(), forall|j: int| 0 <= j < i ==> !owns(&#[trigger] records@[j], addr),
        decreases records@.len() - i,
    {
        let record = &records[i];
        if /*@@SPLICE:P_instruction*/ { return Some(i); }
        i += 1;
    }
    None
}
//@ end_fn

} // verus!
fn main() {}
