//@ unit: C12.handlers
//@ props: C12
//@ source: src/dap/yadap/session/control.rs
//@ fn: DebugSession::handle_continue, DebugSession::handle_next, DebugSession::handle_step_in, DebugSession::handle_step_out, DebugSession::handle_configuration_done, DebugSession::handle_restart, DebugSession::handle_pause, DebugSession::handle_terminate, DebugSession::handle_disconnect
//@ assume: send_success_body appends exactly one response for `req` (send_response_raw: unit C12.wire, E_rsp) or fails with the transport; enqueue_event, drain_events, begin_running, current_thread_id and emit_stop_reason append no response (events only); emit_stop_reason and continue_debugee_with_reason may fail for debugger reasons
//@ assume: signature substitution anyhow::Result<()> -> Result<(), AnyErr>; `json!`, `anyhow!`, `.context(..)` outlined
//@ notcovered: the other handlers (each would need its own outline set); this unit is the evidence for the dispatch contract assumed by C12.wire: a handler answers at most once, exactly once when it returns Ok, and handle_continue answers BEFORE it can fail
use vstd::prelude::*;
verus! {
//@ include: prelude.rs

pub struct AnyErr;
pub struct JsonBody;
pub struct DapRequest { pub seq: i64 }
pub struct StopReason(pub u8);
pub enum InternalEvent {
    Continued { thread_id: i64, all_threads_continued: bool },
    Stopped { reason: String, thread_id: i64, description: Option<String> },
    Exited { code: i32 },
}
pub enum DErr { ProcessExit(i32), Other(u8) }
#[verifier::external_body] fn outline_step_str() -> (r: String) { unimplemented!() }
#[verifier::external_body] fn outline_fmt(e: &DErr) -> (r: String) { unimplemented!() }

pub struct Dbg;
impl Dbg {
    #[verifier::external_body]
    pub fn continue_debugee_with_reason(&mut self) -> (r: Result<StopReason, AnyErr>) { unimplemented!() }
    #[verifier::external_body]
    pub fn step_over(&mut self) -> (r: Result<(), DErr>) { unimplemented!() }
    #[verifier::external_body]
    pub fn step_into(&mut self) -> (r: Result<(), DErr>) { unimplemented!() }
    #[verifier::external_body]
    pub fn step_out(&mut self) -> (r: Result<(), DErr>) { unimplemented!() }
    #[verifier::external_body]
    pub fn pause_debugee(&mut self) -> (r: Result<(), DErr>) { unimplemented!() }
    #[verifier::external_body]
    pub fn detach(&mut self) -> (r: Result<(), AnyErr>) { unimplemented!() }
}

pub struct DebugSession {
    /// ghost: number of responses written for the request being handled
    pub answered: Ghost<nat>,
    /// ghost: responses written for any other request
    pub answered_others: Ghost<nat>,
    pub io_failed: Ghost<bool>,
    /// ghost: success responses among `answered`
    pub succ: Ghost<nat>,
    /// ghost: `continued` events queued
    pub continued: Ghost<nat>,
    /// ghost: the debuggee of this session has been started successfully
    pub started: Ghost<bool>,
    /// ghost: the session attached to a running process (no start needed)
    pub attach: Ghost<bool>,
}

pub open spec fn quiet_step(a: &DebugSession, b: &DebugSession) -> bool {
    a.answered@ == b.answered@ && a.answered_others@ == b.answered_others@ && a.io_failed@ == b.io_failed@ && a.succ@ == b.succ@ && a.continued@ == b.continued@ && a.started@ == b.started@ && a.attach@ == b.attach@
}

#[verifier::external_body]
fn outline_json() -> (r: JsonBody) { unimplemented!() }

impl DebugSession {
    #[verifier::external_body]
    fn begin_running(&mut self) ensures quiet_step(old(self), final(self)), { unimplemented!() }
    #[verifier::external_body]
    fn current_thread_id(&mut self) -> (r: i64) ensures quiet_step(old(self), final(self)), { unimplemented!() }
    #[verifier::external_body]
    fn enqueue_event(&mut self, ev: InternalEvent)
        ensures final(self).answered@ == old(self).answered@, final(self).answered_others@ == old(self).answered_others@, final(self).io_failed@ == old(self).io_failed@, final(self).succ@ == old(self).succ@, final(self).started@ == old(self).started@, final(self).attach@ == old(self).attach@,
            final(self).continued@ == old(self).continued@ + (if ev is Continued { 1nat } else { 0nat }),
    { unimplemented!() }
    /// `self.session_mode != Some(super::init::SessionMode::Launch)`
    #[verifier::external_body]
    fn outline_not_launch(&self) -> (r: bool) { unimplemented!() }
    /// `self.debugger.as_mut()`
    #[verifier::external_body]
    fn outline_debugger_opt(&mut self) -> (r: Option<&mut Dbg>) ensures quiet_step(old(self), final(self)), { unimplemented!() }
    /// `self.debugger.take()`
    #[verifier::external_body]
    fn outline_take_debugger(&mut self) -> (r: Option<Dbg>) ensures quiet_step(old(self), final(self)), { unimplemented!() }
    #[verifier::external_body]
    fn terminate_debuggee(&mut self) ensures quiet_step(old(self), final(self)), { unimplemented!() }
    #[verifier::external_body]
    fn outline_wants_terminate(req: &DapRequest) -> (r: bool) { unimplemented!() }
    /// `self.debugger.is_none()`
    #[verifier::external_body]
    fn outline_no_debugger(&self) -> (r: bool) { unimplemented!() }
    /// `self.session_mode == Some(SessionMode::Attach)`
    #[verifier::external_body]
    fn outline_is_attach(&self) -> (r: bool) ensures r == self.attach@, { unimplemented!() }
    /// `dbg.start_debugee_with_reason().context("start debugee")`
    #[verifier::external_body]
    fn outline_start(&mut self) -> (r: Result<StopReason, AnyErr>)
        ensures final(self).answered@ == old(self).answered@, final(self).answered_others@ == old(self).answered_others@, final(self).io_failed@ == old(self).io_failed@, final(self).succ@ == old(self).succ@, final(self).continued@ == old(self).continued@, final(self).attach@ == old(self).attach@,
            r is Ok ==> final(self).started@, r is Err ==> final(self).started@ == old(self).started@,
    { unimplemented!() }
    #[verifier::external_body]
    fn send_success(&mut self, req: &DapRequest) -> (r: Result<(), AnyErr>)
        ensures final(self).answered_others@ == old(self).answered_others@, final(self).continued@ == old(self).continued@, final(self).started@ == old(self).started@, final(self).attach@ == old(self).attach@,
            r is Ok ==> final(self).answered@ == old(self).answered@ + 1 && final(self).succ@ == old(self).succ@ + 1 && final(self).io_failed@ == old(self).io_failed@,
            r is Err ==> final(self).answered@ == old(self).answered@ && final(self).succ@ == old(self).succ@ && final(self).io_failed@,
    { unimplemented!() }
    #[verifier::external_body]
    fn emit_attached_stop(&mut self) -> (r: Result<(), AnyErr>)
        ensures final(self).answered@ == old(self).answered@, final(self).answered_others@ == old(self).answered_others@, final(self).succ@ == old(self).succ@, final(self).started@ == old(self).started@, final(self).attach@ == old(self).attach@,
            !final(self).io_failed@ ==> !old(self).io_failed@,
    { unimplemented!() }
    #[verifier::external_body]
    fn begin_stop_epoch(&mut self) ensures quiet_step(old(self), final(self)), { unimplemented!() }
    #[verifier::external_body]
    fn outline_set_last_stop(&mut self) ensures quiet_step(old(self), final(self)), { unimplemented!() }
    #[verifier::external_body]
    fn send_err<M>(&mut self, req: &DapRequest, message: M) -> (r: Result<(), AnyErr>)
        ensures final(self).answered_others@ == old(self).answered_others@, final(self).succ@ == old(self).succ@, final(self).continued@ == old(self).continued@,
            r is Ok ==> final(self).answered@ == old(self).answered@ + 1 && final(self).io_failed@ == old(self).io_failed@,
            r is Err ==> final(self).answered@ == old(self).answered@ && final(self).io_failed@,
    { unimplemented!() }
    #[verifier::external_body]
    fn drain_events(&mut self) -> (r: Result<(), AnyErr>)
        ensures final(self).answered@ == old(self).answered@, final(self).answered_others@ == old(self).answered_others@, final(self).succ@ == old(self).succ@, final(self).continued@ == old(self).continued@,
            r is Err ==> final(self).io_failed@, r is Ok ==> final(self).io_failed@ == old(self).io_failed@,
    { unimplemented!() }
    #[verifier::external_body]
    fn send_success_body(&mut self, req: &DapRequest, body: JsonBody) -> (r: Result<(), AnyErr>)
        ensures final(self).answered_others@ == old(self).answered_others@, final(self).continued@ == old(self).continued@,
            r is Ok ==> final(self).answered@ == old(self).answered@ + 1 && final(self).succ@ == old(self).succ@ + 1 && final(self).io_failed@ == old(self).io_failed@,
            r is Err ==> final(self).answered@ == old(self).answered@ && final(self).succ@ == old(self).succ@ && final(self).io_failed@,
    { unimplemented!() }
    #[verifier::external_body]
    fn outline_debugger(&mut self) -> (r: Result<&mut Dbg, AnyErr>) ensures quiet_step(old(self), final(self)), { unimplemented!() }
    #[verifier::external_body]
    fn emit_stop_reason(&mut self, stop: StopReason) -> (r: Result<(), AnyErr>)
        ensures final(self).answered@ == old(self).answered@, final(self).answered_others@ == old(self).answered_others@, final(self).succ@ == old(self).succ@, final(self).continued@ == old(self).continued@, final(self).started@ == old(self).started@, final(self).attach@ == old(self).attach@,
            !final(self).io_failed@ ==> !old(self).io_failed@,
    { unimplemented!() }

//@ extract: impl super::DebugSession / fn handle_continue
//@   sig: pub fn handle_continue(&mut self, req: &DapRequest) -> (r: Result<(), AnyErr>)
//@   ensures E_hc_others: final(self).answered_others@ == old(self).answered_others@
//@   ensures E_hc_at_most_once: !final(self).io_failed@ ==> old(self).answered@ <= final(self).answered@ <= old(self).answered@ + 1
//@   ensures E_hc_announced: !final(self).io_failed@ ==> final(self).continued@ - old(self).continued@ == final(self).succ@ - old(self).succ@
//@   ensures E_hc_ok_answered: !final(self).io_failed@ && r is Ok ==> final(self).answered@ == old(self).answered@ + 1
//@   outline O_json: `json!($x)` => `outline_json()`
//@   outline O_dbg: `self .debugger .as_mut() .ok_or_else(|| anyhow!($m))?` => `self.outline_debugger()?`
//@   outline O_ctx: `dbg.continue_debugee_with_reason().context("continue")?` => `dbg.continue_debugee_with_reason()?`
//@ end

//@ extract: impl super::DebugSession / fn handle_next
//@   sig: pub fn handle_next(&mut self, req: &DapRequest) -> (r: Result<(), AnyErr>)
//@   ensures E_hn_others: final(self).answered_others@ == old(self).answered_others@
//@   ensures E_hn_once: !final(self).io_failed@ && r is Ok ==> final(self).answered@ == old(self).answered@ + 1
//@   ensures E_hn_at_most_once: !final(self).io_failed@ ==> old(self).answered@ <= final(self).answered@ <= old(self).answered@ + 1
//@   ensures E_hn_announced: !final(self).io_failed@ ==> final(self).continued@ - old(self).continued@ == final(self).succ@ - old(self).succ@
//@   outline O_json: `json!($x)` => `outline_json()`
//@   outline O_dbg: `self .debugger .as_mut() .ok_or_else(|| anyhow!($m))?` => `self.outline_debugger()?`
//@   rewrite W_err: `debugger::Error::ProcessExit` => `DErr::ProcessExit`
//@   outline O_last: `self.last_stop = Some(LastStop { $f });` => `self.outline_set_last_stop();`
//@   outline O_str: `"step".to_string()` => `outline_step_str()`
//@   outline O_fmt: `format!("next failed: {e}")` => `outline_fmt(&e)`
//@ end

//@ extract: impl super::DebugSession / fn handle_step_in
//@   sig: pub fn handle_step_in(&mut self, req: &DapRequest) -> (r: Result<(), AnyErr>)
//@   ensures E_hsi_others: final(self).answered_others@ == old(self).answered_others@
//@   ensures E_hsi_once: !final(self).io_failed@ && r is Ok ==> final(self).answered@ == old(self).answered@ + 1
//@   ensures E_hsi_at_most_once: !final(self).io_failed@ ==> old(self).answered@ <= final(self).answered@ <= old(self).answered@ + 1
//@   ensures E_hsi_announced: !final(self).io_failed@ ==> final(self).continued@ - old(self).continued@ == final(self).succ@ - old(self).succ@
//@   outline O_json: `json!($x)` => `outline_json()`
//@   outline O_dbg: `self .debugger .as_mut() .ok_or_else(|| anyhow!($m))?` => `self.outline_debugger()?`
//@   rewrite W_err: `debugger::Error::ProcessExit` => `DErr::ProcessExit`
//@   outline O_last: `self.last_stop = Some(LastStop { $f });` => `self.outline_set_last_stop();`
//@   outline O_str: `"step".to_string()` => `outline_step_str()`
//@   outline O_fmt: `format!("stepIn failed: {e}")` => `outline_fmt(&e)`
//@ end

//@ extract: impl super::DebugSession / fn handle_step_out
//@   sig: pub fn handle_step_out(&mut self, req: &DapRequest) -> (r: Result<(), AnyErr>)
//@   ensures E_hso_others: final(self).answered_others@ == old(self).answered_others@
//@   ensures E_hso_once: !final(self).io_failed@ && r is Ok ==> final(self).answered@ == old(self).answered@ + 1
//@   ensures E_hso_at_most_once: !final(self).io_failed@ ==> old(self).answered@ <= final(self).answered@ <= old(self).answered@ + 1
//@   ensures E_hso_announced: !final(self).io_failed@ ==> final(self).continued@ - old(self).continued@ == final(self).succ@ - old(self).succ@
//@   outline O_json: `json!($x)` => `outline_json()`
//@   outline O_dbg: `self .debugger .as_mut() .ok_or_else(|| anyhow!($m))?` => `self.outline_debugger()?`
//@   rewrite W_err: `debugger::Error::ProcessExit` => `DErr::ProcessExit`
//@   outline O_last: `self.last_stop = Some(LastStop { $f });` => `self.outline_set_last_stop();`
//@   outline O_str: `"step".to_string()` => `outline_step_str()`
//@   outline O_fmt: `format!("stepOut failed: {e}")` => `outline_fmt(&e)`
//@ end

//@ extract: impl super::DebugSession / fn handle_configuration_done
//@   file: src/dap/yadap/session/init.rs
//@   sig: pub fn handle_configuration_done(&mut self, req: &DapRequest) -> (r: Result<(), AnyErr>)
//@   ensures E_cd_others: final(self).answered_others@ == old(self).answered_others@
//@   ensures E_cd_at_most_once: !final(self).io_failed@ ==> old(self).answered@ <= final(self).answered@ <= old(self).answered@ + 1
//@   ensures E_cd_once: !final(self).io_failed@ && r is Ok ==> final(self).answered@ == old(self).answered@ + 1
//@   ensures E_cd_truthful: !old(self).attach@ && final(self).succ@ > old(self).succ@ ==> final(self).started@
//@   requires R_cd_fresh: !old(self).started@
//@   outline O_dbg: `self .debugger .as_mut() .ok_or_else(|| anyhow!($m))?` => `self.outline_debugger()?`
//@   outline O_att: `self.session_mode == Some(SessionMode::Attach)` => `self.outline_is_attach()`
//@   outline O_none: `self.debugger.is_none()` => `self.outline_no_debugger()`
//@   outline O_any: `Err(anyhow!($m))` => `Err(AnyErr)`
//@   outline O_start: `dbg.start_debugee_with_reason().context("start debugee")?` => `self.outline_start()?`
//@ end

//@ extract: impl super::DebugSession / fn handle_restart
//@   sig: pub fn handle_restart(&mut self, req: &DapRequest) -> (r: Result<(), AnyErr>)
//@   ensures E_hr_others: final(self).answered_others@ == old(self).answered_others@
//@   ensures E_hr_at_most_once: !final(self).io_failed@ ==> old(self).answered@ <= final(self).answered@ <= old(self).answered@ + 1
//@   ensures E_hr_once: !final(self).io_failed@ && r is Ok ==> final(self).answered@ == old(self).answered@ + 1
//@   ensures E_hr_truthful: final(self).succ@ > old(self).succ@ ==> final(self).started@
//@   requires R_hr_fresh: !old(self).started@
//@   outline O_mode: `self.session_mode != Some(super::init::SessionMode::Launch)` => `self.outline_not_launch()`
//@   outline O_dbg: `self .debugger .as_mut() .ok_or_else(|| anyhow!($m))?` => `self.outline_debugger()?`
//@   outline O_start: `dbg .start_debugee_force_with_reason() .context("restart debugee")?` => `self.outline_start()?`
//@ end

//@ extract: impl super::DebugSession / fn handle_pause
//@   sig: pub fn handle_pause(&mut self, req: &DapRequest) -> (r: Result<(), AnyErr>)
//@   ensures E_hp_others: final(self).answered_others@ == old(self).answered_others@
//@   ensures E_hp_at_most_once: !final(self).io_failed@ ==> old(self).answered@ <= final(self).answered@ <= old(self).answered@ + 1
//@   ensures E_hp_once: !final(self).io_failed@ && r is Ok ==> final(self).answered@ == old(self).answered@ + 1
//@   outline O_opt: `self.debugger.as_mut()` => `self.outline_debugger_opt()`
//@   outline O_s1: `"pause".to_string()` => `outline_step_str()`
//@   outline O_s2: `"Paused".to_string()` => `outline_step_str()`
//@   outline O_fmt: `format!("pause failed: {e}")` => `outline_fmt(&e)`
//@ end

//@ extract: impl super::DebugSession / fn handle_terminate
//@   sig: pub fn handle_terminate(&mut self, req: &DapRequest) -> (r: Result<(), AnyErr>)
//@   ensures E_ht_others: final(self).answered_others@ == old(self).answered_others@
//@   ensures E_ht_at_most_once: !final(self).io_failed@ ==> old(self).answered@ <= final(self).answered@ <= old(self).answered@ + 1
//@   ensures E_ht_once: !final(self).io_failed@ && r is Ok ==> final(self).answered@ == old(self).answered@ + 1
//@ end

//@ extract: impl super::DebugSession / fn handle_disconnect
//@   sig: pub fn handle_disconnect(&mut self, req: &DapRequest) -> (r: Result<(), AnyErr>)
//@   ensures E_hd_others: final(self).answered_others@ == old(self).answered_others@
//@   ensures E_hd_at_most_once: !final(self).io_failed@ ==> old(self).answered@ <= final(self).answered@ <= old(self).answered@ + 1
//@   ensures E_hd_once: !final(self).io_failed@ && r is Ok ==> final(self).answered@ == old(self).answered@ + 1
//@   outline O_arg: `req .arguments .get("terminateDebuggee") .and_then(|v| v.as_bool()) .unwrap_or(false)` => `Self::outline_wants_terminate(req)`
//@   outline O_take: `self.debugger.take()` => `self.outline_take_debugger()`
//@   outline O_det: `dbg.detach().context("detach debuggee")?` => `dbg.detach()?`
//@ end
}

} // verus!
fn main() {}
