//@ unit: C12.handlers
//@ props: C12
//@ source: src/dap/yadap/session/control.rs
//@ fn: DebugSession::handle_continue
//@ assume: send_success_body appends exactly one response for `req` (send_response_raw: unit C12.wire, E_rsp) or fails with the transport; enqueue_event, drain_events, begin_running, current_thread_id and emit_stop_reason append no response (events only); emit_stop_reason and continue_debugee_with_reason may fail for debugger reasons
//@ assume: signature substitution anyhow::Result<()> -> Result<(), AnyErr>; `json!`, `anyhow!`, `.context(..)` outlined
//@ notcovered: the other handlers (each would need its own outline set); this unit is the evidence for the dispatch contract assumed by C12.wire: a handler answers at most once, exactly once when it returns Ok, and handle_continue answers BEFORE it can fail
use vstd::prelude::*;
verus! {
//@ include: prelude.rs

pub struct AnyErr;
pub struct JsonBody;
pub struct DapRequest { pub seq: i64 }
pub struct StopReason(pub u8);
pub enum InternalEvent { Continued { thread_id: i64, all_threads_continued: bool } }

pub struct Dbg;
impl Dbg {
    #[verifier::external_body]
    pub fn continue_debugee_with_reason(&mut self) -> (r: Result<StopReason, AnyErr>) { unimplemented!() }
}

pub struct DebugSession {
    /// ghost: number of responses written for the request being handled
    pub answered: Ghost<nat>,
    /// ghost: responses written for any other request
    pub answered_others: Ghost<nat>,
    pub io_failed: Ghost<bool>,
}

pub open spec fn quiet_step(a: &DebugSession, b: &DebugSession) -> bool {
    a.answered@ == b.answered@ && a.answered_others@ == b.answered_others@ && a.io_failed@ == b.io_failed@
}

#[verifier::external_body]
fn outline_json() -> (r: JsonBody) { unimplemented!() }

impl DebugSession {
    #[verifier::external_body]
    fn begin_running(&mut self) ensures quiet_step(old(self), final(self)), { unimplemented!() }
    #[verifier::external_body]
    fn current_thread_id(&mut self) -> (r: i64) ensures quiet_step(old(self), final(self)), { unimplemented!() }
    #[verifier::external_body]
    fn enqueue_event(&mut self, ev: InternalEvent) ensures quiet_step(old(self), final(self)), { unimplemented!() }
    #[verifier::external_body]
    fn drain_events(&mut self) -> (r: Result<(), AnyErr>)
        ensures final(self).answered@ == old(self).answered@, final(self).answered_others@ == old(self).answered_others@,
            r is Err ==> final(self).io_failed@, r is Ok ==> final(self).io_failed@ == old(self).io_failed@,
    { unimplemented!() }
    #[verifier::external_body]
    fn send_success_body(&mut self, req: &DapRequest, body: JsonBody) -> (r: Result<(), AnyErr>)
        ensures final(self).answered_others@ == old(self).answered_others@,
            r is Ok ==> final(self).answered@ == old(self).answered@ + 1 && final(self).io_failed@ == old(self).io_failed@,
            r is Err ==> final(self).answered@ == old(self).answered@ && final(self).io_failed@,
    { unimplemented!() }
    #[verifier::external_body]
    fn outline_debugger(&mut self) -> (r: Result<&mut Dbg, AnyErr>) ensures quiet_step(old(self), final(self)), { unimplemented!() }
    #[verifier::external_body]
    fn emit_stop_reason(&mut self, stop: StopReason) -> (r: Result<(), AnyErr>)
        ensures final(self).answered@ == old(self).answered@, final(self).answered_others@ == old(self).answered_others@,
            !final(self).io_failed@ ==> !old(self).io_failed@,
    { unimplemented!() }

//@ extract: impl super::DebugSession / fn handle_continue
//@   sig: pub fn handle_continue(&mut self, req: &DapRequest) -> (r: Result<(), AnyErr>)
//@   ensures E_hc_others: final(self).answered_others@ == old(self).answered_others@
//@   ensures E_hc_at_most_once: !final(self).io_failed@ ==> old(self).answered@ <= final(self).answered@ <= old(self).answered@ + 1
//@   ensures E_hc_ok_answered: !final(self).io_failed@ && r is Ok ==> final(self).answered@ == old(self).answered@ + 1
//@   outline O_json: `json!($x)` => `outline_json()`
//@   outline O_dbg: `self .debugger .as_mut() .ok_or_else(|| anyhow!($m))?` => `self.outline_debugger()?`
//@   outline O_ctx: `dbg.continue_debugee_with_reason().context("continue")?` => `dbg.continue_debugee_with_reason()?`
//@ end
}

} // verus!
fn main() {}
