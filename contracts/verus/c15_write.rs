//@ unit: C15.write
//@ props: C15 C08
//@ implicit: C08
//@ source: src/dap/yadap/session/data.rs
//@ fn: dap::yadap::session::data::write_bytes
//@ assume: trusted environment model: `dbg.read_memory(a, 8)` is Mem::read_word (contract = the proved contract of C15.read for read_n = 8) and `dbg.write_memory(a, w)` is Mem::poke (PTRACE_POKEDATA replaces exactly the 8 bytes at a with the little-endian bytes of w, or fails and changes nothing); the parameter `dbg: &Debugger` is replaced by `dbg: &mut Mem`
//@ assume: recorded precondition R_addr: addr <= i64::MAX (established by parse_memory_reference_with_offset for the DAP readMemory/writeMemory path; the setVariable/setExpression callers pass value locations and are not verified) and R_len: bytes.len() < 2^62
//@ notcovered: serialize_dap_value for composites, DAP variable lookup, page-boundary behaviour of the kernel
use vstd::prelude::*;
verus! {
//@ include: prelude.rs
//@ include: memmodel.rs

pub struct AnyErr;

/// little-endian bytes of a machine word (x86-64: identical to native-endian)
pub uninterp spec fn le_bytes(w: usize) -> Seq<u8>;

impl Mem {
    /// Debugger::read_memory(addr, 8) = read_memory_by_pid(proc_pid, addr, 8): proved as C15.read (E_len, E_bytes)
    #[verifier::external_body]
    pub fn read_word(&self, addr: usize, n: usize) -> (r: Result<Vec<u8>, AnyErr>)
        requires n == 8,
        ensures r is Ok ==> r->Ok_0@.len() == 8 && forall|i: int| 0 <= i < 8 ==> #[trigger] r->Ok_0@[i] == self.m@[addr + i],
    {
        unimplemented!()
    }

    /// Debugger::write_memory(addr, value): one PTRACE_POKEDATA
    #[verifier::external_body]
    pub fn poke(&mut self, addr: usize, value: usize) -> (r: Result<(), AnyErr>)
        ensures
            r is Err ==> final(self).m@ == old(self).m@,
            r is Ok ==> le_bytes(value).len() == 8 && forall|k: int| #[trigger] final(self).m@[k] ==
                (if addr <= k < addr + 8 { le_bytes(value)[k - addr] } else { old(self).m@[k] }),
    {
        unimplemented!()
    }
}

#[verifier::external_body]
fn outline_size_of_usize() -> (r: usize)
    ensures r == 8,
{
    //@ verbatim: O_word
}

#[verifier::external_body]
fn outline_max(a: usize, b: usize) -> (r: usize)
    ensures r == (if a >= b { a } else { b }),
{
    std::cmp::max(a, b)
}

#[verifier::external_body]
fn outline_min(a: usize, b: usize) -> (r: usize)
    ensures r == (if a <= b { a } else { b }),
{
    std::cmp::min(a, b)
}

#[verifier::external_body]
fn outline_copy_range(existing: &mut Vec<u8>, d0: usize, d1: usize, bytes: &[u8], s0: usize, s1: usize)
    requires
        d0 <= d1 <= old(existing)@.len(),   // std: slice index panics otherwise
        s0 <= s1 <= bytes@.len(),           // std: slice index panics otherwise
        d1 - d0 == s1 - s0,                 // std: copy_from_slice panics on length mismatch
    ensures
        final(existing)@.len() == old(existing)@.len(),
        forall|i: int| 0 <= i < final(existing)@.len() ==> #[trigger] final(existing)@[i] ==
            (if d0 <= i < d1 { bytes@[s0 + (i - d0)] } else { old(existing)@[i] }),
{
    existing[d0..d1].copy_from_slice(&bytes[s0..s1]);
}

#[verifier::external_body]
fn outline_copy_word(le: &mut [u8; 8], existing: &Vec<u8>, word: usize)
    requires word == 8, word <= existing@.len(),   // std: `[..word]` panics if word > len; copy_from_slice panics on length mismatch
    ensures final(le)@ == existing@.subrange(0, 8),
{
    le.copy_from_slice(&existing[..word]);
}

#[verifier::external_body]
fn outline_from_le(le: [u8; 8]) -> (r: usize)
    ensures le_bytes(r) == le@,
{
    usize::from_le_bytes(le)
}

//@ extract: fn write_bytes
//@   sig: fn write_bytes(dbg: &mut Mem, addr: usize, bytes: &[u8]) -> (r: Result<(), AnyErr>)
//@   requires R_addr: addr <= 0x7fff_ffff_ffff_ffff
//@   requires R_len: bytes@.len() < 0x4000_0000_0000_0000
//@   ensures E_written: r is Ok ==> forall|k: int| addr <= k < addr + bytes@.len() ==> #[trigger] final(dbg).m@[k] == bytes@[k - addr]
//@   ensures E_frame: forall|k: int| !(addr <= k < addr + bytes@.len()) ==> #[trigger] final(dbg).m@[k] == old(dbg).m@[k]
//@   rewrite W_arr: `[0u8; std::mem::size_of::<usize>()]` => `[0u8; 8]`
//@   outline O_word: `std::mem::size_of::<usize>()` => `outline_size_of_usize()`
//@   rewrite W_empty: `bytes.is_empty()` => `bytes.len() == 0`
//@   outline O_max: `std::cmp::max($a, $b)` => `outline_max($a, $b)`
//@   outline O_min: `std::cmp::min($a, $b)` => `outline_min($a, $b)`
//@   outline O_read: `dbg.read_memory($a, $n).context("read_memory")?` => `dbg.read_word($a, $n)?`
//@   outline O_copy: `existing[$da..$db] .copy_from_slice(&bytes[$sa..$sb]);` => `outline_copy_range(&mut existing, $da, $db, bytes, $sa, $sb);`
//@   outline O_cpw: `le.copy_from_slice(&existing[..word]);` => `outline_copy_word(&mut le, &existing, word);`
//@   outline O_le: `usize::from_le_bytes(le)` => `outline_from_le(le)`
//@   outline O_poke: `dbg.write_memory($a as _, $v as _) .context("write_memory")?` => `dbg.poke($a, $v)?`
//@   loop 0 invariant I_word: word == 8 && start == addr && end == addr + bytes@.len()
//@   loop 0 invariant I_cur: start <= cur && (cur == start || cur % 8 == 0) && (cur < end || cur - end < 8)
//@   loop 0 invariant I_done: forall|k: int| start <= k < cur && k < end ==> #[trigger] dbg.m@[k] == bytes@[k - start]
//@   loop 0 invariant I_rest: forall|k: int| !(start <= k < cur && k < end) ==> #[trigger] dbg.m@[k] == old(dbg).m@[k]
//@   loop 0 decreases: end + 8 - cur
//@ end

} // verus!
fn main() {}
