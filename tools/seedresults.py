#!/usr/bin/env python3
"""Collects .work/seedsweep/<id>.out (bin/seedsweep) into seeded/results.json: which obligations fail for each seeded change."""
import glob, json, os, re
V = os.path.dirname(os.path.dirname(os.path.abspath(__file__)))
res = {}
for f in sorted(glob.glob(os.path.join(V, ".work", "seedsweep", "*.out"))):
    sid = os.path.basename(f)[:-4]
    prop = sid.split("_")[0]
    txt = open(f).read()
    killed = re.findall(r"^KILLED-BY (C\d\d) (\S+)", txt, re.M)
    # the recorded known finding fails on the unchanged tree too: it is not a detection of the seed
    kf = re.findall(r"^KILLED-BY (C\d\d) (C10\.single_step\.I_notq) -- invariant not satisfied before loop", txt, re.M)
    killed = [k for k in killed if k not in kf]
    undec = re.findall(r"^UNDECIDED (\S+) (.*)$", txt, re.M)
    mine = sorted(set(ob for p, ob in killed if p == prop))
    other = sorted(set("%s (reported under %s)" % (ob, p) for p, ob in killed if p != prop))
    note = ""
    if undec:
        note = "undecided units: " + "; ".join("%s: %s" % (u, w[:80]) for u, w in undec[:2])
    if mine:
        res[sid] = {"caught_by": ", ".join(mine[:4]), "note": note}
    elif other:
        res[sid] = {"caught_by": None, "note": ("fails only obligations owned by another property: " + ", ".join(other[:3]) + ". " + note).strip()}
    else:
        res[sid] = {"caught_by": None, "note": note or ("not detected" if "SURVIVED" in txt else "no result")}
json.dump(res, open(os.path.join(V, "seeded", "results.json"), "w"), indent=1)
n = sum(1 for v in res.values() if v["caught_by"])
print("%d seeds, %d detected" % (len(res), n))
for k, v in sorted(res.items()):
    if not v["caught_by"]:
        print("  NOT DETECTED:", k, v["note"][:150])
