#!/usr/bin/env python3
"""Regenerates /verif/MANIFEST.json from the table below (kept in one place so that the claimed
scope, the not_applicable list and DESIGN.md stay in step)."""
import json, os
V = os.path.dirname(os.path.dirname(os.path.abspath(__file__)))

CLAIMS = {
 # id: (category, text, note, technique, design_ref)
 "C14": ("proof",
         "Kani/CBMC proofs, complete over all 2^64-bit register images, of the real DR6/DR7 functions "
         "(dr_enabled, configure_bp, set_dr, detect_and_flush, BreakSize::try_from) against the Intel SDM layout, and of "
         "HardwareBreakpoint::enable/disable/address_already_observed and WatchpointRegistry::distribute_to_tracee on a "
         "one-thread debug-register image model: least free slot, frame of the other slots, refusal of a fifth without any write, "
         "no stale LE bit, enable/disable round trip, image pushed to a new thread. Scope: the register encoding and slot "
         "allocation kernel, not the kernel/hardware behaviour, scope-exit removal or restart survival.",
         "HardwareDebugState::current/sync replaced by a static register image (stub); TraceeCtl thread map empty (std HashMap "
         "iteration is outside CBMC's reach) so the per-thread fan-out loop is unverified; Intel SDM semantics assumed.",
         "Kani function-level proofs on the real crate (stubs for ptrace), full-domain symbolic inputs", "2/C14"),
 "C04": ("proof",
         "Verus proofs, for every sorted line table of any length, of the real BsUnit lookups extracted mechanically each run: "
         "find_place_by_idx, find_place_by_pc (a row of the greatest address <= pc), find_exact_place_by_pc (lowest index with "
         "that address, Some iff present), find_eb (nearest earlier epilogue row), PlaceDescriptor::from/next/prev and the LineRow "
         "flag accessors. Scope: pc->row answers; line->rows (find_closest_place), function ranges and the comparison with an "
         "independent DWARF reader are not covered.",
         "std binary_search_by_key / saturating_sub / From conversions are outlined with assumed contracts; `lines` sorted by "
         "address is a precondition (established by std sort in the parser); PlaceDescriptor.file lookup dropped.",
         "Verus contracts on mechanically extracted real functions", "2/C04"),
 "C08": ("proof",
         "Panic-freedom (overflow, index, unwrap, slice bounds) of a fixed list of functions on the property's mechanism list, "
         "proved by Verus (unbounded) and Kani (complete) with no precondition on user- or debuggee-controlled values. "
         "Scope: only the listed functions; not the console/DAP loops, parsers, hangs or allocation failure.",
         "overflow checked with debug-build (panic) semantics; outlined std calls carry std's documented panic condition as requires.",
         "Verus/Kani implicit obligations on real functions", "2/C08"),
}

NA = {
 "C01": "stops are a relation between another process's execution trace and waitpid events; only the INT3 patch primitive is contractable and is proved under C02",
 "C03": "step semantics are defined relative to the debuggee's real instruction trace and call depth; no function on the path has a postcondition expressible without the debuggee's execution semantics",
 "C09": "all-stop / exactly-once over thread interleavings is a kernel scheduling property; Kani has no concurrency, Verus would need permission types threaded through unchangeable code, and per-thread state lives in a std HashMap (out of CBMC's reach)",
 "C10": "whole-history accounting of signals over waitpid events and PTRACE_CONT injections through &self; the queue kernel needs std HashMap/HashSet iteration with closures that neither tool reaches",
 "C11": "statements about the process table, PTRACE_DETACH, SIGKILL/reaping and process re-creation: every step is a system call",
 "C12": "message order depends on the interleaving of the session thread with two forwarder threads, and one-response-per-request spans 40 handlers over serde_json and a live debugger; no thread support in Kani, no reachable sequential kernel",
 "C17": "PathSearchIndex is std HashMap entry API + string_interner + str::split behind a global Mutex: in Verus every step would be an assumed contract, a rewrite would be a model, and a bounded Kani probe did not terminate (6 min / 2.8 GB)",
 "C20": "decoding of tokio-internal layouts through DQE evaluation on a live process; nothing algorithmic of its own to put under contract",
}

def main():
    checks = []
    for pid in sorted(CLAIMS):
        cat, text, note, tech, ref = CLAIMS[pid]
        checks.append({
            "property_id": pid,
            "quick_cmd": "bin/vcheck %s quick" % pid,
            "thorough_cmd": "bin/vcheck %s thorough" % pid,
            "evidence_file": "/verif/evidence/%s.json" % pid,
            "replay_cmd_template": "bin/vcheck --replay {path}",
            "engine": "vfw",
            "level_claimed": {"category": cat, "text": text, "design_ref": "DESIGN.md section " + ref},
            "level_note": note,
            "technique": tech,
        })
    allp = ["C%02d" % i for i in range(1, 21)]
    na = []
    for pid in allp:
        if pid in CLAIMS:
            continue
        na.append({"property_id": pid, "reason": NA.get(pid, "not yet built in this session; see DESIGN.md section 2")})
    m = {
        "version": 1,
        "setup_cmd": "bin/vsetup",
        "hooks": {
            "guard": "cfg(kani)",
            "enable": "no source hooks are committed in /repo: Kani contract/harness modules are injected as `#[cfg(kani)] #[path=..] mod` lines into a snapshot of /repo under /verif/.work on every run; Verus units are extracted from the same snapshot",
            "baseline_off_cmd": "cd /repo && cargo nextest run --workspace --no-fail-fast --tool-config-file pb:/w/lib/nextest.toml --profile pb --test-threads 8 --offline || cargo test --workspace --no-fail-fast --offline",
            "source_commits": [],
            "add_only": True,
        },
        "engines": [{"name": "vfw", "path": "/verif/vfw", "serves_properties": sorted(CLAIMS),
                     "kind_free_text": "python3 driver around Kani 0.68 (in-place, cfg(kani) overlay) and Verus 0.2026.09.13 (mechanical extraction)"}],
        "checks": checks,
        "not_applicable": na,
        "notes": "exit 0 = every obligation discharged (or listed known finding); exit 1 + VIOLATION line = a named obligation failed; exit 2 + UNDECIDED line = tool limit / lost anchor (never an alarm). See DESIGN.md.",
    }
    json.dump(m, open(os.path.join(V, "MANIFEST.json"), "w"), indent=1)
    print("MANIFEST.json: %d checks, %d not_applicable" % (len(checks), len(na)))

if __name__ == "__main__":
    main()
