#!/usr/bin/env python3
"""Regenerates /verif/MANIFEST.json from the table below (kept in one place so that the claimed
scope, the not_applicable list and DESIGN.md stay in step)."""
import json, os
V = os.path.dirname(os.path.dirname(os.path.abspath(__file__)))

CLAIMS = {
 # id: (category, text, note, technique, design_ref)
 "C01": ("proof",
         "[session 3d] Also: a template that enable_all_breakpoints installed is no longer a not-installed template (one breakpoint lives in one table); step_out_frame removes only the temporary breakpoint it planted itself; continue_execution moves the focus to the thread that hit the breakpoint. "
         "[session 3c] Also: Verus proof on the real BreakpointRegistry::add_and_enable / get_enabled / add_uninit (vstd HashMap): the new breakpoint is stored under its address after the one it replaces was disarmed and it was armed itself, nothing else changes, an error leaves the table unchanged. "
         "[session 3b] Also: Verus proof on the real continue_execution (extracted whole) that its dispatch table holds at every exit of the event loop: it leaves the loop with a breakpoint event only for a user breakpoint after exactly one on_breakpoint hook for that pc, or for a temporary breakpoint without a hook; with exit/signal/watchpoint events only after their hook; and it goes on silently only for internal breakpoints (entry point, linker map, transparent) or a signal stop of a finished debuggee. "
         "[session 3] Also: Verus proof that the real Debugger::step_over_breakpoint re-arms the breakpoint it stepped off on every successful return (local ghost flag, assert before every Ok exit), and a Kani proof that the TRAP_BRKPT arm of apply_new_status attributes the stop to the thread that trapped, at the rewound pc, marks it stopped and starts one group stop on its behalf. "
         "Kani/CBMC proofs (complete over all words, addresses and register files) of the two primitives every breakpoint stop is "
         "built from: Breakpoint::enable/disable arm and disarm exactly the requested address (shared with C02), and the TRAP_BRKPT "
         "statements of apply_new_status report the breakpoint's own address: rip is rewound by exactly one byte and no other register "
         "changes. Scope: these primitives only; that every arrival yields exactly one stop, in execution order, and that removed "
         "breakpoints never stop again are relations between the debuggee's execution trace and waitpid events and are not covered.",
         "ptrace read/write/getregs/setregs replaced by one-word / one-thread models (stubs); the HashMap thread lookup replaced by a recorder.",
         "Kani proofs on the real crate and on statement fragments spliced from it", "2/C02+C01"),
 "C02": ("proof",
         "Kani/CBMC proofs, complete over all 2^64 words, addresses and saved bytes, of the real INT3 patch primitive "
         "Breakpoint::enable / Breakpoint::disable: exactly the breakpoint address is peeked and poked, only the low byte changes, "
         "the original byte is saved, disable after enable restores the word (no patched byte remains), the saved byte survives "
         "re-arming (step-over), a failed ptrace call leaves memory and flags unchanged, and replacing a breakpoint at an already "
         "patched address (add_and_enable) disables the old one first so the new one saves the ORIGINAL byte. Scope: the patch primitive only; that "
         "temporary breakpoints are removed, that all breakpoints are disabled on exit/detach, and that the debuggee's output is "
         "unchanged are whole-history statements outside this family's reach.",
         "nix::sys::ptrace::read/write replaced by a one-word memory model (stub); ptrace/kernel semantics assumed.",
         "Kani proofs on the real crate with ptrace stubs, full-domain symbolic inputs", "2/C02"),
 "C04": ("proof",
         "Verus proofs, for every sorted line table of any length, of the real line-table lookups extracted mechanically each run: "
         "find_place_by_idx, find_place_by_pc (a row of the greatest address <= pc), find_exact_place_by_pc (lowest index with that "
         "address, Some iff present), find_eb, find_lines_for_range, PlaceDescriptor::from/next/prev, the LineRow flag accessors, the "
         "prologue walk of prolog_end_place (first prologue_end row at or after the function's first row), the index arithmetic of "
         "find_function_by_pc, the per-unit row selection of find_closest_place (every place chosen for file:line is a statement row "
         "of that line from the file's row list) and parse_lines (the table holds exactly the rows of the DWARF line program, in "
         "order, with the attributes in the right flag bits; Kani: all 16 attribute combinations round-trip through the accessors). Scope: answers over the parsed tables; the outer loops of find_closest_place (file index, line+1 fallback, one per "
         "subprogram), DWARF decoding by gimli and the comparison with an independent reader are not covered.",
         "std binary_search_by_key / From conversions outlined with assumed contracts; `lines`/`fn_ranges` sorted is a precondition "
         "(std sort in the parser); PlaceDescriptor.file lookup dropped; prolog_start_place (gimli) external.",
         "Verus contracts on mechanically extracted real functions", "2/C04"),
 "C05": ("proof",
         "[session 3d] Also: the unwind loop's cycle guard distinguishes activations by (return address, CFA), restore_registers_at_frame resolves every frame's pc against that frame's own object, and frame_info reports the return address of the SELECTED frame (backtrace[k+1]). "
         "[session 3c] Also: Verus proof that restore_registers_at_frame walks exactly frame_num frames up the chain before it copies the registers. "
         "[session 3b] Also: Verus proofs that the CFI lookups of UnwindContext::new (.eh_frame and the .debug_frame fallback) are handed the file-relative pc (address-space typing), and that the register+offset CFA rule of evaluate_cfa computes register value + signed offset. "
         "Kani/CBMC proofs, complete over all register values, of the register carriage used by the unwinder: the DWARF register "
         "numbers equal the psABI table, DwarfRegisterMap::from(RegisterMap) stores every register under its DWARF number and nothing "
         "else, update/update_from have the stated frame, and RelocatedAddress::offset computes CFA = register + offset exactly. "
         "Scope: these units only; CFI row lookup, register-rule evaluation and the unwind loop (gimli) are not covered.",
         "psABI Fig. 3.36 typed into the harness as oracle; gimli's CFI decoding unverified.",
         "Kani proofs on the real crate, full-domain symbolic inputs", "2/C19+C05"),
 "C06": ("proof",
         "Kani/CBMC proofs over all 2^128 control groups that the hashbrown group scan marks exactly the FULL buckets and that the "
         "bit iteration reports each set bit once, ascending; Verus proofs (unbounded) that guard_len/guard_cap clamp at 10 000 and "
         "that the VecDeque ring split of parse_vec_dequeue_inner yields exactly len indices, the i-th being (head+i) mod capacity. "
         "Also Verus: the hashbrown BucketIterator never loads a control group at or beyond the end of the control bytes and keeps "
         "its data pointer in step with the control pointer; the B-tree next_leaf_edge/first_leaf_edge reach the leftmost leaf of the "
         "right subtree (std's successor rule). Scope: these decoders' arithmetic; type-graph driven parsing, strings and rendering are not covered.",
         "hashbrown/VecDeque layout facts (EMPTY/DELETED top bit; to_physical_idx) are the oracle; R_init len <= cap and cap = real "
         "capacity are recorded preconditions.",
         "Kani full-domain proofs + Verus proof of an extracted statement fragment", "2/C06"),
 "C07": ("proof",
         "[session 3b] Also: Verus proof that matching a set against an array literal consumes one literal entry (or wildcard) per set element (loop invariant over the real statements). "
         "[session 3] Also: Verus proof that the Array arm of the real Value::index returns the element at POSITION i of the (possibly sliced) sequence for 0 <= i < len and no result for any other literal, negative or out-of-range index. "
         "Verus proof (unbounded, all bounds and lengths) that the real ArrayValue::slice keeps exactly elements l..r-1 for in-range "
         "bounds and the clamped intersection otherwise, and leaves a value without items untouched. Scope: the array slice operator "
         "only; grammar/precedence, canonical text round trip, index/deref/address/cast are not covered.",
         "Vec::drain outlined with std's documented panic condition as requires and its removal semantics as ensures; ArrayItem.value dropped.",
         "Verus contract on the mechanically extracted real function", "2/C07"),
 "C08": ("proof",
         "Panic-freedom (overflow, index, unwrap, slice/drain bounds) of a fixed list of real functions on the property's mechanism "
         "list, proved by Verus for all inputs with no precondition on user- or debuggee-controlled values except those recorded: "
         "ArrayValue::slice, find_exact_place_by_pc/prev/next and the other line-table lookups, read_memory_by_pid, write_bytes, the "
         "disassembly breakpoint mask, the VecDeque ring split and element ranges, the pointer-slice arithmetic, the DAP memory-reference "
         "arithmetic, find_function_by_pc index arithmetic; bounded (Kani, string length) for the numeric conversion closures of the command grammar. Scope: only the listed "
         "functions; the console/DAP loops, parsers, hangs and allocation failure are not covered.",
         "overflow checked with debug-build (panic) semantics; outlined std calls carry std's documented panic condition as requires; "
         "recorded preconditions: read_n <= isize::MAX, addr <= i64::MAX (DAP path), len <= cap for the deque ring.",
         "Verus implicit obligations on mechanically extracted real functions", "2/C08"),
 "C13": ("proof",
         "[session 3d] Also: the record of a verified source / function / instruction breakpoint holds EVERY location the debugger installed for it (found and repaired: fix bc7cedb, a source breakpoint on a line of a generic function kept only its first location, the others survived the next setBreakpoints and ignored logMessage/condition). "
         "[session 3c] Also: record_breakpoint_hit counts every arrival once (saturating) and judges the new count with the record's own options. "
         "[session 3b] Also: Verus proofs of the replace protocol of handle_set_breakpoints / set_instruction / set_function breakpoints (the set that is removed from the debugger is the one stored under the same key / of the same kind; other kinds untouched; loop bodies outlined), of the stop filter loop of emit_stop_reason (the stop that is announced passed the exception filter and was not skipped; the debuggee is resumed once per filtered stop), of literal_truthy and of the evaluation order of evaluate_condition_expression. "
         "[session 3] Also: Verus proofs that the three record predicates of with_breakpoint_record_mut match a record iff the stop address is ANY of its addresses (first match), that should_skip_breakpoint decides exactly as the property says (condition false => skip silently; hit condition not met => skip; logpoint => log once and skip; otherwise stop) and that BreakpointRegistry::remove_by_addr removes whatever is registered under the address (installed or not) and nothing else. "
         "Kani/CBMC proof over all (N, hits) pairs that the real HitCondition::matches is the arithmetic relation its variant names "
         "(hitCondition N stops on the N-th hit and only then; an invalid condition never suppresses a stop). Scope: the hit-count "
         "predicate only; replacement semantics, `verified`, conditions and logpoints are not covered.",
         "everything else in C13 lives in handlers over serde_json, three HashMaps and the live debugger.",
         "Kani full-domain proof of the real predicate", "2/C13"),
 "C14": ("proof",
         "Kani/CBMC proofs, complete over all 2^64-bit register images, of the real DR6/DR7 functions "
         "(dr_enabled, configure_bp, set_dr, detect_and_flush, BreakSize::try_from) against the Intel SDM layout, and of "
         "HardwareBreakpoint::enable/disable/address_already_observed and WatchpointRegistry::distribute_to_tracee on a "
         "one-thread debug-register image model: least free slot, frame of the other slots, refusal of a fifth without any write, "
         "no stale LE bit, enable/disable round trip, image pushed to a new thread; plus (statement fragments) DR6 hit detection at a "
         "trap, the registry recording the image after a restart refresh, and the reference count of the end-of-scope breakpoint. Scope: the register encoding and slot "
         "allocation kernel, not the kernel/hardware behaviour, scope-exit removal or restart survival.",
         "HardwareDebugState::current/sync replaced by a static register image (stub); TraceeCtl thread map empty (std HashMap "
         "iteration is outside CBMC's reach) so the per-thread fan-out loop is unverified; Intel SDM semantics assumed.",
         "Kani function-level proofs on the real crate (stubs for ptrace), full-domain symbolic inputs", "2/C14"),
 "C15": ("proof",
         "[session 3d] Also: set_register_value writes the register file of the thread in focus (the one get_register_value reads); a composite setVariable drops the item's cached child snapshot and unlinks its child reference; Kani proof that the char arm of serialize_scalar_value writes the code point as a little-endian u32 for every char (bare or quoted). "
         "Verus proofs (unbounded: any address, length, alignment) that the real read_memory_by_pid returns exactly m[addr..addr+n] and "
         "that the real write_bytes changes exactly [addr, addr+n) to the given bytes and nothing else, also on error; that the "
         "disassembly mask shows the original byte for every breakpoint inside the function and touches nothing else; Kani proofs that "
         "RegisterMap::update/value have the full 27-register frame, that the kernel-struct conversions are mutually inverse and that "
         "Tracee::set_pc changes rip only and is visible to a following read.",
         "ptrace PEEK/POKE replaced by the ghost byte-map model; size_of/min/max/copy_from_slice/from_le_bytes outlined with std contracts; "
         "filter+for_each composition of the mask is assumed.",
         "Verus contracts on extracted real functions over a ghost memory model + Kani register proofs", "2/C15"),
 "C16": ("proof",
         "[session 3b] Also: Kani proof that an integer literal that fits the parameter type is passed as its two's-complement image of the parameter's width (liter_to_arg_bin_repr, integer arm, all 64-bit values, all widths). "
         "[session 3] Also: Kani proof that make_formatter_bytes_rust_1_87_plus builds exactly the core::fmt::Formatter image of rustc >= 1.87 (two pointers, flags = fill ' ' | ALIGN_UNKNOWN | ALWAYS_SET). "
         "Kani/CBMC proofs that the real get_reg_for_no places argument n in the n-th SysV integer register and that "
         "CallArgs::prepare_registers writes exactly the arguments, in order, leaving all other registers unchanged (any argument count "
         "0..6, all values); the trampoline word is `call *%rax; int3`, the jump patch `jmp *%rax` keeps the other six code bytes, "
         "the register set-up leaves everything but rax/rip/argument registers as saved, and retrieve_original_state writes back "
         "exactly the saved register file and code word. Scope: argument placement, trampoline encoding and restore; literal conversion, mmap/jump sequencing, exactly-once execution and state "
         "restore through ptrace are not covered.",
         "psABI 3.2.3 register order typed into the harness as oracle.",
         "Kani proofs on the real crate, full-domain symbolic values", "2/C16"),
 "C18": ("proof",
         "[session 3d] Also: reload_plan drops every registered object that the new link map does not list (computed from the registered files, not only the mapped ones); the DW_OP_addr relocation uses the load offset of the focused frame's object; enable_all_breakpoints as a whole leaves exactly the unresolvable templates registered (frame around the per-template loop). "
         "[session 3c] Also: find_by_addr / find_mapping_offset return the debug info / load offset stored under the path of the region that contains the address. "
         "[session 3b] Also: Verus proof on the per-object body of update_mappings: the load offset of an object is the lowest start of its maps lines and its region ends at start+size of the highest one, both recorded under the object's path. "
         "[session 3] Also: Verus proofs that UninitBreakpoint::try_into_brkpt resolves a file-less address template against the object that contains the address (so a run-time address maps back to itself: into_global then relocate_to_segment), and that refresh_deferred keeps a deferred request exactly as long as it has not been installed. "
         "Kani/CBMC proof over all values that GlobalAddress::relocate and RelocatedAddress::remove_vas_region_offset are mutually "
         "inverse for every load offset; Verus proof that the real comparator of DwarfRegistry::find_range partitions any well-formed "
         "range table, so the lookup returns a range containing the address iff one exists. Scope: address conversion and region "
         "lookup; /proc/<pid>/maps, rendezvous, deferred breakpoints and dlopen histories are not covered.",
         "std binary_search_by contract assumed for a partitioning comparator; wf_ranges (sorted, disjoint) assumed from the environment.",
         "Kani full-domain proof + Verus proof on the extracted comparator", "2/C18"),
 "C19": ("proof",
         "[session 3b] Also: Verus proof on the per-piece body of into_raw_bytes: a register piece contributes the bytes of ITS size (capped at 8), a memory piece reads exactly its size, the first piece's address is the value's address. "
         "Kani/CBMC proofs that the DWARF<->machine register numbering of the real tables equals the psABI table (injective, every "
         "register retrievable under its number, nothing else present) and that GlobalAddress::in_range is the half-open range "
         "predicate used by the lexical-scope filter. Scope: the register tables and the range predicate; finding the enclosing "
         "block, shadowing, location lists and frame selection are not covered.",
         "psABI Fig. 3.36 typed into the harness as oracle.",
         "Kani proofs on the real crate, full-domain symbolic inputs", "2/C19+C05"),
 "C11": ("proof",
         "[session 3d] Also: WatchpointRegistry::remove records the debug-register image without the removed watchpoint as the state new threads inherit; the process template remembered for an attached process holds the command line without argv[0]; disable_all_breakpoints leaves the installed table empty. "
         "[session 3b] Also: Verus proof on the per-template body of enable_all_breakpoints that a breakpoint whose code is not mapped yet stays registered (found and repaired: fix ea880a9, breakpoints in dlopen'ed libraries were dropped by restart). "
         "[session 3] Also: Verus proofs on the real Drop::drop (launched process killed and reaped in every state; attached process released with all LIVE threads detached, no patch, no armed debug register, SIGCONT iff something was released), Debugger::restart_debugee (the new process is created only when the old one is gone; exactly one new process) and the per-breakpoint body of disable_all_breakpoints (user/entry breakpoints survive as one template keyed by the load-independent address with their number). "
         "Verus proof of the real Debugger::detach against a ghost protocol model: the threads are released with PTRACE_DETACH only "
         "after every INT3 patch was removed and every hardware debug register was cleared, SIGCONT is sent only to a released "
         "process, `detached` is latched exactly on success and a second call does nothing. Scope: the ordering inside detach; "
         "quitting (kill and reap), restart and the exit code are system-call histories outside this family's reach.",
         "disable_all_breakpoints / clear_all / ptrace::detach / kill are assumed contracts over ghost sets (HashMap iteration, system calls); "
         "errors of the two clean-up calls are ignored by the code and not modelled.",
         "Verus modular proof with ghost protocol state on the extracted real function", "8.4/C11"),
 "C12": ("proof",
         "[session 3d] Also: handle_launch / handle_attach re-arm the `terminated` latch before the first drain, so nothing the new debuggee announces is discarded; emit_stop_reason never queues thread events into the batch that carries `exited` (they would be thrown away), announces an exit once and a stop once per epoch. "
         "[session 3c] Also the handlers restart, pause, terminate, disconnect, step_in, step_out: at most one response, exactly one when they return Ok. "
         "[session 3] Also: Verus proofs on the real send_response_raw / send_event_raw (sequence number = shared counter, request_seq and command of the request, counter advanced once) and on the dispatch loop run: for every request read exactly one response is written (against the dispatch contract 'a handler answers at most once and may fail afterwards', itself proved for handle_continue) -- this unit found the double response repaired by fix de3da29. "
         "Verus proof (any batch of queued events, any earlier history) of the real DebugSession::drain_events against a ghost record "
         "of the events put on the wire: nothing is sent once `terminated` is latched; `terminated` is sent at most once and is the "
         "last event; a process exit is announced as output*, process-end*, exited(code), terminated with the code of the batch; the "
         "queue is empty afterwards. Scope: the lifecycle latch of event delivery only; one-response-per-request, sequence numbers "
         "(a concurrency question across the forwarder threads), the 40 handlers and error responses are not covered.",
         "send_events/emit_process_end/send_event* are assumed recorders of event kinds (serde_json + transport are external); "
         "InternalEvent reduced to the variants the function distinguishes.",
         "Verus modular proof with ghost wire history on the extracted real function", "4.1/C12"),
 "C10": ("proof",
         "[session 3d] Also: Tracer::resume keeps every thread with a queued signal stopped while one signal is injected (asserted against the real exclude list). "
         "[session 3b] Also: Verus proofs on the real cont_stopped_ex / cont_stopped (sequence model of the thread table): only the requested thread, if stopped and not excluded, receives the requested signal, at most once. One defect is recorded as a KNOWN FINDING, not repaired (see known_findings.json / DESIGN 8.14): stepi at a signal stop followed by a second signal loses the first signal. "
         "[session 3] Also: Verus proof on the real Tracer::single_step (extracted whole, ghost ledger arrived/delivered) that every signal the debugger intercepts is delivered once or queued once (multiset balance) -- this unit found the quiet-signal double delivery repaired by fix c8e7fb7. "
         "Kani/CBMC proofs over all 31 signals that the quiet and transparent tables are exactly the sets of the property statement and "
         "that the signal-stop arm of apply_new_status queues every signal but SIGINT exactly once, at the back, with its thread, reports "
         "the stop with that thread and requests a group stop iff the signal is not quiet; Verus proof (any queue length) that "
         "Tracer::resume never loses or duplicates a queued signal: delivered ++ queue only ever grows at its end, one signal is "
         "injected per resume and the debuggee is re-stopped with the next one while more are pending. Scope: the queue discipline of "
         "these functions; signals inside single_step, multi-thread interleavings and the kernel's delivery are not covered.",
         "cont_stopped_ex/cont_stopped/apply_new_status/waitpid are assumed contracts (HashMap iteration, ptrace); recorded "
         "precondition: the queued threads are pairwise distinct (a thread in signal-delivery-stop cannot stop again before it is resumed).",
         "Kani full-domain proofs + Verus modular proof with ghost delivery history on the extracted real function", "4.1/C10"),
 "C17": ("proof",
         "Verus proof (any number of insertions, any path lengths, any value type) of the real PathSearchIndex::insert_w_head, "
         "PathSearchIndex::insert and PathSearchIndex::get against an abstract view (the log of inserted (component path, value) pairs, "
         "connected to heads/tails/data/next_nonce by a representation invariant): every insertion appends exactly one entry and keeps "
         "the invariant; get(needle) returns the values of exactly the entries whose component path ends with the needle's components, "
         "in insertion order, each once: no partial-component match, no miss, nothing invented; no index panic or nonce overflow. Scope: the index "
         "data structure used for function templates and file templates; how paths are built from DWARF/linkage names, which units "
         "and objects are searched, and `symbol <regex>` are not covered.",
         "assumed: the string interner is a function of the string; splitting the needle on the delimiter (str ops) is one outlined "
         "expression with an assumed result; std contracts of HashMap::entry().or_insert_with, slice::ends_with and the "
         "filter/filter_map/collect chain (closure bodies are spliced verbatim into a hand-written composing loop); signature substitution for impl IntoIterator/AsRef<str> parameters.",
         "Verus data-structure invariant + abstract view on the mechanically extracted real functions", "8.8/C17"),
 "C09": ("proof",
         "[session 3c] Also: a clone event changes the stop mark of the parent only; resume() re-stops the process before it reports a queued signal; a completed instruction step is reported only when the pc moved. "
         "Verus proofs on the real tracer code against a ghost thread table. (1) Tracer::group_stop_interrupt, extracted whole: when it "
         "returns Ok (and was not re-entered) EVERY thread the tracer controls is marked stopped -- threads of the snapshot are interrupted "
         "and marked or have gone, threads that appear meanwhile are added stopped -- and the re-entrancy guard is released. (2) The "
         "thread-lifecycle arms of apply_new_status (Exited, PTRACE_EVENT_EXEC / CLONE / STOP / EXIT): a thread announced by a clone or stop "
         "event is in the thread list afterwards and nobody else is added, an exiting thread leaves it, every thread that enters the list "
         "receives the watchpoint image, the program's exit is reported exactly when the main thread exits. Scope: the debugger's own "
         "bookkeeping for one call; that a thread marked stopped is stopped in the kernel, the two-round heuristic against threads created "
         "late, exactly-once reporting of arrivals per thread and every interleaving question are NOT covered (kernel scheduling: outside "
         "contract-based verification; no concurrency in Kani, no permission types in the real code).",
         "assumed: nested apply_new_status never un-marks a stopped thread and adds threads stopped; TraceeCtl accessors as std-HashMap contracts on a ghost map; "
         "ptrace event codes typed from ptrace(2); the two for loops rewritten to index loops; termination of the wait loop not claimed.",
         "Verus contracts on mechanically spliced match arms of the real function", "8.11/C09"),
 "C03": ("proof",
         "[session 3c] Also: Tracer::single_step reports a completed step only when the program counter differs from the one at entry (rep-prefixed instructions are stepped again). "
         "[session 3b] Also: Verus proofs that a temporary step breakpoint stops only the thread that owns it (other threads pass over it silently) and that stepi / step_out restore the real frame before stepping. "
         "Verus proofs on the real step code: single_step_instruction executes exactly one instruction of the focused thread (through "
         "step_over_breakpoint when it stands on a breakpoint, otherwise Tracer::single_step of that thread; ghost step history), and the "
         "stop criterion of step_in's main loop is exactly: the place reached is a statement boundary and either the frame changed (CFA) or "
         "file/line differ from the start place -- it stops there and nowhere earlier or later among the places it is shown. Scope: the "
         "decision logic only; that the places visited are those of the real execution, next/finish (temporary breakpoints: their "
         "installation and removal are covered under C02), prologue skipping and the reporting of interrupted steps are NOT covered: "
         "they are defined relative to the debuggee's instruction trace.",
         "step_over_prolog, get_cfa, single_step and step_over_breakpoint are external (assumed to step one instruction of the thread given); "
         "the criterion is asserted at the break and negated after the if (ghost rewrites).",
         "Verus contracts / asserted exits on the mechanically extracted real functions", "8.12/C03"),
}

NA = {
 "C20": "decoding of tokio-internal layouts through DQE evaluation on a live process; nothing algorithmic of its own to put under contract",
}

def main():
    checks = []
    for pid in sorted(CLAIMS):
        cat, text, note, tech, ref = CLAIMS[pid]
        checks.append({
            "property_id": pid,
            "quick_cmd": "bin/vcheck %s quick" % pid,
            "thorough_cmd": "bin/vcheck %s thorough" % pid,
            "evidence_file": "/verif/evidence/%s.json" % pid,
            "replay_cmd_template": "bin/vcheck --replay {path}",
            "engine": "vfw",
            "level_claimed": {"category": cat, "text": text, "design_ref": "DESIGN.md section " + ref},
            "level_note": note,
            "technique": tech,
        })
    allp = ["C%02d" % i for i in range(1, 21)]
    na = []
    for pid in allp:
        if pid in CLAIMS:
            continue
        na.append({"property_id": pid, "reason": NA.get(pid, "not yet built in this session; see DESIGN.md section 2")})
    m = {
        "version": 1,
        "setup_cmd": "bin/vsetup",
        "hooks": {
            "guard": "cfg(kani)",
            "enable": "no source hooks are committed in /repo: Kani contract/harness modules are injected as `#[cfg(kani)] #[path=..] mod` lines into a snapshot of /repo under /verif/.work on every run; Verus units are extracted from the same snapshot",
            "baseline_off_cmd": "cd /repo && cargo nextest run --workspace --no-fail-fast --tool-config-file pb:/w/lib/nextest.toml --profile pb --test-threads 8 --offline || cargo test --workspace --no-fail-fast --offline",
            "source_commits": [],
            "add_only": True,
        },
        "engines": [{"name": "vfw", "path": "/verif/vfw", "serves_properties": sorted(CLAIMS),
                     "kind_free_text": "python3 driver around Kani 0.68 (in-place, cfg(kani) overlay) and Verus 0.2026.09.13 (mechanical extraction)"}],
        "checks": checks,
        "not_applicable": na,
        "notes": "exit 0 = every obligation discharged (or listed known finding); exit 1 + VIOLATION line = a named obligation failed; exit 2 + UNDECIDED line = tool limit / lost anchor (never an alarm). See DESIGN.md.",
    }
    json.dump(m, open(os.path.join(V, "MANIFEST.json"), "w"), indent=1)
    print("MANIFEST.json: %d checks, %d not_applicable" % (len(checks), len(na)))

if __name__ == "__main__":
    main()
