#!/bin/bash
# confirm_suite.sh <worktree> <seed id>... : our own run of the pinned baseline suite WITH each seeded change applied
# (scratch worktree; /repo is not touched).  The DAP tests are flaky under load (3 s connect time-out), so stable_pass
# tests that fail in the parallel run are re-run single-threaded (tools/rerun_stable.py); a test counts as broken by the
# change only if it keeps failing.  Appends to seeded/<id>/confirm.log.
wt=$1; shift
cd "$wt" || exit 2
clean() { git reset -q; git checkout -q -- .; git clean -fdq src tests >/dev/null 2>&1; }
for id in "$@"; do
  d=/verif/seeded/$id
  clean
  git apply "$d/patch.diff" || { echo "$id: PATCH DOES NOT APPLY"; continue; }
  timeout 2400 cargo nextest run --workspace --no-fail-fast --tool-config-file pb:/w/lib/nextest.toml --profile pb --test-threads 8 --offline > /tmp/confirm_suite_$id.log 2>&1
  {
    echo "== baseline suite WITH the change ($id) at $(git rev-parse --short HEAD) on $(date -u +%FT%TZ)"
    grep -E "Summary" /tmp/confirm_suite_$id.log | tail -1
    python3 /verif/tools/rerun_stable.py "$wt" /tmp/confirm_suite_$id.log
  } >> "$d/confirm.log" 2>&1
  clean
  echo "$id $(tail -1 $d/confirm.log)"
done
