#!/usr/bin/env python3
"""Writes seeded/<id>/meta.json for every seeded change and prints the DESIGN table.
The table below is maintained by hand from the runs recorded in .work/seedall*.out and seeded/<id>/confirm.log."""
import json, os
V = os.path.dirname(os.path.dirname(os.path.abspath(__file__)))
S = {
 # id: (property, file/function, what it needs to manifest, caught by (obligation) or None, note)
 "C04_1": ("C04", "parser.rs parse_lines: rows without a source line are dropped", "a pc inside a compiler-generated line-0 range (stepi / raw address / crash)", "C04.parse_lines.I_pl1, I_pl2", "missed at first (only the flag statements were under contract); caught after parse_lines was put under contract"),
 "C04_2": ("C04", "dwarf/mod.rs find_closest_place: line_idx = ahead_idx (position in the file's row list instead of the row index)", "a line whose first is_stmt row is followed by a prologue_end row of the same line (one-line functions)", "C04.lines.I_cl5", "missed at first (find_closest_place was not under contract); caught after the per-unit row selection loop was extracted"),
 "C04_3": ("C04", "die_ref.rs prolog_end_place: start row's prologue_end flag never tested", "a function whose first row is its prologue end (no prologue instructions)", "C04.lines.E_pe3, I_pe2", "caught by the existing unit"),
 "C06_1": ("C06", "btree.rs next_leaf_edge: idx = 0 hoisted out of the descent loop", "a BTreeMap/BTreeSet of height >= 2", "C06.btree_walk.I_nle1", "missed at first (B-tree walk not under contract); caught after the unit was added"),
 "C06_2": ("C06", "specialization/mod.rs parse_vec_dequeue_inner: the two ring ranges swapped", "a VecDeque whose contents wrap around the buffer end", "C06.deque_ring.E_phys", "first run: UNDECIDED (the fragment's end anchor was the mutated statement); caught after the anchor was made exclusive on the following statement"),
 "C06_3": ("C06", "hashbrown.rs BucketIterator::next: next_ctrl >= end weakened to >", "a HashMap/HashSet with >= 16 buckets", "C06.bucket_iter.I_bi1", "missed at first (iterator not under contract); caught after the unit was added"),
 "C14_1": ("C14", "register.rs configure_bp: set_bits replaced by |= of the 4-bit group", "add a watchpoint, remove it, add a narrower one in the same slot", None, ""),
 "C14_2": ("C14", "breakpoint.rs decrease_companion_rc: && became ||", "two watchpoints on locals of one scope, remove the older one", None, ""),
 "C14_3": ("C14", "watchpoint.rs WatchpointRegistry::refresh: last_seen_state no longer recorded", "watchpoint on a global, restart, then a thread is spawned", None, ""),
 "C15_1": ("C15", "data.rs write_bytes: dst_off = addr % word", "an unaligned write that spills into the next word", "C15.write.I_done", "caught by the existing unit"),
 "C15_2": ("C15", "data.rs value_write_meta: U128 mapped to ScalarKind::U64", "a u128 variable with a value >= 2^64", None, ""),
 "C15_3": ("C15", "disasm.rs mask filter: addr >= start weakened to >", "a breakpoint exactly on the function's entry address", "C15.disasm_mask.E_masked", "caught by the existing unit"),
 "C08_1": ("C08", "value/mod.rs ArrayValue::slice: items.len() hoisted before the left drain", "var arr[2..6] on 5 elements (len < right < len + left)", None, ""),
 "C08_2": ("C08", "mod.rs set_frame_into_focus: num > len instead of >=, then indexing", "frame switch N with N equal to the backtrace depth", None, ""),
 "C08_3": ("C08", "dap/transport.rs read_message: line[..15] case-insensitive compare", "a header line with a multi-byte character across byte 15", None, ""),
 "C05_1": ("C05", "mod.rs ecx_update_location keeps the old frame number", "select frame k>0, then step_into/stepi, then read variables", None, ""),
 "C05_2": ("C05", "unwind.rs UnwindContext::new: .debug_frame fallback looks the FDE up by the run-time pc", "a frame covered only by .debug_frame in an object loaded at a non-zero offset", None, ""),
 "C05_3": ("C05", "register.rs DwarfRegisterMap::from: rdx/rcx swapped", "a value located in DW_OP_reg1/reg2 (optimized code)", None, ""),
 "C16_1": ("C16", "call/mod.rs get_reg_for_no: argument 3 goes to r10", "a call with 4 or more arguments", None, ""),
 "C16_2": ("C16", "call/mod.rs with_disabled_brkpts: early return on a rejected call skips re-enabling", "a rejected call, then continue", None, ""),
 "C16_3": ("C16", "call/fmt.rs ALIGN_UNKNOWN constant", "vard on a value containing a bool/float (rustc >= 1.87 debuggee)", None, ""),
 "C19_1": ("C19", "die_ref.rs valid_at: closed range check", "a stop exactly at the first address after a lexical block", None, ""),
 "C19_2": ("C19", "register.rs DwarfRegisterMap::from: rsi/rdi swapped", "a value located in rsi or rdi (optimized code)", None, ""),
 "C19_3": ("C19", "eval.rs into_raw_bytes: register piece read with the whole value's size", "a composite location with register pieces narrower than 8 bytes", None, ""),
 "C02_1": ("C02", "step.rs step_over_any: temporary breakpoints removed after the early returns", "a `next` interrupted by a signal or watchpoint", None, ""),
 "C02_2": ("C02", "breakpoint.rs new_watchpoint_companion: number always freshly allocated", "two watchpoints on locals of the same function", None, ""),
 "C02_3": ("C02", "mod.rs stepi: ecx_restore_frame() dropped", "stop at a breakpoint, select frame 1, stepi", None, ""),
 "C01_1": ("C01", "breakpoint.rs Breakpoint::enable/disable: the whole 8-byte word is cached at enable and written back at disable", "two active breakpoints closer than 8 bytes (the neighbour's INT3 is wiped by every step-over)", None, ""),
 "C01_2": ("C01", "step.rs step_over_breakpoint: early return before brkpt.enable() when the single step reports a signal/watchpoint", "a signal pending exactly when continuing from a breakpoint in a loop", None, ""),
 "C01_3": ("C01", "tracer.rs apply_new_status TRAP_BRKPT: StopReason::Breakpoint(brkpt.pid, pc) instead of (pid, pc)", "a breakpoint reached by a non-main thread", None, ""),
 "C07_1": ("C07", "value/mod.rs Value::index array arm: finds the item whose stored index equals i instead of position i", "index after a slice with non-zero left bound (arr[2..5][0])", None, ""),
 "C07_2": ("C07", "value/mod.rs match_literal set arm: position+swap_remove replaced by any (matched literal not consumed)", "set literal with nested wildcards covering two items", None, ""),
 "C07_3": ("C07", "parser/expression.rs literal(): int and float share a signed i64 sub-parser (-0 loses its sign)", "a float literal in (-1, 0), e.g. -0.5", None, ""),
 "C10_1": ("C10", "tracer.rs Tracer::resume: pop_front() instead of front().copied() when checking for the next pending signal", "two threads in signal-delivery-stop at once", None, ""),
 "C10_2": ("C10", "tracee.rs cont_stopped_ex: injected signal taken from Tracee::status instead of the queued request", "SIGUSR1 stop, step, SIGINT interrupts the step, continue", None, ""),
 "C10_3": ("C10", "tracer.rs single_step: TRANSPARENT_SIGNALS checked where QUIET_SIGNALS was (rebased onto fix c8e7fb7)", "SIGINT arriving during stepi", None, ""),
 "C11_1": ("C11", "mod.rs Drop for Debugger (external): thread list taken from the attach-time list instead of the tracer's live table", "attach, a thread spawned while being debugged, quit", None, ""),
 "C11_2": ("C11", "breakpoint.rs disable_all_breakpoints: inherited user breakpoints keyed by Address::Relocated instead of the global address", "attach to an ASLR'd process, set a breakpoint, restart", None, ""),
 "C11_3": ("C11", "mod.rs restart_debugee: kill-old-process condition !is_exited() became is_in_progress()", "restart before the first start (process created, not started)", None, ""),
 "C12_1": ("C12", "session/mod.rs drain_events: queue emptied after the terminated check instead of before", "launch, termination, a late terminate-like request, launch again in one session", None, ""),
 "C12_2": ("C12", "control.rs handle_next: Continued enqueued before step_over() (error arm leaves it queued)", "a failing `next` (before configurationDone / no debuggee)", None, ""),
 "C12_3": ("C12", "init.rs handle_configuration_done: send_success hoisted above start_debugee_with_reason()", "configurationDone sent a second time", None, ""),
 "C13_1": ("C13", "session/breakpoint.rs handle_set_breakpoints: previous set looked up with the client path instead of the target path", "a sourceMap in the launch arguments, then a second setBreakpoints for the file", None, ""),
 "C13_2": ("C13", "breakpoint.rs remove_by_addr: dispatch on the address kind (Relocated never looks at the not-installed table)", "instruction breakpoint set and replaced before configurationDone", None, ""),
 "C13_3": ("C13", "control.rs with_breakpoint_record_mut: addresses.contains(&addr) became first() == Some(&addr)", "function breakpoint with options on a generic function with several instantiations", None, ""),
 "C17_1": ("C17", "utils.rs PathSearchIndex::get: ends_with replaced by reversed zip().all() (stops at the shorter side)", "a template with more leading components than a stored path", None, ""),
 "C17_2": ("C17", "unit/parser.rs: function_name_index prefers DW_AT_name over the demangled linkage name", "a generic function or closure in the debuggee", None, ""),
 "C17_3": ("C17", "symbol.rs SymbolTab::find: result sorted and deduplicated by address", "a regex matching two symbols at the same address (aliases, imported symbols)", None, ""),
 "C18_1": ("C18", "registry.rs update_mappings: maps matched by file name only instead of the canonical path", "two different objects with the same basename mapped at once", None, ""),
 "C18_2": ("C18", "breakpoint.rs refresh_deferred: a request failing with a non-NoSuitablePlace error is dropped", "a deferred breakpoint by address whose library is not mapped yet", None, ""),
 "C18_3": ("C18", "breakpoint.rs try_into_brkpt: the two None arms merged (file-less template always resolved against the main executable)", "address breakpoint set before start pointing into a startup-linked shared library", None, ""),
 "C03_1": ("C03", "tracer.rs apply_new_status: a temporary step breakpoint stops any thread (ownership test `pid == brkpt.pid` dropped)", "a second thread passing the planted address during `next`/`finish`", None, ""),
 "C03_2": ("C03", "die_ref.rs inline_ranges: for_each_children instead of for_each_children_recursive", "an #[inline(always)] callee called inside a nested lexical block, then `next`", None, ""),
 "C03_3": ("C03", "mod.rs stepi: ecx_restore_frame() dropped", "stop at a breakpoint, select frame 1, stepi", None, ""),
 "C09_1": ("C09", "tracer.rs apply_new_status CLONE arm: a new thread that is already registered (and running again) is marked stopped", "a non-main thread spawning while the tracer handles another event", None, ""),
 "C09_2": ("C09", "tracer.rs Tracer::resume: the re-stop before reporting the next queued signal is skipped for quiet signals", "two signals queued at once, the second one quiet", None, ""),
 "C09_3": ("C09", "tracer.rs single_step: the `pc == initial_pc` re-step removed", "a breakpoint exactly on a rep-prefixed instruction with a count above 1", None, ""),
 # ---- second independent round (fresh agents, one more per property for 8 properties) ----
 "C01_4": ("C01", "breakpoint.rs enable_all_breakpoints: an installed template is re-inserted into the not-installed table (statement outside the `if let Err`)", "breakpoint created before start, removed by number while running, one more arrival", None, ""),
 "C01_5": ("C01", "step.rs step_out_frame: continue + remove_breakpoint(ret_addr) executed also when the user already has a breakpoint at the return address", "user breakpoint exactly at the return address, step out, later arrival", None, ""),
 "C01_6": ("C01", "mod.rs continue_execution, Breakpoint arm: ecx_switch_thread(pid) became ecx_update_location()", "a breakpoint hit by a thread that is not in focus", None, ""),
 "C05_4": ("C05", "unwind.rs DwarfUnwinder::unwind: cycle guard keyed by the return address only instead of (return address, CFA)", "recursion: two live activations reached through the same call instruction", None, ""),
 "C05_5": ("C05", "debugee/mod.rs frame_info: return address taken from Debugee::return_addr(pid) (frame 0) instead of backtrace[k+1]", "select frame k > 0, then `frame info`", None, ""),
 "C05_6": ("C05", "unwind.rs restore_registers_at_frame: mapping offset looked up once from frame 0 instead of per frame", "stop inside libc, select a frame of the program, read a variable", None, ""),
 "C10_4": ("C10", "tracer.rs Tracer::resume: `.skip(1)` on the queue of threads to keep stopped (head already popped)", "two threads in signal-delivery-stop at once", None, ""),
 "C10_5": ("C10", "tracer.rs single_step quiet branch: pop_front() instead of pop_back()", "non-quiet signal stop, stepi, quiet signal during the step", None, ""),
 "C10_6": ("C10", "tracer.rs apply_new_status: push_back of the signal moved after group_stop_interrupt", "two threads in signal-delivery-stop at once", None, ""),
 "C11_4": ("C11", "watchpoint.rs WatchpointRegistry::remove: last_seen_state no longer updated", "watchpoint removed, then the debuggee spawns a thread", None, ""),
 "C11_5": ("C11", "breakpoint.rs disable_all_breakpoints: `continue` after a failed disable (breakpoint not kept for the next run)", "restart from the Exited state", None, ""),
 "C11_6": ("C11", "process.rs from_external: args = cmd() including argv[0]", "attach, restart, program looks at its arguments", None, ""),
 "C12_4": ("C12", "session/mod.rs send_response_raw: answered_request = the response's own seq", "a handler failing after its response once client and server counters diverged", None, ""),
 "C12_5": ("C12", "control.rs emit_stop_reason: begin_stop_epoch + thread refresh hoisted above the exit test", "a real stop, then a natural process exit", None, ""),
 "C12_6": ("C12", "init.rs handle_launch: `self.terminated = false` dropped", "launch, debuggee ends, launch again in the same session", None, ""),
 "C13_4": ("C13", "session/breakpoint.rs handle_set_function_breakpoints: record keeps only the first installed location", "function breakpoint on a generic function with several instantiations", None, ""),
 "C13_5": ("C13", "control.rs record_breakpoint_hit: hit info built before the counter is incremented", "a breakpoint with a hitCondition", None, ""),
 "C13_6": ("C13", "control.rs literal_truthy: `!= 0` became `> 0`", "a condition evaluating to a negative number", None, ""),
 "C15_4": ("C15", "mod.rs set_register_value: registers of proc_pid() instead of pid_on_focus()", "register write with a non-main thread in focus", None, ""),
 "C15_5": ("C15", "serialize.rs serialize_scalar_value UTF arm: UTF-8 encoding instead of the code point", "composite setVariable with a non-ASCII char field", None, ""),
 "C15_6": ("C15", "data.rs handle_set_variable: `item.child = None` dropped after a composite write", "list a struct, composite setVariable, list it again", None, ""),
 "C18_4": ("C18", "registry.rs reload_plan: to_del computed from mappings.keys() instead of files.keys()", "dlopen in run N, restart, sharedlib info", None, ""),
 "C18_5": ("C18", "breakpoint.rs enable_all_breakpoints: the drained (empty) local map is stored back after the loop", "breakpoint in a dlopen'ed library, restart", None, ""),
 "C18_6": ("C18", "eval.rs relocation_addr: load offset of the main executable instead of the focused frame's object", "stop in a shared library, read a `static` of that library", None, ""),
}

# how each second-round seed fared on the FIRST run against the checks as they were when the seed arrived
FIRST = {
 "C01_1": "caught by the existing units", "C10_1": "caught by the existing unit",
 "C01_2": "missed at first; caught after C01.step_over_brkpt was added", "C01_3": "missed at first; caught after C01.report was added",
 "C03_1": "missed at first; caught after C03.tmp_owner was added", "C03_2": "not detected: the DIE-tree walk (gimli iterators) is outside both tools", "C03_3": "caught only under C02 at first; caught under C03 after C03.step_entry was added",
 "C07_1": "UNDECIDED: the seed rewrites the closure with iterator adapters that Verus cannot read and a Kani harness on the real Value type did not terminate (17 min); C07.index catches arithmetic changes of the arm", "C07_2": "missed at first; caught after C07.set_match was added", "C07_3": "not detected: chumsky float parser (format!/parse::<f64>) is outside both tools",
 "C09_1": "missed at first; caught after stop marks were added to C09.thread_table", "C09_2": "missed at first; caught after C09.resume_restop was added", "C09_3": "missed at first; caught after the pc-moved assertion was added to the single_step units (C09.single_step_moved)",
 "C10_2": "missed at first; caught after C10.cont_stopped was added", "C10_3": "missed at first; caught after the transparent-table outline was added to C10.single_step",
 "C11_1": "UNDECIDED at first (unknown expression); caught after the attach-time thread list was modelled in C11.drop", "C11_2": "missed at first; caught after C11.disable_all was added", "C11_3": "missed at first; caught after C11.restart was added",
 "C12_1": "UNDECIDED at first (lost proof anchor); caught after the anchor was removed and mem::take was outlined", "C12_2": "missed at first; caught after handle_next was put under contract (C12.handlers)", "C12_3": "missed at first; caught after handle_configuration_done was put under contract (C12.handlers)",
 "C13_1": "missed at first; caught after C13.set_breakpoints was added", "C13_2": "missed at first; caught after C13.registry was added", "C13_3": "missed at first; caught after C13.record_lookup was added",
 "C17_1": "UNDECIDED by the Verus unit (iterator adapters); caught after the bounded Kani validation C17.filter_pred was added", "C17_2": "not detected: how function paths are built (parser.rs) is listed as not covered", "C17_3": "not detected: `symbol <regex>` (regex + HashMap iteration) is listed as not covered",
 "C18_1": "UNDECIDED: the seed changes the outlined /proc/maps filter expression (std::path), which Verus cannot read", "C18_2": "missed at first; caught after C18.deferred was added", "C18_3": "missed at first; caught after C18.try_into_brkpt was added",
 "C01_4": "missed at first (the loop body unit said nothing about the not-installed table for an installed template); caught after E_installed was strengthened (C01.enable_all)", "C01_5": "missed at first; caught after C01.step_temps was added", "C01_6": "missed at first; caught after focus tracking was added to C01.continue",
 "C05_4": "missed at first; caught after the visited-set key was made generic in C05.unwind", "C05_5": "missed at first; caught after C05.frame_info was added", "C05_6": "missed at first; caught after restore_registers_at_frame was put under contract (C05.unwind)",
 "C10_4": "missed at first; caught after the keep-stopped assertion was added to C10.resume", "C10_5": "caught by the existing unit (C10.single_step ledger)", "C10_6": "caught by the existing unit",
 "C11_4": "missed at first; caught after C11.wp_remove was added", "C11_5": "caught by the existing unit (C11.disable_all)", "C11_6": "missed at first; caught after C11.attach_template was added",
 "C12_4": "caught by the existing unit (C12.wire)", "C12_5": "missed at first; caught after C12.stop_tail was added", "C12_6": "missed at first; caught after C12.launch was added",
 "C13_4": "missed at first (the loop body of the handler was outlined whole); caught after C13.record_addresses was added -- the same contract on the source-line handler failed on the unchanged tree: genuine defect, fixed in bc7cedb", "C13_5": "caught by the existing unit (C13.hit_count)", "C13_6": "caught by the existing unit (C13.condition)",
 "C15_4": "missed at first; caught after C15.reg_focus was added", "C15_5": "missed at first; caught after the Kani unit C15.char_bytes was added", "C15_6": "missed at first; caught after C15.set_variable_cache was added",
 "C18_4": "missed at first; caught after C18.reload_plan was added", "C18_5": "missed at first (only the loop body was under contract); caught after C18.enable_all_frame was added", "C18_6": "missed at first; caught after relocation_addr was put under contract (C18.try_into_brkpt)",
 "C16_3": "missed at first; caught after the Kani unit C16.formatter_1_87 was added", "C19_3": "missed at first; caught after C19.pieces was added", "C05_2": "missed at first; caught after C05.cfi_lookup was added",
}
def main():
    res = {}
    rp = os.path.join(V, "seeded", "results.json")
    if os.path.exists(rp):
        res = json.load(open(rp))
    rows = []
    for sid, (prop, what, needs, caught, note) in sorted(S.items()):
        d = os.path.join(V, "seeded", sid)
        if not os.path.isdir(d):
            continue
        r = res.get(sid, {})
        caught = r.get("caught_by", caught)
        note = FIRST.get(sid) or note or r.get("note", "")
        conf_txt = open(os.path.join(d, "confirm.log")).read() if os.path.exists(os.path.join(d, "confirm.log")) else ""
        demo_ok = ("-- demo WITH the change" in conf_txt and "test result: FAILED" in conf_txt and "test result: ok" in conf_txt) or "-- demo WITH patch" in conf_txt
        suite_ok = "STABLE SUITE OK" in conf_txt or "SUITE OK" in conf_txt
        conf = ("own run (confirm.log): the demonstration fails with the change and passes without it" if demo_ok else "agent's logs in NOTES.md only") + \
               ("; own run of the baseline suite with the change: all stable tests pass (flaky DAP tests re-run single-threaded)" if suite_ok else "; baseline suite with the change: run by the seeding agent (NOTES.md), DAP tests flaky under load were re-run")
        meta = {"seed": sid, "property": prop, "change": what, "needs_to_manifest": needs,
                "files": ["patch.diff", "demo.diff", "NOTES.md"] + (["confirm.log"] if conf_txt else []),
                "detected_by": caught or "NOT DETECTED", "history": note,
                "what_was_run": "bin/seedsweep %s (seeded change applied to a snapshot of /repo: bin/mrun %s seeded/%s/patch.diff = the quick check of %s on the patched tree); equivalent to bin/seedrun %s %s (git -C /repo apply patch.diff; bin/vcheck %s quick; git -C /repo checkout -- .)" % (sid, prop, sid, prop, sid, prop, prop),
                "own_confirmation": conf}
        json.dump(meta, open(os.path.join(d, "meta.json"), "w"), indent=1)
        rows.append("| %s | %s | %s | %s | %s |" % (sid, what, needs, caught or "**not detected**", note))
    print("| seed | change | needs | failing obligation | history |\n|---|---|---|---|---|")
    print("\n".join(rows))
if __name__ == "__main__":
    main()
