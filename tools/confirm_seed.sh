#!/bin/bash
# confirm_seed.sh <seed id e.g. C04_1> <scratch worktree> <demo cargo-test args...>
# Confirms by our own run: (a) patch compiles and the 98 stable baseline tests still pass with it,
# (b) the demonstration FAILS with the patch and PASSES without it.  Writes seeded/<id>/confirm.log
id=$1; wt=$2; shift 2
d=/verif/seeded/$id
log=$d/confirm.log
cd "$wt" || exit 2
clean() { git reset -q; git checkout -- .; git clean -fdq src tests >/dev/null 2>&1; }
clean
{
echo "== confirm $id in $wt at $(git rev-parse --short HEAD)"
git apply "$d/patch.diff" || { echo "PATCH DOES NOT APPLY"; exit 2; }
echo "-- suite with patch (baseline command)"
timeout 1500 cargo nextest run --workspace --no-fail-fast --tool-config-file pb:/w/lib/nextest.toml --profile pb --test-threads 8 --offline > /tmp/confirm_$id.suite 2>&1
python3 - "$id" <<'PY'
import json,re,sys
b=json.load(open('/root/.vp/BASELINE.json'))
log=open('/tmp/confirm_%s.suite'%sys.argv[1]).read()
failed=set(m.group(1)+"::"+m.group(2) for m in re.finditer(r"(?:FAIL|TIMEOUT|SIGABRT|SIGSEGV)\s+\[[^\]]*\]\s+\(\s*\d+/\d+\)\s+(\S+)\s+(\S+)",log))
m=re.search(r"Summary.*",log)
print("   ", m.group(0) if m else "NO SUMMARY (build failure?)")
bad=sorted(set(b['stable_pass'])&failed)
print("    stable_pass tests failing with the patch:", bad)
print("    SUITE", "OK" if (m and not bad) else "NOT OK")
PY
echo "-- demo WITH patch (must fail)"
git apply "$d/demo.diff" || echo "DEMO DOES NOT APPLY"
timeout 1500 cargo test --offline "$@" 2>&1 | grep -E "^test |test result|panicked at|mismatch|error(\[|:)" | head -20
clean
echo "-- demo WITHOUT patch (must pass)"
git apply "$d/demo.diff"
timeout 1500 cargo test --offline "$@" 2>&1 | grep -E "^test |test result|error(\[|:)" | head -20
clean
} > "$log" 2>&1
tail -30 "$log"
