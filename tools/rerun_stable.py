#!/usr/bin/env python3
"""rerun_stable.py <worktree> <initial nextest log>: re-run the stable_pass tests that failed, one thread, up to 5 rounds"""
import json,re,subprocess,sys
wt, log0 = sys.argv[1], sys.argv[2]
b=set(json.load(open('/root/.vp/BASELINE.json'))['stable_pass'])
def failed(text):
    return set(m.group(1)+"::"+m.group(2) for m in re.finditer(r"(?:FAIL|TIMEOUT|SIGABRT|SIGSEGV)\s+\[[^\]]*\]\s+\(\s*\d+/\d+\)\s+(\S+)\s+(\S+)",text))
bad = failed(open(log0).read()) & b
print("round 0:", len(bad))
for rnd in range(1,6):
    if not bad: break
    names = sorted(set(x.split("::")[-1] for x in bad))
    flt = " | ".join("test(=%s)" % x.split("::",1)[1] if False else "test(/%s$/)" % n for n,x in zip(names,names))
    p = subprocess.run(["cargo","nextest","run","--workspace","--no-fail-fast","--tool-config-file","pb:/w/lib/nextest.toml","--profile","pb","--test-threads","1","--offline","-E",flt],cwd=wt,capture_output=True,text=True)
    out=p.stdout+p.stderr
    bad = failed(out) & bad
    print("round %d:"%rnd, len(bad), sorted(bad))
print("STABLE SUITE", "OK" if not bad else "NOT OK")
