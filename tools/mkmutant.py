#!/usr/bin/env python3
"""mkmutant.py <name> <repo-relative file> <old text> <new text> [units...]
writes selftest/mutants/<name>.diff (unified diff against /repo's current file, -p1)."""
import sys, os, difflib
V = os.path.dirname(os.path.dirname(os.path.abspath(__file__)))
name, f, old, new = sys.argv[1:5]
units = sys.argv[5:]
src = open(os.path.join("/repo", f)).read()
assert src.count(old) == 1, "old text must occur exactly once (found %d)" % src.count(old)
mut = src.replace(old, new)
d = difflib.unified_diff(src.splitlines(True), mut.splitlines(True), "a/" + f, "b/" + f)
with open(os.path.join(V, "selftest", "mutants", name + ".diff"), "w") as fh:
    fh.write("# mutant: %s\n# units: %s\n" % (name, " ".join(units)))
    fh.writelines(d)
print("wrote", name)
