#!/bin/bash
# confirm_light.sh <worktree> <seed id>... : our own confirmation that each seeded change's demonstration
# FAILS with the change and PASSES without it (builds in the scratch worktree; /repo is not touched).
# Appends to seeded/<id>/confirm.log.  The suite-with-patch run is done separately (confirm_suite.sh).
wt=$1; shift
cd "$wt" || exit 2
clean() { git reset -q; git checkout -q -- .; git clean -fdq src tests >/dev/null 2>&1; }
for id in "$@"; do
  d=/verif/seeded/$id
  log=$d/confirm.log
  clean
  git apply --check "$d/demo.diff" 2>/dev/null || { echo "== $id: demo.diff does not apply at $(git rev-parse --short HEAD)" | tee -a "$log"; continue; }
  # which test target?
  tdir=$(grep -E '^\+\+\+ b/tests/[^/]+/main.rs' "$d/demo.diff" | head -1 | sed -E 's|^\+\+\+ b/tests/([^/]+)/main.rs|\1|')
  if [ -f "$d/demo_args" ]; then
    args=$(cat "$d/demo_args")
  elif [ -n "$tdir" ]; then
    args="--test $tdir"
  else
    tname=$(grep -E '^\+\s*(pub )?fn [a-z0-9_]+\(\)' "$d/demo.diff" | head -1 | sed -E 's/^\+\s*(pub )?fn ([a-z0-9_]+)\(\).*/\2/')
    if grep -qE '^\+\+\+ b/tests/' "$d/demo.diff"; then
      tfile=$(grep -E '^\+\+\+ b/tests/' "$d/demo.diff" | head -1 | sed -E 's|^\+\+\+ b/tests/([^/]+)/.*|\1|')
      args="--test $tfile $tname"
    else
      args="--lib $tname"
    fi
  fi
  {
  echo "== light confirmation of $id at $(git rev-parse --short HEAD) on $(date -u +%FT%TZ): cargo test --offline $args"
  git apply "$d/patch.diff" || { echo "PATCH DOES NOT APPLY"; clean; continue; }
  git apply "$d/demo.diff"
  echo "-- demo WITH the change (must fail)"
  timeout 1500 cargo test --offline $args 2>&1 | grep -E "^test |test result|panicked at|error(\[|:)" | head -12
  clean
  git apply "$d/demo.diff"
  echo "-- demo WITHOUT the change (must pass)"
  timeout 1500 cargo test --offline $args 2>&1 | grep -E "^test |test result|error(\[|:)" | head -12
  clean
  } >> "$log" 2>&1
  w=$(grep -A8 -- "-- demo WITH the change" "$log" | tail -9 | grep -c "test result: FAILED")
  wo=$(grep -A8 -- "-- demo WITHOUT the change" "$log" | tail -9 | grep -c "test result: ok")
  echo "$id with:FAILED=$w without:ok=$wo"
done
