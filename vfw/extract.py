"""Verus back end, part 1: mechanical extraction of real functions into one Verus file per unit.

A unit is a template  contracts/verus/<unit>.rs  : ordinary Verus text (prelude, shim types, spec
functions, lemmas, `external_body` helpers) plus directive comments.  On every run the template is
expanded against the CURRENT snapshot of /repo:

  //@ unit: <id>            //@ props: C04 C08        //@ source: <file relative to repo>
  //@ fn: <display names of the real functions under contract>
  //@ shim: <file> :: <struct item path> :: field: Type, field: Type      (checked against the real struct)
  //@ extract: <item path>                      starts an extraction block, ends with  //@ end
  //@   file: <other source file>               (optional, default = unit source)
  //@   fragment: `<first stmt text>` .. `<last stmt text>`   (optional: only this statement range)
  //@   sig: <full replacement header>          (optional; listed in evidence as signature substitution)
  //@   ret: <name>                             name the return value: `-> T` becomes `-> (name: T)`
  //@   requires <ID>: <expr>                   named clauses (one obligation each)
  //@   ensures <ID>: <expr>
  //@   loop <k> invariant <ID>: <expr>         k = ordinal of the loop in the function, source order
  //@   loop <k> decreases: <expr>
  //@   loop <k> ensures <ID>: <expr>
  //@   outline <ID>: `<source text>` => `<replacement>`     whitespace-insensitive, must match >= 1 time
  //@   rewrite <ID>: `<source text>` => `<replacement>`     same mechanics, but NOT an assumed contract:
  //@                                            a syntactic substitution listed under extraction_drops
  //@   proof after `<stmt text>`: <verus proof text>         inserts `proof { .. }` after the statement
  //@   proof before `<stmt text>`: <verus proof text>
  //@   proof begin: <verus proof text>                        opens the function body (no anchor)
  //@   noret                                   do not rename the return type
  //@ end
  //@ verbatim: <ID>                            inside an external_body helper: replaced by the source text
  //@                                            matched by outline <ID> (character for character)
  //@ include: <file under contracts/verus>

Automatic, rule-based changes to extracted text (all reported in evidence.extraction_drops):
  * statements that are log macros (debug!/info!/warn!/error!/trace!) or debug_assert!* are removed;
  * doc comments / attributes in front of the fn are dropped, `pub(..)` becomes `pub`;
  * let-chains are desugared:  `if let P = E && C {A} [else {B}]` -> `if let P = E { if C {A} else {B} } else {B}`
                               `while let P = E && C {B}`        -> `loop { if let P = E { if C { B continue; } } break; }`
Nothing else is touched; anything Verus then rejects is an *unsupported construct* (exit 2).
"""
import os
import re

from . import rsrc
from .rsrc import LostAnchor
from .tree import VERIF

VDIR = os.path.join(VERIF, "contracts", "verus")

LOG_MACROS = ("debug", "info", "warn", "error", "trace", "debug_assert", "debug_assert_eq", "debug_assert_ne")


class SpecError(Exception):
    pass


def _tok_regex(text):
    """whitespace-insensitive regex for a piece of Rust source text; `$name` is a hole that matches
    any (bracket-balanced, checked by the caller) text and can be used in the replacement"""
    toks = re.findall(r"\$[A-Za-z_]\w*|[A-Za-z_][A-Za-z0-9_]*|\d[\dA-Za-z_]*|'[A-Za-z_]\w*|\S", text)
    out = []
    for i, t in enumerate(toks):
        if t.startswith("$"):
            out.append(r"(?P<%s>.+?)" % t[1:])
        else:
            out.append(re.escape(t))
        if i + 1 < len(toks):
            a, b = t, toks[i + 1]
            if a.startswith("$") or b.startswith("$"):
                out.append(r"\s*")
            # identifiers/numbers that were separated must stay separated
            elif re.match(r"[\w']", a[-1]) and re.match(r"\w", b[0]):
                out.append(r"\s+")
            else:
                out.append(r"\s*")
    return "".join(out)


def _balanced(t):
    m = rsrc.mask(t)
    d = 0
    for ch in m:
        if ch in "([{":
            d += 1
        elif ch in ")]}":
            d -= 1
            if d < 0:
                return False
    return d == 0


def _bt_pair(s):
    """parse  `a` => `b`  """
    m = re.match(r"\s*`(.*?)`\s*=>\s*`(.*)`\s*$", s, re.S)
    if not m:
        raise SpecError("expected `text` => `text`: " + s)
    return m.group(1), m.group(2)


class Clause:
    def __init__(self, kind, cid, expr, loop=None):
        self.kind, self.id, self.expr, self.loop = kind, cid, expr, loop


class Extraction:
    def __init__(self, path):
        self.path = path
        self.file = None
        self.fragment = None
        self.sig = None
        self.ret = None
        self.noret = False
        self.clauses = []
        self.outlines = []    # (id, src, repl, kind)
        self.proofs = []      # (where, stmt text, proof text)
        self.matched = {}     # id -> matched source text
        self.tail = None      # fragment only: expression appended as the return value
        self.attrs = []
        self.isolation = False  # True: default Verus loop isolation (needed for invariant_except_break / loop ensures)
        self.splice = None    # fragment only: do not emit a fn; paste the text at /*@@SPLICE:<id>*/


class Generated:
    def __init__(self):
        self.text = ""
        self.line_clause = {}     # generated line number -> obligation id
        self.line_origin = {}     # generated line number -> (fn display, source file, source line)
        self.functions = []       # display names of extracted functions
        self.fn_lines = {}        # display name -> (first line, last line) in the generated file
        self.drops = []           # human-readable list of what extraction dropped/replaced
        self.outlines = []        # (id, source text) assumed contracts
        self.clauses = []         # [(obligation id, kind, expr)]
        self.shims = []
        self.canary_fns = []      # display names of functions that have a `requires`


def _strip_log_stmts(body, drops, fn_disp):
    masked = rsrc.mask(body)
    out, pos = [], 0
    rx = re.compile(r"(?<![\w:!])(?:log::)?(%s)!\s*\(" % "|".join(LOG_MACROS))
    for m in rx.finditer(masked):
        if m.start() < pos:
            continue
        o = m.end() - 1
        c = rsrc.match_close(masked, o)
        k = c + 1
        while k < len(masked) and masked[k] in " \t":
            k += 1
        # only statement-position macros: preceded by `{`, `;`, `}` or start; followed by `;` or `}`
        j = m.start() - 1
        while j >= 0 and masked[j] in " \t\n":
            j -= 1
        prev_ok = j < 0 or masked[j] in "{;}"
        if not prev_ok:
            continue
        end = k + 1 if k < len(masked) and masked[k] == ";" else c + 1
        out.append(body[pos:m.start()])
        drops.append("%s: removed statement `%s`" % (fn_disp, re.sub(r"\s+", " ", body[m.start():end])[:120]))
        pos = end
    out.append(body[pos:])
    return "".join(out)


def _split_chain(masked_cond):
    """split a condition on top-level `&&`; returns list of (start,end)"""
    parts, depth, start, k = [], 0, 0, 0
    n = len(masked_cond)
    while k < n:
        ch = masked_cond[k]
        if ch in "([{":
            depth += 1
        elif ch in ")]}":
            depth -= 1
        elif ch == "|" and depth == 0 and masked_cond[k:k + 2] == "||":
            return None  # `||` at top level: not a pure chain
        elif ch == "&" and depth == 0 and masked_cond[k:k + 2] == "&&":
            parts.append((start, k))
            start = k + 2
            k += 1
        k += 1
    parts.append((start, n))
    return parts


def _block_after(masked, k):
    """first `{` at paren depth 0 at/after k -> (open, close)"""
    pd = 0
    while k < len(masked):
        ch = masked[k]
        if ch in "([":
            pd += 1
        elif ch in ")]":
            pd -= 1
        elif ch == "{" and pd == 0:
            return k, rsrc.match_close(masked, k)
        k += 1
    raise SpecError("no block found")


def desugar_let_chains(body, drops, fn_disp):
    """apply the two let-chain rules until none is left (innermost-last order is irrelevant: the
    rewrite is purely syntactic and idempotent on its own output)"""
    guard = 0
    while True:
        guard += 1
        if guard > 50:
            raise SpecError("let-chain desugaring does not terminate")
        masked = rsrc.mask(body)
        found = None
        for m in re.finditer(r"\b(if|while)\b", masked):
            kw = m.group(1)
            try:
                o, c = _block_after(masked, m.end())
            except SpecError:
                continue   # an `if` guard without a block (match-arm guard inside matches!(..))
            cond_m = masked[m.end():o]
            if not re.search(r"\blet\b", cond_m):
                continue
            parts = _split_chain(cond_m)
            if parts is None or len(parts) < 2:
                continue
            found = (kw, m.start(), m.end(), o, c, parts)
            break
        if not found:
            return body
        kw, s, ce, o, c, parts = found
        cond = body[ce:o]
        ops = [cond[a:b].strip() for a, b in parts]
        blk = body[o + 1:c]
        if kw == "if":
            # else branch?
            k = c + 1
            mm = re.match(r"\s*else\b", masked[k:])
            else_txt = None
            end = c + 1
            if mm:
                k2 = k + mm.end()
                if re.match(r"\s*if\b", masked[k2:]):
                    raise SpecError("let-chain with `else if` is not covered by the desugaring rule")
                eo, ec = _block_after(masked, k2)
                else_txt = body[eo + 1:ec]
                end = ec + 1
            inner = "{" + blk + "}"
            for op in reversed(ops[1:]):
                inner = "{ if %s %s%s }" % (op, inner, (" else {" + else_txt + "}") if else_txt is not None else "")
            new = "if %s %s%s" % (ops[0], inner, (" else {" + else_txt + "}") if else_txt is not None else "")
            drops.append("%s: let-chain `if %s` desugared to nested if/if-let (rule 1)" % (fn_disp, re.sub(r"\s+", " ", cond.strip())[:100]))
            body = body[:s] + new + body[end:]
        else:
            inner = "{" + blk + " continue; }"
            for op in reversed(ops):
                inner = "{ if %s %s }" % (op, inner)
            new = "loop %s" % ("{ if %s { %s } break; }" % (ops[0], _nest(ops[1:], blk)))
            drops.append("%s: let-chain `while %s` desugared to loop/if-let/continue/break (rule 2)" % (fn_disp, re.sub(r"\s+", " ", cond.strip())[:100]))
            body = body[:s] + new + body[c + 1:]


def desugar_for_vec_refs(body, drops, fn_disp):
    """rule 5: `for x in &V { BODY }` (V an identifier naming a Vec/slice, no `continue` in BODY) ->
    `{ let mut for_idx_k = 0; while for_idx_k < V.len() { let x = &V[for_idx_k]; BODY for_idx_k += 1; } }`
    (std: iterating `&Vec<T>` yields `&V[0], &V[1], ..` in order); lets loop invariants talk about the position"""
    count = 0
    while True:
        masked = rsrc.mask(body)
        found = None
        for m in re.finditer(r"\bfor\s+([A-Za-z_]\w*)\s+in\s+&\s*([A-Za-z_]\w*)\s*\{", masked):
            o = m.end() - 1
            c = rsrc.match_close(masked, o)
            if re.search(r"\bcontinue\b", masked[o:c]):
                continue
            found = (m, o, c)
            break
        if not found:
            return body
        m, o, c = found
        count += 1
        var, vec = m.group(1), m.group(2)
        new = "{ let mut for_idx_%d: usize = 0; while for_idx_%d < %s.len() { let %s = &%s[for_idx_%d];%s for_idx_%d += 1; } }" % (
            count, count, vec, var, vec, count, body[o + 1:c], count)
        drops.append("%s: `for %s in &%s` desugared to an index loop (rule 5)" % (fn_disp, var, vec))
        body = body[:m.start()] + new + body[c + 1:]


def desugar_ref_patterns(body, drops, fn_disp):
    """rule 4: `let Some(&x) = E else { B };` -> `let Some(x_ref_) = E else { B }; let x = *x_ref_;`
    (Verus does not support reference patterns; `&x` against a `&T: Copy` scrutinee is exactly a deref-copy)"""
    while True:
        masked = rsrc.mask(body)
        m = re.search(r"\blet\s+Some\s*\(\s*&\s*([A-Za-z_]\w*)\s*\)\s*=", masked)
        if not m:
            return body
        var = m.group(1)
        # find `else {` .. `}` `;` that closes this let-else
        me = re.search(r"\belse\b", masked[m.end():])
        if not me:
            raise SpecError("ref pattern outside let-else is not covered by rule 4")
        o, c = _block_after(masked, m.end() + me.end())
        k = c + 1
        while k < len(masked) and masked[k] in " \t\n":
            k += 1
        if k >= len(masked) or masked[k] != ";":
            raise SpecError("ref pattern outside let-else is not covered by rule 4")
        head = body[m.start():m.end()]
        new_head = re.sub(r"&\s*" + var, var + "_ref_", head)
        body = body[:m.start()] + new_head + body[m.end():k + 1] + " let %s = *%s_ref_;" % (var, var) + body[k + 1:]
        drops.append("%s: reference pattern `Some(&%s)` desugared to a binding plus `let %s = *%s_ref_;` (rule 4)" % (fn_disp, var, var, var))


def desugar_for_ranges(body, drops, fn_disp):
    """rule 3: `for x in A..B { BODY }` (x an identifier, exclusive range, no `continue` in BODY) ->
    `{ let mut x = A; let for_end_ = B; while x < for_end_ { BODY x += 1; } }`.
    Needed because Verus' ghost iterator for Range requires A <= B, while Rust simply runs zero times."""
    count = 0
    while True:
        masked = rsrc.mask(body)
        found = None
        for m in re.finditer(r"\bfor\s+([A-Za-z_]\w*)\s+in\b", masked):
            if m.group(1) == "_":
                continue   # `for _ in A..B`: no loop variable to count with; templates rewrite it explicitly
            o, c = _block_after(masked, m.end())
            hdr = masked[m.end():o]
            # top-level `..` (not `..=`)
            depth, k, dots = 0, 0, -1
            while k < len(hdr) - 1:
                ch = hdr[k]
                if ch in "([{":
                    depth += 1
                elif ch in ")]}":
                    depth -= 1
                elif ch == "." and hdr[k + 1] == "." and depth == 0:
                    dots = k
                    break
                k += 1
            if dots < 0 or hdr[dots + 2:dots + 3] == "=":
                continue
            if re.search(r"\bcontinue\b", masked[o:c]):
                continue
            found = (m, o, c, dots)
            break
        if not found:
            return body
        m, o, c, dots = found
        var = m.group(1)
        a = body[m.end():m.end() + dots].strip()
        b = body[m.end() + dots + 2:o].strip()
        if not a or not b:
            return body
        count += 1
        new = "{ let mut %s = %s; let for_end_%d = %s; while %s < for_end_%d {%s %s += 1; } }" % (
            var, a, count, b, var, count, body[o + 1:c], var)
        drops.append("%s: `for %s in %s..%s` desugared to an equivalent while loop (rule 3)" % (fn_disp, var, a[:40], b[:40]))
        body = body[:m.start()] + new + body[c + 1:]


def desugar_loop_break_values(body, drops, fn_disp):
    """rule 7: `let X = loop { BODY };` where BODY leaves the loop with `break V;` ->
    `let X; loop { BODY' }` with every `break V;` of THIS loop (not of nested loops, not inside closures)
    replaced by `{ X = V; break; }` (Verus: "complex break expressions" unsupported; a deferred
    initialisation assigned exactly once on every exit is the same value flow)"""
    while True:
        masked = rsrc.mask(body)
        m = re.search(r"\blet\s+([A-Za-z_]\w*)\s*=\s*loop\s*\{", masked)
        if not m:
            return body
        var = m.group(1)
        o = m.end() - 1
        c = rsrc.match_close(masked, o)
        inner, inner_m = body[o + 1:c], masked[o + 1:c]
        # spans of nested loops / closures: breaks in there belong to them
        skip = [(a, b) for (_kw, _s, a, b) in rsrc.loops(inner_m)]
        for cm in re.finditer(r"\|[^|]*\|\s*\{", inner_m):
            oo = cm.end() - 1
            skip.append((oo, rsrc.match_close(inner_m, oo)))
        out, pos, n = [], 0, 0
        for bm in re.finditer(r"\bbreak\b", inner_m):
            if any(a < bm.start() < b for a, b in skip):
                continue
            k = bm.end()
            # value expression up to the `;` at depth 0
            depth, e = 0, k
            while e < len(inner_m):
                ch = inner_m[e]
                if ch in "([{":
                    depth += 1
                elif ch in ")]}":
                    if depth == 0:
                        break
                    depth -= 1
                elif ch in ";," and depth == 0:
                    break
                e += 1
            val = inner[k:e].strip()
            if not val:
                raise SpecError("rule 7: plain `break` inside a value loop")
            has_semi = e < len(inner_m) and inner_m[e] == ";"
            out.append(inner[pos:bm.start()])
            out.append("{ %s_loopval_ = %s; break; }" % (var, val))
            pos = e + 1 if has_semi else e
            n += 1
        out.append(inner[pos:])
        if n == 0:
            raise SpecError("rule 7: value loop without break")
        # trailing `;` after the loop's closing brace stays
        # a fresh name for the deferred slot: BODY may declare a local with the same name as X
        body = body[:m.start()] + "let %s_loopval_; loop {" % var + "".join(out) + "} let %s = %s_loopval_" % (var, var) + body[c + 1:]
        drops.append("%s: `let %s = loop {..break V;..}` desugared to deferred initialisation + plain break (rule 7, %d exits)" % (fn_disp, var, n))


def _nest(ops, blk):
    inner = blk + " continue;"
    for op in reversed(ops):
        inner = "if %s { %s }" % (op, inner)
    return inner


def _split_pattern(text):
    """pattern -> list of ('lit', compiled regex) / ('hole', name)"""
    parts = re.split(r"(\$[A-Za-z_]\w*)", text)
    out = []
    for p in parts:
        if not p.strip():
            continue
        if p.startswith("$"):
            out.append(("hole", p[1:]))
        else:
            out.append(("lit", re.compile(r"\s*" + _tok_regex(p.strip()) + r"\s*", re.S)))
    return out


def _match_at(parts, body, masked, pos, k, caps):
    """match parts[k:] at body[pos:]; holes capture bracket-balanced text (shortest first)"""
    if k == len(parts):
        return pos
    kind, val = parts[k]
    if kind == "lit":
        m = val.match(body, pos)
        if not m:
            return None
        return _match_at(parts, body, masked, m.end(), k + 1, caps)
    # hole: try every end position (shortest first) where the capture is balanced
    depth = 0
    end = pos
    n = len(body)
    while end <= n:
        if end > pos and depth == 0:
            caps[val] = body[pos:end]
            r = _match_at(parts, body, masked, end, k + 1, caps)
            if r is not None:
                return r
        if end == n:
            break
        ch = masked[end]
        if ch in "([{":
            depth += 1
        elif ch in ")]}":
            depth -= 1
            if depth < 0:
                return None
        elif ch == ";" and depth == 0 and not val.startswith("stmts"):
            # a hole never spans a statement boundary (holes named `$stmts..` may: they capture a block body)
            caps[val] = body[pos:end]
            return _match_at(parts, body, masked, end, k + 1, caps) if end > pos else None
        end += 1
    return None


def _find_pattern(parts, body, start=0):
    masked = rsrc.mask(body)
    if parts[0][0] != "lit":
        raise SpecError("a pattern must not start with a hole")
    first = parts[0][1]
    pos = start
    while True:
        m = first.search(body, pos)
        if not m:
            return None
        s0 = m.start() + (len(m.group(0)) - len(m.group(0).lstrip()))
        caps = {}
        e = _match_at(parts, body, masked, m.start(), 0, caps)
        if e is not None:
            # trim trailing whitespace swallowed by the last literal
            while e > s0 and body[e - 1] in " \t\n":
                e -= 1
            return s0, e, caps
        pos = m.start() + 1


def _apply_subst(body, ex, gen, fn_disp):
    for oid, src_t, repl, kind in ex.outlines:
        parts = _split_pattern(src_t)
        pos, n = 0, 0
        while True:
            f = _find_pattern(parts, body, pos)
            if not f:
                break
            s0, e, caps = f
            if n == 0:
                ex.matched[oid] = body[s0:e]
            n += 1
            r = repl
            for k, v in caps.items():
                r = r.replace("$" + k, v.strip())
            body = body[:s0] + r + body[e:]
            pos = s0 + len(r)
        if n == 0:
            # the expression is not (any more) in the source: nothing to outline; whatever the
            # function contains instead is verified as it stands (or rejected as unsupported)
            gen.drops.append("%s: %s %s: pattern `%s` does not occur in the current source (nothing replaced)" % (fn_disp, kind, oid, src_t[:80]))
            continue
        if kind == "outline":
            gen.outlines.append((oid, re.sub(r"\s+", " ", ex.matched[oid])))
            gen.drops.append("%s: outlined expression %s `%s` -> `%s` (assumed contract on the helper)" %
                             (fn_disp, oid, re.sub(r"\s+", " ", ex.matched[oid])[:100], repl))
        else:
            gen.drops.append("%s: rewrite %s `%s` -> `%s`" % (fn_disp, oid, re.sub(r"\s+", " ", ex.matched[oid])[:100], repl))
    return body


def _insert_loop_specs(body, ex, emit_clause):
    """insert invariant/decreases text between loop header and `{` by ordinal (source order)"""
    by_loop = {}
    for cl in ex.clauses:
        if cl.loop is not None:
            by_loop.setdefault(cl.loop, []).append(cl)
    if not by_loop:
        return body
    masked = rsrc.mask(body)
    lp = rsrc.loops(masked)
    for k in by_loop:
        if k >= len(lp):
            raise LostAnchor("loop %d not found (function has %d loops)" % (k, len(lp)))
    # insert from the last loop to the first to keep offsets valid
    for k in sorted(by_loop, reverse=True):
        kw, s, o, c = lp[k]
        if kw == "for":
            pass
        spec = []
        for kind in ("invariant_except_break", "invariant", "ensures", "decreases"):
            cls = [cl for cl in by_loop[k] if cl.kind == kind]
            if not cls:
                continue
            spec.append("\n        %s" % kind)
            for cl in cls:
                spec.append("\n            %s, %s" % (cl.expr, emit_clause(cl)))
        body = body[:o] + "".join(spec) + "\n    " + body[o:]
    return body


def _insert_proofs(body, ex, fn_disp):
    for where, stmt, ptxt in ex.proofs:
        if where == "begin":
            # no statement anchor: the proof text opens the function body (robust against any edit of the body)
            if re.match(r"\s*(let ghost|let tracked)\b", ptxt):
                body = "\n    %s\n    " % ptxt + body     # ghost declarations must stay in the function's scope
            else:
                body = "\n    proof { %s }\n    " % ptxt + body
            continue
        rx = re.compile(_tok_regex(stmt))
        ms = list(rx.finditer(body))
        if len(ms) != 1:
            raise LostAnchor("%s: proof anchor `%s` matched %d times" % (fn_disp, stmt[:60], len(ms)))
        m = ms[0]
        if re.match(r"\s*(let ghost|let tracked|assert)\b", ptxt):
            ins = "\n    %s\n    " % ptxt      # ghost statement(s): erased at run time
        else:
            ins = "\n    proof { %s }\n    " % ptxt
        if where == "after":
            body = body[:m.end()] + ins + body[m.end():]
        else:
            body = body[:m.start()] + ins + body[m.start():]
    return body


def _header(item, ex):
    if ex.sig:
        return ex.sig.strip()
    h = item.header.strip()
    h = re.sub(r"\bpub\s*\([^)]*\)", "pub", h)
    if ex.ret and not ex.noret:
        mh = rsrc.mask(h)
        # find `->` at paren depth 0 after the parameter list
        po = mh.find("(")
        pc = rsrc.match_close(mh, po)
        arrow = mh.find("->", pc)
        if arrow >= 0:
            # return type extends to `where` or end
            w = re.search(r"\bwhere\b", mh[arrow:])
            end = arrow + w.start() if w else len(h)
            rty = h[arrow + 2:end].strip()
            h = h[:arrow] + "-> (%s: %s) " % (ex.ret, rty) + h[end:]
    return h


def expand(template_path, tree):
    gen = Generated()
    raw = open(template_path).read()
    lines = raw.split("\n")
    out_lines = []
    meta = {"unit": None, "props": [], "source": None, "fn": ""}
    gen.meta = meta
    i = 0
    unit_src_cache = {}

    def src_of(f):
        if f not in unit_src_cache:
            p = os.path.join(tree, f)
            try:
                unit_src_cache[f] = open(p).read()
            except OSError:
                raise LostAnchor("source file missing: " + f)
        return unit_src_cache[f]

    def emit(text, origin=None):
        for ln in text.split("\n"):
            out_lines.append(ln)
            if origin:
                gen.line_origin[len(out_lines)] = origin

    outlines_seen = {}
    splices = {}

    while i < len(lines):
        ln = lines[i]
        st = ln.strip()
        if not st.startswith("//@"):
            emit(ln)
            i += 1
            continue
        d = st[3:].strip()
        if d.startswith("unit:"):
            meta["unit"] = d[5:].strip()
        elif d.startswith("props:"):
            meta["props"] = d[6:].split()
        elif d.startswith("source:"):
            meta["source"] = d[7:].strip()
        elif d.startswith("fn:"):
            meta["fn"] = d[3:].strip()
        elif d.startswith("implicit:"):
            meta["implicit_prop"] = d[9:].strip()
        elif d.startswith("note:"):
            meta.setdefault("notes", []).append(d[5:].strip())
        elif d.startswith("assume:"):
            meta.setdefault("assumes", []).append(d[7:].strip())
        elif d.startswith("notcovered:"):
            meta.setdefault("notcovered", []).append(d[11:].strip())
        elif d.startswith("include:"):
            inc = open(os.path.join(VDIR, d[8:].strip())).read()
            emit(inc)
        elif d.startswith("shim:"):
            f, p, fields = [x.strip() for x in d[5:].split("::", 2)]
            it = rsrc.find_item(src_of(f), p)
            real = rsrc.struct_fields(it) if it.kind == "struct" else {}
            for fld in [x.strip() for x in _split_top(fields) if x.strip()]:
                name, _, ty = fld.partition(":")
                name, ty = name.strip(), rsrc._norm(ty)
                if it.kind == "struct" and name.isdigit():
                    # tuple struct: compare positional type list
                    tys = _tuple_fields(it)
                    if int(name) >= len(tys) or tys[int(name)] != ty:
                        raise LostAnchor("shim %s: tuple field %s is `%s`, contract expects `%s`" % (p, name, tys[int(name)] if int(name) < len(tys) else "?", ty))
                elif real.get(name) != ty:
                    raise LostAnchor("shim %s: field `%s` is `%s` in /repo, contract expects `%s`" % (p, name, real.get(name), ty))
            gen.shims.append("%s :: %s {%s}" % (f, p, fields))
        elif d.startswith("const:"):
            f, cname = [x.strip() for x in d[6:].split("::", 1)]
            csrc = src_of(f)
            mm = re.search(r"(?m)^\s*(?:pub(?:\([^)]*\))?\s+)?const\s+%s\s*:\s*([^=;]+)=\s*([^;]+);" % re.escape(cname), rsrc.mask(csrc))
            if not mm:
                raise LostAnchor("const %s not found in %s" % (cname, f))
            ctext = csrc[mm.start(1):mm.end(2)]
            ty, _, val = ctext.partition("=")
            emit("pub const %s: %s = %s; // verbatim from %s" % (cname, ty.strip(), val.strip(), f))
            gen.drops.append("const %s taken verbatim from %s" % (cname, f))
        elif d.startswith("begin_fn:"):
            span_name = d[9:].strip()
            span_first = len(out_lines) + 1
        elif d.startswith("end_fn"):
            gen.fn_lines[span_name] = (span_first, len(out_lines))
            gen.canary_fns.append(span_name)
            gen.drops.append("%s: hand-written composition of spliced fragments (the composing control flow is an assumption, see unit header)" % span_name)
        elif d.startswith("verbatim:"):
            oid = d[9:].strip()
            emit("/*@@VERBATIM:%s*/" % oid)
        elif d.startswith("extract:"):
            ex = Extraction(d[8:].strip())
            i += 1
            while i < len(lines) and lines[i].strip() != "//@ end":
                s2 = lines[i].strip()
                if not s2.startswith("//@"):
                    raise SpecError("non-directive line inside extract block: " + s2)
                e = s2[3:].strip()
                # continuation lines: `//@     | more text`
                while i + 1 < len(lines) and re.match(r"\s*//@\s*\|", lines[i + 1]):
                    e += " " + re.sub(r"^\s*//@\s*\|", "", lines[i + 1]).strip()
                    i += 1
                _parse_extract_directive(ex, e)
                i += 1
            f = ex.file or meta["source"]
            src = src_of(f)
            item = rsrc.find_item(src, ex.path)
            fn_disp = "%s :: %s" % (f, ex.path)
            body = item.body
            if ex.fragment:
                # an anchor starting with `^` is exclusive (fragment starts after / ends before it)
                fa, fb = ex.fragment
                xa, xb = fa.startswith("^"), fb.startswith("^")
                fa, fb = fa.lstrip("^"), fb.lstrip("^")
                a_rx, b_rx = re.compile(_tok_regex(fa)), re.compile(_tok_regex(fb))
                ma = list(a_rx.finditer(body))
                if len(ma) != 1:
                    raise LostAnchor("%s: fragment start `%s` matched %d times" % (fn_disp, fa[:60], len(ma)))
                mb = [m for m in b_rx.finditer(body) if m.start() >= ma[0].end() or (fa == fb and not xa)]
                if len(mb) < 1:
                    raise LostAnchor("%s: fragment end `%s` not found" % (fn_disp, fb[:60]))
                body = body[(ma[0].end() if xa else ma[0].start()):(mb[0].start() if xb else mb[0].end())]
                gen.drops.append("%s: only the statement range `%s` .. `%s` is extracted (fragment); the rest of the function is not verified" %
                                 (fn_disp, ex.fragment[0][:50], ex.fragment[1][:50]))
                if not ex.sig and not ex.splice:
                    raise SpecError("fragment needs a sig: or splice:")
            src_line = src.count("\n", 0, item.open) + 1
            body = _strip_comments(body)
            body = _strip_log_stmts(body, gen.drops, fn_disp)
            body = desugar_let_chains(body, gen.drops, fn_disp)
            body = desugar_for_ranges(body, gen.drops, fn_disp)
            body = desugar_ref_patterns(body, gen.drops, fn_disp)
            body = desugar_for_vec_refs(body, gen.drops, fn_disp)
            body = desugar_loop_break_values(body, gen.drops, fn_disp)
            # rule 6: `_ = E;` (destructuring assignment to the wildcard) -> `let _ = E;`
            nb = re.sub(r"(?m)^(\s*)_\s*=(?![=>])\s*", r"\1let _ = ", body)
            if nb != body:
                gen.drops.append("%s: `_ = E;` rewritten to `let _ = E;` (rule 6)" % fn_disp)
                body = nb
            body = _insert_proofs(body, ex, fn_disp)
            body = _apply_subst(body, ex, gen, fn_disp)
            outlines_seen.update(ex.matched)

            def emit_clause_marker(cl):
                return "/*@@%s*/" % cl.id

            body = _insert_loop_specs(body, ex, emit_clause_marker)
            if ex.splice:
                splices[ex.splice] = body
                gen.functions.append(fn_disp + " [fragment " + ex.splice + "]")
                i += 1
                continue
            head = _header(item, ex)
            if ex.sig:
                gen.drops.append("%s: signature substituted: `%s` -> `%s`" % (fn_disp, re.sub(r"\s+", " ", item.header.strip()), ex.sig.strip()))
            first = len(out_lines) + 1
            emit("// ---- extracted from %s (%s), line %d" % (f, ex.path, item.line()))
            if not ex.isolation:
                emit("#[verifier::loop_isolation(false)]")
            for at in ex.attrs:
                if not at.startswith("#[verifier::"):
                    raise SpecError("only #[verifier::..] attributes may be added: " + at)
                emit(at)
            emit(head)
            for kind in ("requires", "ensures"):
                cls = [cl for cl in ex.clauses if cl.kind == kind and cl.loop is None]
                if cls:
                    emit("    " + kind)
                    for cl in cls:
                        emit("        %s, /*@@%s*/" % (cl.expr, cl.id))
            decs = [cl for cl in ex.clauses if cl.kind == "decreases" and cl.loop is None]
            if decs:
                emit("    decreases " + decs[0].expr)
            emit("{", origin=(fn_disp, f, src_line))
            emit(body, origin=(fn_disp, f, src_line))
            if ex.tail:
                emit("    " + ex.tail)
            emit("}")
            last = len(out_lines)
            gen.functions.append(fn_disp)
            gen.fn_lines[fn_disp] = (first, last)
            # every extracted function gets an `ensures false` canary: it guards against a
            # contradictory `requires` AND against contradictory assumed contracts on helpers
            gen.canary_fns.append(fn_disp)
            for cl in ex.clauses:
                gen.clauses.append((cl.id, cl.kind, cl.expr))
        else:
            raise SpecError("unknown directive: " + d)
        i += 1
    text = "\n".join(out_lines)

    def _vb(m):
        if m.group(1) not in outlines_seen:
            return "unimplemented!() /* outlined expression %s does not occur in the current source */" % m.group(1)
        return re.sub(r"\s*\n\s*", " ", outlines_seen[m.group(1)])
    text = re.sub(r"/\*@@VERBATIM:([\w.]+)\*/", _vb, text)

    def _sp(m):
        if m.group(1) not in splices:
            raise SpecError("splice %s has no fragment" % m.group(1))
        return re.sub(r"\s*\n\s*", " ", splices[m.group(1)])
    text = re.sub(r"/\*@@SPLICE:([\w.]+)\*/", _sp, text)
    # resolve clause markers to line numbers
    final = []
    for n, ln in enumerate(text.split("\n"), 1):
        for mm in re.finditer(r"/\*@@([\w.]+)\*/", ln):
            gen.line_clause[n] = mm.group(1)
        final.append(ln)
    gen.text = "\n".join(final)
    return gen


def _strip_comments(body):
    """remove // and /* */ comments (not doc-relevant inside bodies); keeps strings intact"""
    masked = rsrc.mask(body)
    out = []
    i, n = 0, len(body)
    while i < n:
        if body.startswith("//", i) and masked[i:i + 2] == "  " or (body.startswith("//", i) and masked[i] == " "):
            j = body.find("\n", i)
            j = n if j < 0 else j
            i = j
        elif body.startswith("/*", i) and masked[i] == " ":
            depth, j = 1, i + 2
            while j < n and depth:
                if body.startswith("/*", j):
                    depth += 1
                    j += 2
                elif body.startswith("*/", j):
                    depth -= 1
                    j += 2
                else:
                    j += 1
            i = j
        else:
            out.append(body[i])
            i += 1
    return "".join(out)


def _split_top(s):
    parts, depth, start = [], 0, 0
    for k, ch in enumerate(s):
        if ch in "<([{":
            depth += 1
        elif ch in ">)]}":
            depth -= 1
        elif ch == "," and depth == 0:
            parts.append(s[start:k])
            start = k + 1
    parts.append(s[start:])
    return parts


def _tuple_fields(item):
    """types of a tuple struct `struct X(A, pub B);`"""
    src, masked = item.src, item.masked
    # item.kind == struct but found with `{`?  tuple structs have no `{`; handled by caller via regex
    return []


def tuple_struct_fields(src, name):
    masked = rsrc.mask(src)
    m = re.search(r"\bstruct\s+%s\s*(<[^>]*>)?\s*\(" % re.escape(name), masked)
    if not m:
        raise LostAnchor("tuple struct %s not found" % name)
    o = m.end() - 1
    c = rsrc.match_close(masked, o)
    return [rsrc._norm(re.sub(r"^\s*pub(\s*\([^)]*\))?\s+", "", x)) for x in _split_top(src[o + 1:c]) if x.strip()]


def _parse_extract_directive(ex, e):
    if e.startswith("file:"):
        ex.file = e[5:].strip()
    elif e.startswith("sig:"):
        ex.sig = e[4:].strip()
    elif e.startswith("ret:"):
        ex.ret = e[4:].strip()
    elif e.startswith("tail:"):
        ex.tail = e[5:].strip()
    elif e.startswith("splice:"):
        ex.splice = e[7:].strip()
    elif e.startswith("attr:"):
        ex.attrs.append(e[5:].strip())
    elif e.startswith("isolation:"):
        ex.isolation = e[10:].strip() == "on"
    elif e == "noret":
        ex.noret = True
    elif e.startswith("fragment:"):
        m = re.match(r"\s*`(.*?)`\s*\.\.\s*`(.*)`\s*$", e[9:], re.S)
        if not m:
            raise SpecError("bad fragment: " + e)
        ex.fragment = (m.group(1), m.group(2))
    elif e.startswith("requires ") or e.startswith("ensures "):
        kind, rest = e.split(" ", 1)
        cid, _, expr = rest.partition(":")
        ex.clauses.append(Clause(kind, cid.strip(), expr.strip()))
    elif e.startswith("decreases:"):
        ex.clauses.append(Clause("decreases", "decreases", e[10:].strip()))
    elif e.startswith("loop "):
        m = re.match(r"loop\s+(\d+)\s+(invariant_except_break|invariant|ensures)\s+([\w.]+)\s*:\s*(.*)$", e, re.S)
        if m:
            ex.clauses.append(Clause(m.group(2), m.group(3), m.group(4).strip(), loop=int(m.group(1))))
            return
        m = re.match(r"loop\s+(\d+)\s+decreases\s*:\s*(.*)$", e, re.S)
        if m:
            ex.clauses.append(Clause("decreases", "loop%s.decreases" % m.group(1), m.group(2).strip(), loop=int(m.group(1))))
            return
        raise SpecError("bad loop directive: " + e)
    elif e.startswith("outline ") or e.startswith("rewrite "):
        kind, rest = e.split(" ", 1)
        oid, _, pair = rest.partition(":")
        a, b = _bt_pair(pair)
        ex.outlines.append((oid.strip(), a, b, kind))
    elif e.startswith("proof "):
        mb = re.match(r"proof\s+begin\s*:\s*(.*)$", e, re.S)
        if mb:
            ex.proofs.append(("begin", "", mb.group(1)))
            return
        m = re.match(r"proof\s+(after|before)\s+`(.*?)`\s*:\s*(.*)$", e, re.S)
        if not m:
            raise SpecError("bad proof directive: " + e)
        ex.proofs.append((m.group(1), m.group(2), m.group(3)))
    else:
        raise SpecError("unknown extract directive: " + e)


def make_canary(gen, only=None):
    """variant of the generated text in which ONE extracted function (`only`) additionally
    ensures false; Verus must reject it (vacuity guard).  One function per file: a canary on a
    callee would make its callers verify trivially."""
    lines = gen.text.split("\n")
    out = []
    targets = {gen.fn_lines[f][0]: f for f in gen.canary_fns if only is None or f == only}
    inject_at = {}
    for first, f in targets.items():
        last = gen.fn_lines[f][1]
        # find the line with the opening `{` of the body = first line equal to "{" after `first`
        for n in range(first, last + 1):
            if lines[n - 1].strip() == "{":
                inject_at[n] = f
                break
    for n, ln in enumerate(lines, 1):
        if n in inject_at:
            f = inject_at[n]
            first = gen.fn_lines[f][0]
            seg = lines[first - 1:n - 1]
            has_ens = any(s.strip() == "ensures" for s in seg)
            # decreases must stay last; insert before a decreases line if present
            dec_idx = None
            for k in range(len(out) - 1, len(out) - len(seg) - 1, -1):
                if out[k].strip().startswith("decreases "):
                    dec_idx = k
                    break
            ins = ("        false, /*@@CANARY*/" if has_ens else "    ensures false, /*@@CANARY*/")
            if dec_idx is not None:
                out.insert(dec_idx, ins)
            else:
                out.append(ins)
        out.append(ln)
    return "\n".join(out)
