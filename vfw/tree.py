"""Snapshot /repo's current working tree into /verif/.work/<name> (rsync, keeps mtimes so cargo
fingerprints stay valid).  Nothing under /repo is ever written."""
import os
import subprocess

VERIF = os.path.dirname(os.path.dirname(os.path.abspath(__file__)))
REPO = os.environ.get("VERIF_REPO", "/repo")
WORK = os.path.join(VERIF, ".work")


def snapshot(name="tree"):
    dst = os.path.join(WORK, name)
    os.makedirs(dst, exist_ok=True)
    subprocess.run(
        ["rsync", "-a", "--delete", "--checksum",
         "--exclude", "/target", "--exclude", "/.git", "--exclude", "/website", "--exclude", "/doc",
         "--exclude", "/extension", "--exclude", "/examples/target", "--exclude", "/tests",
         REPO.rstrip("/") + "/", dst + "/"],
        check=True)
    return dst


def repo_head():
    try:
        h = subprocess.run(["git", "-C", REPO, "rev-parse", "HEAD"], capture_output=True, text=True).stdout.strip()
        d = subprocess.run(["git", "-C", REPO, "status", "--porcelain", "--", "src"], capture_output=True, text=True).stdout.strip()
        return h + ("+dirty" if d else "")
    except Exception:
        return "unknown"
