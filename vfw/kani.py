"""Kani back end, part 2: run `cargo kani` on the overlaid snapshot and parse per-harness results."""
import fcntl
import os
import re
import subprocess
import time

from . import overlay, tree as treemod
from .tree import VERIF, WORK

TARGET = os.path.join(WORK, "kani-target")
RSS_LIMIT_KB = int(os.environ.get("VERIF_CBMC_RSS_GB", "10")) * 1024 * 1024


def _cbmc_procs():
    res = []
    for d in os.listdir("/proc"):
        if not d.isdigit():
            continue
        try:
            with open("/proc/%s/comm" % d) as fh:
                if fh.read().strip() != "cbmc":
                    continue
            rss = 0
            with open("/proc/%s/status" % d) as fh:
                for ln in fh:
                    if ln.startswith("VmRSS:"):
                        rss = int(ln.split()[1])
            with open("/proc/%s/cmdline" % d) as fh:
                cmdline = fh.read().replace("\0", " ")
            res.append((int(d), rss, cmdline))
        except OSError:
            continue
    return res


KANI_FLAGS = ["-Z", "unstable-options", "-Z", "stubbing", "-Z", "function-contracts", "--output-format", "terse"]


class HarnessResult:
    def __init__(self, h):
        self.h = h
        self.status = "undecided"     # ok | failed | undecided
        self.reason = ""
        self.checks = 0
        self.failed = 0
        self.unreachable = 0
        self.failed_checks = []       # [(description, location)]
        self.covers = None            # (satisfied, total)
        self.unsat_covers = []
        self.time_s = 0.0
        self.raw = ""


def _env():
    e = dict(os.environ)
    e["CARGO_NET_OFFLINE"] = "true"
    e["CARGO_TARGET_DIR"] = TARGET
    e.pop("RUSTFLAGS", None)
    return e


class Lock:
    def __enter__(self):
        os.makedirs(WORK, exist_ok=True)
        self.fh = open(os.path.join(WORK, "kani.lock"), "w")
        fcntl.flock(self.fh, fcntl.LOCK_EX)
        return self

    def __exit__(self, *a):
        fcntl.flock(self.fh, fcntl.LOCK_UN)
        self.fh.close()


def prepare(tree_name="tree", patch=None, extra=None, only_harness_names=None):
    """snapshot + overlay; returns (tree path, modules, lost)"""
    t = treemod.snapshot(tree_name)
    if patch:
        r = subprocess.run(["patch", "-p1", "--no-backup-if-mismatch", "-s", "-i", patch], cwd=t,
                           capture_output=True, text=True)
        if r.returncode != 0:
            raise RuntimeError("mutant does not apply: " + r.stdout + r.stderr)
    mods = overlay.load_modules()
    if only_harness_names is not None:
        # inject only the modules that own the selected harnesses, plus the helper modules they
        # refer to (transitively): an unrelated module can then never break this build
        by_name = {m.name: m for m in mods}
        need = set(m.name for m in mods if any(h.name in only_harness_names for h in m.harnesses))
        changed = True
        while changed:
            changed = False
            for n in list(need):
                for other in by_name:
                    if other not in need and ("verif_" + other) in by_name[n].text:
                        need.add(other)
                        changed = True
        mods = [m for m in mods if m.name in need]
    lost = overlay.apply(t, mods, extra=extra)
    return t, mods, lost


def run(tree, harnesses, jobs=8, extra=None, timeout=None, log=None):
    """run the given harnesses (list of overlay.Harness) in one cargo-kani invocation"""
    results = {h.name: HarnessResult(h) for h in harnesses}
    if not harnesses:
        return results, ""
    cmd = ["cargo", "kani", "--lib"] + KANI_FLAGS + ["-j", str(jobs)]
    to = max(h.timeout for h in harnesses)
    cmd += ["--harness-timeout", "%ds" % to]
    for h in harnesses:
        cmd += ["--harness", h.name]
    if extra:
        cmd += extra
    t0 = time.time()
    killed = []
    import tempfile, threading
    tf = tempfile.TemporaryFile(mode="w+")
    proc = subprocess.Popen(cmd, cwd=tree, env=_env(), stdout=tf, stderr=subprocess.STDOUT, text=True)
    deadline = t0 + (timeout or (600 + to * (1 + len(harnesses) // jobs)))
    rc = None
    while True:
        try:
            rc = proc.wait(timeout=3)
            break
        except subprocess.TimeoutExpired:
            pass
        # RSS watchdog (DESIGN 1.9): a CBMC process above the limit is killed -> that harness is UNDECIDED
        for pid, rss, cmdline in _cbmc_procs():
            if rss > RSS_LIMIT_KB:
                try:
                    os.kill(pid, 9)
                    killed.append(cmdline)
                except OSError:
                    pass
        if time.time() > deadline:
            proc.kill()
            subprocess.run(["pkill", "-x", "cbmc"])
            rc = -1
            break
    tf.seek(0)
    out = tf.read() + ("\nTIMEOUT" if rc == -1 else "")
    tf.close()
    for c in killed:
        out += "\nRSS-WATCHDOG killed: %s" % c[-200:]
    if log:
        with open(log, "w") as fh:
            fh.write(" ".join(cmd) + "\n" + out)
    parse(out, results)
    build_failed = ("error: could not compile" in out) or ("error[E" in out and "Checking harness" not in out)
    for r in results.values():
        if r.status == "undecided" and not r.reason:
            if build_failed:
                r.reason = "build failure"
            elif rc == -1:
                r.reason = "timeout"
            else:
                r.reason = "no result reported (harness not found?)"
    return results, out


_HDR = re.compile(r"^(?:Thread \d+: )?Checking harness (\S+?)\.\.\.\s*$")


def parse(out, results):
    """terse output: blocks starting with `Checking harness <path>...`; with -j the blocks of
    different threads are printed whole (kani buffers per harness) prefixed by `Thread n:`"""
    lines = out.splitlines()
    blocks = []
    cur = None
    cur_of_thread = {}
    for ln in lines:
        m = re.match(r"^Thread (\d+): (.*)$", ln)
        if m:
            tid, rest = m.group(1), m.group(2)
            mh = re.match(r"Checking harness (\S+?)\.\.\.\s*$", rest)
            if mh:
                cur_of_thread[tid] = mh.group(1)
                cur = None
            elif rest.strip() == "" and tid in cur_of_thread:
                cur = [cur_of_thread[tid], []]
                blocks.append(cur)
            elif cur is not None and not rest.lstrip().startswith("- Stub"):
                cur[1].append(rest)
            continue
        m = _HDR.match(ln)
        if m:
            cur = [m.group(1), []]
            blocks.append(cur)
        elif ln.startswith("Manual Harness Summary") or ln.startswith("Complete - "):
            cur = None
        elif cur is not None:
            cur[1].append(ln)
    for path, body in blocks:
        name = path.rsplit("::", 1)[-1]
        r = results.get(name)
        if r is None:
            continue
        text = "\n".join(body)
        r.raw = text
        m = re.search(r"\*\* (\d+) of (\d+) failed(?: \((.*?)\))?", text)
        if m:
            r.failed, r.checks = int(m.group(1)), int(m.group(2))
            mu = re.search(r"(\d+) unreachable", m.group(3) or "")
            r.unreachable = int(mu.group(1)) if mu else 0
        mc = re.search(r"\*\* (\d+) of (\d+) cover properties satisfied", text)
        if mc:
            r.covers = (int(mc.group(1)), int(mc.group(2)))
        mt = re.search(r"Verification Time: ([0-9.]+)s", text)
        if mt:
            r.time_s = float(mt.group(1))
        # a description may span several lines (function-contract clauses are printed as written)
        for fm in re.finditer(r"Failed Checks: (.*?)\n\s*File: \"(.*?)\", line (\d+), in (\S+)", text, re.S):
            r.failed_checks.append((re.sub(r"\s+", " ", fm.group(1)).strip(), "%s:%s in %s" % (fm.group(2), fm.group(3), fm.group(4))))
        if "VERIFICATION:- SUCCESSFUL" in text:
            r.status = "ok"
        elif "VERIFICATION:- FAILED" in text:
            if re.search(r"CBMC (timed out|failed)|out of memory|Timeout", text, re.I) and not r.failed_checks:
                r.status, r.reason = "undecided", "solver timeout / resource limit"
            else:
                # unsupported-construct / unwinding failures are tool limits, not violations
                real = [fc for fc in r.failed_checks
                        if not re.search(r"unwinding assertion|is not currently supported by Kani|unsupported construct",
                                         fc[0], re.I)]
                if r.failed_checks and not real:
                    r.status, r.reason = "undecided", "tool limit: " + r.failed_checks[0][0]
                elif not r.failed_checks and r.failed == 0:
                    r.status, r.reason = "undecided", "FAILED without failed checks (tool limit)"
                else:
                    r.status = "failed"
                    r.failed_checks = real or r.failed_checks
                    if not r.failed_checks:
                        # never lose a failure because its description could not be parsed
                        r.failed_checks = [("check failed (description not parsed)", "harness %s" % r.h.name)]
        elif "timed out" in text.lower():
            r.status, r.reason = "undecided", "harness timeout"
    return results


def playback(tree, harness, log=None, timeout=900):
    """ask Kani for a concrete counterexample (unit test text) for one failing harness"""
    cmd = ["cargo", "kani", "--lib"] + KANI_FLAGS + ["-Z", "concrete-playback", "--concrete-playback=print",
                                                      "--harness", harness.name]
    try:
        p = subprocess.run(cmd, cwd=tree, env=_env(), capture_output=True, text=True, timeout=timeout)
        out = p.stdout + "\n" + p.stderr
    except subprocess.TimeoutExpired:
        subprocess.run(["pkill", "-x", "cbmc"])
        return None, "playback timeout"
    if log:
        with open(log, "w") as fh:
            fh.write(out)
    blocks = re.findall(r"```\s*\n(.*?#\[test\].*?)```", out, re.S)
    # one test per failing check and per cover point: keep the ones that witness a failing check
    fails = [b for b in blocks if "Check for `cover`" not in b]
    chosen = fails or blocks
    return ("\n".join(chosen) if chosen else None), out
