"""Kani back end, part 1: inject `#[cfg(kani)]` contract/harness modules into the snapshot.

Every file contracts/kani/<name>.rs starts with directive comments:

    //@ inject: <src file> [:: <item path of an inline mod>]
    //@ anchor: <src file> :: <item path>            (must exist, else LostAnchor)
    //@ attr:   <src file> :: <item path> :: <attribute text>   (inserted above the item, e.g.
    //@                                         #[cfg_attr(kani, kani::requires(..))])
    //@ harness: name=<fn> prop=<Cxx[,Cyy]> unit=<unit id> mode=complete|bounded fn="<functions under contract>"
    //@          [bound="<text>"] [timeout=<s>] [unwind=<n>] [covers=<n>] [expect_fail="<clause>"]

The module is injected as

    #[cfg(kani)] #[path = "<abs path>"] pub(crate) mod verif_<name>;

at the end of the owning file, or before the closing brace of the named inline module.  Only the
snapshot is written; /repo is never touched.
"""
import os
import re
import shlex

from . import rsrc
from .tree import VERIF

KDIR = os.path.join(VERIF, "contracts", "kani")


class Harness:
    def __init__(self, module, kv):
        self.module = module
        self.name = kv["name"]
        self.props = kv["prop"].split(",")
        self.unit = kv["unit"]
        self.mode = kv.get("mode", "complete")
        self.fn = kv.get("fn", "")
        self.bound = kv.get("bound", "")
        self.timeout = int(kv.get("timeout", "300"))
        self.kv = kv


class Module:
    def __init__(self, path):
        self.path = path
        self.name = os.path.splitext(os.path.basename(path))[0]
        self.inject = None
        self.anchors = []
        self.attrs = []
        self.harnesses = []
        text = open(path).read()
        self.text = text
        pending = None
        for line in text.splitlines():
            if not line.startswith("//@"):
                continue
            body = line[3:].strip()
            if body.startswith("inject:"):
                self.inject = [x.strip() for x in body[7:].split("::", 1)]
            elif body.startswith("anchor:"):
                self.anchors.append([x.strip() for x in body[7:].split("::", 1)])
            elif body.startswith("attr:"):
                self.attrs.append([x.strip() for x in body[5:].split("::", 2)])
            elif body.startswith("harness:"):
                kv = dict(tok.split("=", 1) for tok in shlex.split(body[8:]))
                pending = Harness(self, kv)
                self.harnesses.append(pending)
            elif body.startswith("+") and pending is not None:
                kv = dict(tok.split("=", 1) for tok in shlex.split(body[1:]))
                pending.kv.update(kv)
                pending.__init__(self, pending.kv)


def load_modules():
    mods = []
    for f in sorted(os.listdir(KDIR)):
        if f.endswith(".rs"):
            mods.append(Module(os.path.join(KDIR, f)))
    return mods


def expand_module(tree, m, extra_text=""):
    """write the module text with `/*@@FRAGMENT:<id>*/` markers replaced by the CURRENT source text of
    the fragment (directive `//@ fragment: <id> :: <file> :: <item path> :: `start` .. `end``) into
    .work/kani-modules/<name>.rs and return that path.  The harness therefore follows /repo when the
    fragment's text changes, or loses its anchor."""
    from . import extract
    from .tree import WORK
    text = m.text
    for line in m.text.splitlines():
        if not line.startswith("//@ fragment:"):
            continue
        fid, f, path, rng = [x.strip() for x in line[len("//@ fragment:"):].split("::", 3)]
        mm = re.match(r"`(.*?)`\s*\.\.\s*`(.*)`\s*$", rng, re.S)
        if not mm:
            raise rsrc.LostAnchor("bad fragment directive: " + line)
        src = open(os.path.join(tree, f)).read()
        it = rsrc.find_item(src, path)
        body = it.body
        # an anchor starting with `^` is exclusive (the fragment starts after / ends before it)
        sa, sb = mm.group(1), mm.group(2)
        xa, xb = sa.startswith("^"), sb.startswith("^")
        sa, sb = sa.lstrip("^"), sb.lstrip("^")
        last_b = sb.startswith("$")      # `$text`: the LAST occurrence in the item body
        sb = sb.lstrip("$")
        class _Pos:
            def __init__(self, p):
                self.p = p
            def start(self):
                return self.p
            def end(self):
                return self.p
        if sa == "BEGIN":          # the beginning of the item body
            a = [_Pos(0)]
        else:
            a = list(re.finditer(extract._tok_regex(sa), body))
        if len(a) != 1:
            raise rsrc.LostAnchor("fragment %s start matched %d times" % (fid, len(a)))
        if sb == "END":            # the end of the item body
            b = [_Pos(len(body))]
        else:
            b = [x for x in re.finditer(extract._tok_regex(sb), body) if x.start() >= a[0].end() or (sa == sb and not xa)]
        if not b:
            raise rsrc.LostAnchor("fragment %s end not found" % fid)
        if last_b:
            b = [b[-1]]
        frag = body[(a[0].end() if xa else a[0].start()):(b[0].start() if xb else b[0].end())]
        text = text.replace("/*@@FRAGMENT:%s*/" % fid, frag)
    d = os.path.join(WORK, "kani-modules", os.path.basename(tree))
    os.makedirs(d, exist_ok=True)
    out = os.path.join(d, m.name + ".rs")
    with open(out, "w") as fh:
        fh.write(text + "\n" + extra_text)
    return out


def apply(tree, modules, extra=None):
    """inject all modules into the snapshot; returns {module name: error string} for lost anchors.
    `extra` = {module name: text appended to the module} (concrete playback tests)"""
    lost = {}
    by_file = {}
    extra = extra or {}
    for m in modules:
        try:
            for f, p in m.anchors:
                src = open(os.path.join(tree, f)).read()
                rsrc.find_item(src, p)
        except (rsrc.LostAnchor, OSError) as e:
            lost[m.name] = "lost anchor: %s" % e
            continue
        by_file.setdefault(m.inject[0], []).append(m)
    for f, mods in by_file.items():
        p = os.path.join(tree, f)
        try:
            src = open(p).read()
        except OSError as e:
            for m in mods:
                lost[m.name] = "lost anchor: %s" % e
            continue
        for m in mods:
            try:
                mpath = expand_module(tree, m, extra.get(m.name, ""))
            except (rsrc.LostAnchor, OSError) as e:
                lost[m.name] = "lost anchor: %s" % e
                continue
            decl = '#[cfg(kani)] #[path = "%s"] pub(crate) mod verif_%s;\n' % (mpath, m.name)
            try:
                # attributes first (positions found freshly each time)
                for af, ap, atext in m.attrs:
                    if af != f:
                        raise rsrc.LostAnchor("attr on a different file than inject: " + af)
                    it = rsrc.find_item(src, ap)
                    ls = src.rfind("\n", 0, it.head_start) + 1
                    indent = src[ls:it.head_start]
                    src = src[:ls] + indent + atext + "\n" + src[ls:]
                if len(m.inject) == 2:
                    it = rsrc.find_item(src, m.inject[1])
                    src = src[:it.close] + "    " + decl + src[it.close:]
                else:
                    src = src.rstrip("\n") + "\n" + decl
            except rsrc.LostAnchor as e:
                lost[m.name] = "lost anchor: %s" % e
        st = os.stat(p)
        with open(p, "w") as fh:
            fh.write(src)
    return lost
