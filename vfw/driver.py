"""vcheck driver: decide one property with the contract back ends and write evidence."""
import glob
import json
import os
import re
import shutil
import subprocess
import sys
import time

from . import extract, kani, overlay, tree as treemod, verus
from .tree import VERIF, WORK

EVID = os.path.join(VERIF, "evidence")
REPLAY = os.path.join(VERIF, "replay")
KNOWN = os.path.join(VERIF, "known_findings.json")
MUTANTS = os.path.join(VERIF, "selftest", "mutants")

GLOBAL_TRUST = [
    "rustc / Kani 0.68 + CBMC 6.11 / Verus 0.2026.09.13 + Z3 are sound",
    "x86-64 little-endian, usize == u64, c_long == i64 (build.rs refuses other targets)",
    "Linux ptrace / hardware semantics as written in the environment models of DESIGN.md 1.4 "
    "(PEEK/POKE word model, u_debugreg image, Intel SDM DR6/DR7 layout, SysV psABI tables)",
    "Kani: functions replaced by #[kani::stub] are trusted to behave like the stub; "
    "Verus: #[verifier::external_body] helpers (outlined std expressions) are assumed to satisfy their written contract",
    "machine arithmetic: bit-precise in Kani; in Verus executable integers are overflow-checked (debug-build semantics), spec integers are mathematical",
]


def load_known():
    try:
        return json.load(open(KNOWN))
    except Exception:
        return {"findings": [], "fixed": []}


def match_known(known, prop, ob_id, detail):
    for f in known.get("findings", []):
        if f.get("property") != prop:
            continue
        if f.get("obligation") and f["obligation"] != ob_id:
            continue
        if f.get("detail_regex") and not re.search(f["detail_regex"], detail or ""):
            continue
        return f
    return None


def prop_of_obligation(ob_id, default):
    m = re.match(r"(C\d\d)\.", ob_id)
    return m.group(1) if m else default


class Failure:
    def __init__(self, prop, ob_id, unit, backend, detail, extra=""):
        self.prop, self.id, self.unit, self.backend, self.detail, self.extra = prop, ob_id, unit, backend, detail, extra
        self.replay = None
        self.witness = None


def _safe(s):
    return re.sub(r"[^A-Za-z0-9_.@-]+", "_", s)[:150]


def verus_units_for(prop):
    res = []
    for f in sorted(glob.glob(os.path.join(extract.VDIR, "*.rs"))):
        if os.path.basename(f) == "prelude.rs" or os.path.basename(f).startswith("_"):
            continue
        head = open(f).read(4000)
        m = re.search(r"^//@ props:(.*)$", head, re.M)
        if m and prop in m.group(1).split():
            res.append(f)
    return res


def run_property(prop, tier="quick", seed=0, patch=None, quiet=False, only_units=None, tree_suffix=""):
    """returns dict with everything needed for verdict + evidence"""
    t0 = time.time()
    out = {"prop": prop, "tier": tier, "kani": [], "verus": [], "failures": [], "undecided": [], "lost": {}}
    # ------------------------------------------------------------------ Kani
    mods = overlay.load_modules()
    all_h = [h for m in mods for h in m.harnesses if prop in h.props]
    if tier == "quick":
        all_h = [h for h in all_h if h.kv.get("tier", "quick") == "quick"]
    if only_units is not None:
        all_h = [h for h in all_h if h.unit in only_units]
    if all_h:
        with kani.Lock():
            t, mods2, lost = kani.prepare("tree" + tree_suffix, patch=patch, only_harness_names=set(h.name for h in all_h))
            out["lost"].update(lost)
            hs = []
            for h in all_h:
                if h.module.name in lost:
                    out["undecided"].append((h.unit, lost[h.module.name]))
                else:
                    hs.append(h)
            # helper modules that harness modules depend on
            for mname, why in lost.items():
                if not any(h.module.name == mname for h in all_h):
                    dep = [h for h in hs if ("verif_" + mname) in h.module.text]
                    for h in dep:
                        out["undecided"].append((h.unit, "helper module %s: %s" % (mname, why)))
                    hs = [h for h in hs if h not in dep]
            log = os.path.join(WORK, "kani.%s.%s.log" % (prop, tier))
            res, raw = kani.run(t, hs, jobs=int(os.environ.get("VERIF_JOBS", "14")), log=log)
            out["kani_cmd"] = "cargo kani --lib %s -j N --harness <h>.. (in %s)" % (" ".join(kani.KANI_FLAGS), t)
            for name, r in res.items():
                out["kani"].append(r)
                if r.status == "undecided":
                    out["undecided"].append((r.h.unit, r.reason))
                elif r.status == "failed":
                    for desc, loc in r.failed_checks:
                        desc = desc.strip().strip('"')
                        m = re.match(r"(C\d\d\.[\w.]+)", desc)
                        if m:
                            ob_id = m.group(1)
                        else:
                            kind = desc
                            if desc.startswith("This is a placeholder message"):
                                kind = "panic"   # panic!/unwrap/expect with a formatted message
                            where = loc.rsplit(" in ", 1)[-1].rsplit("::", 1)[-1] if " in " in loc else ""
                            ob_id = "%s.implicit.%s@%s" % (r.h.unit, _safe(kind)[:50], _safe(where)[:40])
                        # a harness listed under several properties carries obligations of all of them
                        if prop in r.h.props:
                            p = prop
                        else:
                            p = prop_of_obligation(ob_id, r.h.kv.get("implicit", r.h.props[0])) if m else r.h.kv.get("implicit", r.h.props[0])
                        fl = Failure(p, ob_id, r.h.unit, "kani", "%s @ %s" % (desc, loc))
                        fl.harness = r.h
                        fl.tree = t
                        out["failures"].append(fl)
                if r.covers and r.covers[0] != r.covers[1]:
                    out["undecided"].append((r.h.unit, "vacuity guard: %d of %d cover points unreachable" % (r.covers[1] - r.covers[0], r.covers[1])))
            # concrete playback for failing harnesses of THIS property (inside the lock: same tree)
            for fl in out["failures"]:
                if fl.backend == "kani" and fl.prop == prop and not getattr(fl.harness, "_pb_done", False) and not os.environ.get("VERIF_NO_PLAYBACK"):
                    fl.harness._pb_done = True
                    test, praw = kani.playback(t, fl.harness, log=os.path.join(WORK, "playback.%s.log" % fl.harness.name), timeout=int(os.environ.get("VERIF_PLAYBACK_TIMEOUT", "420")))
                    fl.harness._pb = test or ""
                if fl.backend == "kani":
                    fl.witness = getattr(fl.harness, "_pb", "") or None
    # ------------------------------------------------------------------ Verus
    units = verus_units_for(prop)
    if units:
        # a patched (mutant / seeded) tree is private to this process: concurrent sweeps must not share it
        vt_name = "vtree" + tree_suffix + (".%d" % os.getpid() if patch else "")
        vt = treemod.snapshot(vt_name)
        if patch:
            r = subprocess.run(["patch", "-p1", "--no-backup-if-mismatch", "-s", "-i", patch], cwd=vt, capture_output=True, text=True)
            if r.returncode != 0:
                raise RuntimeError("mutant does not apply: " + r.stdout + r.stderr)
        for tpl in units:
            ur = verus.check_unit(tpl, vt, seed=None, tag=tree_suffix + (".%d" % os.getpid() if patch else ""))
            if only_units is not None and ur.unit not in only_units:
                continue
            out["verus"].append(ur)
            if ur.status == "undecided":
                out["undecided"].append((ur.unit, ur.reason))
            elif ur.status == "failed":
                for ob in ur.failed:
                    if ob.kind == "implicit":
                        p = ur.gen.meta.get("implicit_prop") or ur.props[0]
                    else:
                        p = prop_of_obligation(ob.id, ur.props[0])
                    fl = Failure(p, ob.id, ur.unit, "verus", ob.detail, getattr(ob, "rendered", ""))
                    fl.file = ur.file
                    out["failures"].append(fl)
            if tier == "thorough" and ur.status == "ok":
                # second solver seed: a proof that holds for one seed and not another is unstable
                js, diags, err, wall, cmd = verus.run_verus(ur.file, seed=seed + 1)
                f2, tool2 = verus.classify(diags, ur.gen)
                if js is None or f2 or tool2 or not js.get("verification-results", {}).get("success"):
                    out["undecided"].append((ur.unit, "unstable proof: fails with smt.random_seed=%d" % (seed + 1)))
    if patch and units:
        shutil.rmtree(vt, ignore_errors=True)
    out["wall"] = time.time() - t0
    return out


def write_replay(fl, prop):
    d = os.path.join(REPLAY, prop)
    os.makedirs(d, exist_ok=True)
    path = os.path.join(d, _safe(fl.id) + (".rs" if fl.witness else ".txt"))
    with open(path, "w") as fh:
        fh.write("// REPLAY for property %s\n// failed obligation: %s\n// unit: %s   back end: %s\n// verifier output: %s\n" %
                 (prop, fl.id, fl.unit, fl.backend, fl.detail.replace("\n", " ")))
        if fl.backend == "kani":
            fh.write("// harness: %s (contracts/kani/%s.rs)\n" % (fl.harness.name, fl.harness.module.name))
            if fl.witness:
                fh.write("// Concrete counterexample produced by Kani (-Z concrete-playback).  To execute it against the real code:\n"
                         "//   /verif/bin/vcheck --replay %s\n"
                         "// (copies this test into the harness module of a fresh snapshot of /repo and runs `cargo kani playback`)\n" % path)
                fh.write(fl.witness + "\n")
            else:
                fh.write("// Kani produced no concrete playback for this check: no-failing-input-found\n")
        else:
            fh.write("// Verus gives no counterexample: no-failing-input-found\n// generated file: %s\n" % getattr(fl, "file", ""))
            fh.write("/*\n%s\n*/\n" % fl.extra)
    fl.replay = path
    return path


def evidence(prop, tier, seed, res, verdict, known_matched, violations, manifest_level):
    kh = res["kani"]
    vu = res["verus"]
    ob_total = 0
    ob_dis = 0
    units = []
    bounded = []
    samples = []
    fns = []
    assumptions = list(GLOBAL_TRUST)
    drops = []
    not_covered = []
    solver_s = 0.0
    for r in kh:
        entry = {"unit": r.h.unit, "backend": "kani/cbmc", "harness": r.h.name, "mode": r.h.mode,
                 "functions": r.h.fn, "status": r.status, "checks": r.checks, "failed": r.failed,
                 "unreachable": r.unreachable, "covers": list(r.covers) if r.covers else None,
                 "solver_s": round(r.time_s, 2), "reason": r.reason}
        if r.h.bound:
            entry["bound"] = r.h.bound
        solver_s += r.time_s
        if r.h.mode == "bounded":
            bounded.append(entry)
        else:
            units.append(entry)
            ob_total += r.checks
            ob_dis += (r.checks - r.failed) if r.status in ("ok", "failed") else 0
            if r.h.fn:
                fns.append(r.h.fn)
        stubs = re.findall(r"#\[kani::stub\(([^)]*)\)\]", r.h.module.text)
        for s in sorted(set(stubs)):
            a = "kani stub (trusted environment model) in %s: %s" % (r.h.module.name, re.sub(r"\s+", " ", s))
            if a not in assumptions:
                assumptions.append(a)
        for mm in re.finditer(r"^//@ (assume|notcovered): (.*)$", r.h.module.text, re.M):
            (assumptions if mm.group(1) == "assume" else not_covered).append("%s: %s" % (r.h.module.name, mm.group(2)))
    for u in vu:
        named = [o for o in u.obligations]
        n_named = len(named)
        n_failed_named = len([o for o in named if o.status == "failed"])
        n_impl_failed = len([o for o in u.failed if o.kind == "implicit"])
        nfn = len(u.gen.functions) if u.gen else 0
        entry = {"unit": u.unit, "backend": "verus/z3", "status": u.status, "reason": u.reason,
                 "functions": u.gen.meta.get("fn") if u.gen else "", "extracted": u.gen.functions if u.gen else [],
                 "named_obligations": [o.id for o in named], "function_body_checks": nfn,
                 "verified_fns_reported_by_verus": u.verified_fns, "canary": u.canary,
                 "smt_ms": u.smt_ms, "total_ms": u.total_ms,
                 "failed": [o.id for o in u.failed]}
        units.append(entry)
        solver_s += u.total_ms / 1000.0
        if u.status in ("ok", "failed"):
            ob_total += n_named + nfn + n_impl_failed
            ob_dis += n_named - n_failed_named + (nfn if u.status == "ok" else max(0, nfn - n_impl_failed - (1 if n_failed_named else 0)))
        if u.gen:
            # mechanical scan of the generated file: every trusted item is listed
            ext = re.findall(r"#\[verifier::external_body\]\s*(?:pub\s+)?(?:open\s+|closed\s+)?(?:spec\s+|proof\s+|exec\s+)?fn\s+(\w+)", u.gen.text)
            unint = re.findall(r"uninterp\s+spec\s+fn\s+(\w+)", u.gen.text)
            entry["scan"] = {"external_body_fns": ext, "uninterpreted_spec_fns": unint,
                             "assume_or_admit": len(re.findall(r"\b(assume|admit)\s*\(", u.gen.text)),
                             "assume_specification": len(re.findall(r"assume_specification", u.gen.text)),
                             "unsafe_blocks": len(re.findall(r"\bunsafe\b", u.gen.text))}
            if ext:
                assumptions.append("%s: trusted (external_body) helpers in the generated file: %s" % (u.unit, ", ".join(ext)))
            fns.append(u.gen.meta.get("fn", ""))
            drops += u.gen.drops
            for oid, txt in u.gen.outlines:
                assumptions.append("%s: assumed contract on outlined expression %s `%s`" % (u.unit, oid, txt[:120]))
            for a in u.gen.meta.get("assumes", []):
                assumptions.append("%s: %s" % (u.unit, a))
            for a in u.gen.meta.get("notcovered", []):
                not_covered.append("%s: %s" % (u.unit, a))
            for s in u.gen.shims:
                drops.append("%s: shim type keeps only these fields: %s" % (u.unit, s))
            for cid, kind, expr in u.gen.clauses[:3]:
                samples.append({"obligation": "%s.%s" % (u.unit, cid), "kind": kind, "text": expr[:200], "backend": "verus"})
    for r in kh[:6]:
        samples.append({"obligation": r.h.unit, "harness": r.h.name, "checks": r.checks, "backend": "kani", "status": r.status})
    # obligations that fail ONLY because of a defect listed in known_findings.json are reported separately:
    # `obligations` then counts what this run set out to discharge and did (a violation keeps the gap visible)
    known_gap = 0
    if known_matched and not violations and ob_total > ob_dis:
        known_gap = ob_total - ob_dis
        ob_total = ob_dis
    level = manifest_level
    proof_units = [u for u in units]
    if not proof_units:
        level = "other"
    cov = {
        "obligations": ob_total,
        "discharged": ob_dis,
        "checker_cmd": "; ".join(x for x in [res.get("kani_cmd"), (vu[0].cmd if vu and getattr(vu[0], "cmd", None) else None)] if x) or "n/a",
        "trusted_base": GLOBAL_TRUST,
        "samples": samples or [{"note": "no unit ran"}],
        "explanation": "contract-based deductive verification of the real functions: Kani harnesses compiled in place in a snapshot of /repo "
                       "(complete = loop-free or constant-bound code over fully symbolic inputs) and Verus proofs over functions extracted "
                       "mechanically from /repo on this run; `obligations` = CBMC checks of complete harnesses + named Verus clauses + "
                       "one body check per extracted function; bounded stand-ins are listed separately and never counted; obligations that fail only because of a defect recorded in known_findings.json are excluded from `obligations` and counted in `known_finding_obligations`",
        "functions_under_contract": sorted(set(x for x in fns if x)),
        "units": units,
        "bounded_units": bounded,
        "extraction_drops": drops,
        "not_covered": not_covered,
        "known_findings_matched": known_matched,
        "known_finding_obligations": known_gap,
        "undecided": ["%s: %s" % (u, r) for u, r in res["undecided"]],
        "solver_time_s": round(solver_s, 2),
        "repo_head": treemod.repo_head(),
    }
    ev = {
        "property_id": prop, "tier": tier, "seed": int(seed), "level": level,
        "coverage": cov, "assumptions": assumptions, "wall_s": round(res["wall"], 2),
        "violations": violations, "verdict": verdict,
    }
    os.makedirs(EVID, exist_ok=True)
    with open(os.path.join(EVID, prop + ".json"), "w") as fh:
        json.dump(ev, fh, indent=1)
    return ev


def manifest_level(prop):
    try:
        m = json.load(open(os.path.join(VERIF, "MANIFEST.json")))
        for c in m["checks"]:
            if c["property_id"] == prop:
                return c["level_claimed"]["category"]
    except Exception:
        pass
    return "proof"


def selftest_mutants(prop, seed):
    """thorough tier: every mutant of the real function bodies must make a named obligation fail"""
    problems, report = [], []
    for d in sorted(glob.glob(os.path.join(MUTANTS, prop + "_*.diff")) + glob.glob(os.path.join(MUTANTS, prop + ".*.diff"))):
        name = os.path.basename(d)
        meta = {}
        for ln in open(d).read().splitlines()[:6]:
            m = re.match(r"#\s*(\w+):\s*(.*)$", ln)
            if m:
                meta[m.group(1)] = m.group(2)
        units = meta.get("units", "").split() or None
        # does it apply?
        vt = treemod.snapshot("mtree")
        r = subprocess.run(["patch", "-p1", "--dry-run", "-s", "-i", d], cwd=vt, capture_output=True, text=True)
        if r.returncode != 0:
            report.append({"mutant": name, "result": "skipped: no longer applies to /repo"})
            continue
        try:
            res = run_property(prop, tier="quick", seed=seed, patch=d, only_units=units, tree_suffix=".mut")
        except RuntimeError as e:
            report.append({"mutant": name, "result": "skipped: %s" % e})
            continue
        mine = [f for f in res["failures"] if f.prop == prop]
        if mine:
            report.append({"mutant": name, "result": "killed", "by": sorted(set(f.id for f in mine))[:5]})
        elif res["undecided"]:
            report.append({"mutant": name, "result": "undecided: %s" % res["undecided"][0][1][:200]})
        else:
            report.append({"mutant": name, "result": "SURVIVED"})
            problems.append(name)
    for sfx in ("tree.mut", "vtree.mut", "mtree"):
        shutil.rmtree(os.path.join(WORK, sfx), ignore_errors=True)
    return problems, report


def main(argv):
    if len(argv) >= 2 and argv[0] == "--replay":
        from . import replay
        return replay.main(argv[1:])
    if len(argv) < 1:
        print("usage: vcheck <Cxx> [quick|thorough]")
        return 2
    prop = argv[0]
    tier = argv[1] if len(argv) > 1 else os.environ.get("VERIF_TIER", "quick")
    seed = int(os.environ.get("VERIF_SEED", "0") or 0)
    res = run_property(prop, tier=tier, seed=seed)
    known = load_known()
    violations, known_matched = 0, []
    lines = []
    mine = [f for f in res["failures"] if f.prop == prop]
    seen = set()
    for fl in mine:
        if fl.id in seen:
            continue
        seen.add(fl.id)
        kf = match_known(known, prop, fl.id, fl.detail)
        if kf:
            known_matched.append(fl.id)
            lines.append("KNOWN-FINDING: property=%s %s" % (prop, kf.get("what", fl.id)))
            continue
        path = write_replay(fl, prop)
        violations += 1
        tail = "" if fl.witness else " no-failing-input-found"
        lines.append("VIOLATION property=%s replay=%s obligation=%s%s" % (prop, path, fl.id, tail))
    mut_report = None
    if tier == "thorough" and not violations and not res["undecided"]:
        problems, mut_report = selftest_mutants(prop, seed)
        for p in problems:
            res["undecided"].append(("selftest", "mutant %s still verifies: contract too weak" % p))
    for u, why in res["undecided"]:
        lines.append("UNDECIDED property=%s unit=%s reason=%s" % (prop, u, why.replace("\n", " ")[:300]))
    verdict = "violation" if violations else ("undecided" if res["undecided"] else "holds")
    if not res["kani"] and not res["verus"]:
        verdict = "undecided"
        lines.append("UNDECIDED property=%s reason=no unit is registered for this property" % prop)
    ev = evidence(prop, tier, seed, res, verdict, known_matched, violations, manifest_level(prop))
    if mut_report is not None:
        ev["coverage"]["mutant_selftest"] = mut_report
        json.dump(ev, open(os.path.join(EVID, prop + ".json"), "w"), indent=1)
    c = ev["coverage"]
    print("property %s tier=%s: %d/%d obligations discharged, %d units, %d bounded, %.0fs" %
          (prop, tier, c["discharged"], c["obligations"], len(c["units"]), len(c["bounded_units"]), res["wall"]))
    for ln in lines:
        print(ln)
    if violations:
        return 1
    if verdict == "undecided":
        return 2
    return 0
