"""Rust source locator (stdlib only).

Finds items by *item path* (never by line number) in a Rust source file:

    "mod debug / impl DebugControlRegister / fn set_dr"
    "impl From<RegisterMap> for DwarfRegisterMap / fn from"
    "fn read_memory_by_pid"
    "impl HardwareDebugState / fn current / fn get_dr"     (nested fn)

All searching is done on a *masked* copy of the text in which comments, string
literals and char literals are blanked (same length, newlines kept), so braces
and keywords inside them are never seen.
"""
import re


class LostAnchor(Exception):
    """An item / statement the contracts are anchored on cannot be found."""


def mask(src: str) -> str:
    out = list(src)
    i, n = 0, len(src)

    def blank(a, b):
        for k in range(a, b):
            if out[k] != "\n":
                out[k] = " "

    while i < n:
        c = src[i]
        if c == "/" and i + 1 < n and src[i + 1] == "/":
            j = src.find("\n", i)
            j = n if j < 0 else j
            blank(i, j)
            i = j
        elif c == "/" and i + 1 < n and src[i + 1] == "*":
            depth, j = 1, i + 2
            while j < n and depth:
                if src.startswith("/*", j):
                    depth += 1
                    j += 2
                elif src.startswith("*/", j):
                    depth -= 1
                    j += 2
                else:
                    j += 1
            blank(i, j)
            i = j
        elif c == '"':
            j = i + 1
            while j < n and src[j] != '"':
                j += 2 if src[j] == "\\" else 1
            blank(i + 1, min(j, n))
            i = j + 1
        elif c == "r" and (i == 0 or not (src[i - 1].isalnum() or src[i - 1] == "_") or
                           (src[i - 1] == "b" and (i < 2 or not (src[i - 2].isalnum() or src[i - 2] == "_")))) \
                and re.match(r'r#*"', src[i:i + 20]):
            m = re.match(r'r(#*)"', src[i:i + 20])
            close = '"' + m.group(1)
            j = src.find(close, i + m.end())
            j = n if j < 0 else j
            blank(i + m.end(), j)
            i = j + len(close)
        elif c == "'":
            # char literal or lifetime
            m = re.match(r"'(\\.[^']*|[^'\\])'", src[i:i + 12])
            if m:
                blank(i + 1, i + m.end() - 1)
                i += m.end()
            else:
                i += 1
        else:
            i += 1
    return "".join(out)


def match_close(masked: str, open_idx: int) -> int:
    """index of the bracket closing the one at open_idx"""
    pairs = {"{": "}", "(": ")", "[": "]"}
    o = masked[open_idx]
    c = pairs[o]
    depth = 0
    for k in range(open_idx, len(masked)):
        ch = masked[k]
        if ch == o:
            depth += 1
        elif ch == c:
            depth -= 1
            if depth == 0:
                return k
    raise LostAnchor("unbalanced bracket at %d" % open_idx)


def _norm(s: str) -> str:
    s = re.sub(r"\s+", " ", s.strip())
    s = re.sub(r"\s*([<>,:&()\[\]])\s*", r"\1", s)
    return s


def _depth0_positions(masked, lo, hi, regex):
    """yield regex matches inside [lo,hi) that sit at brace depth 0 relative to lo"""
    depth = 0
    pos = lo
    for m in re.finditer(regex, masked[lo:hi]):
        s = lo + m.start()
        for ch in masked[pos:s]:
            if ch == "{":
                depth += 1
            elif ch == "}":
                depth -= 1
        pos = s
        if depth == 0:
            yield m, s


class Item:
    def __init__(self, src, masked, kind, name, attrs_start, head_start, open_idx, close_idx):
        self.src, self.masked = src, masked
        self.kind, self.name = kind, name
        self.attrs_start = attrs_start   # start of doc comments / attributes
        self.head_start = head_start     # start of `pub fn ..` / `impl ..` / `mod ..`
        self.open = open_idx             # index of `{`
        self.close = close_idx           # index of matching `}`

    @property
    def header(self):
        return self.src[self.head_start:self.open]

    @property
    def body(self):
        return self.src[self.open + 1:self.close]

    @property
    def text(self):
        return self.src[self.head_start:self.close + 1]

    def line(self):
        return self.src.count("\n", 0, self.head_start) + 1


def _attrs_start(src, masked, head_start):
    """walk back over attributes and doc comments preceding an item"""
    pos = head_start
    while True:
        # skip whitespace backwards
        k = pos
        while k > 0 and src[k - 1] in " \t\n":
            k -= 1
        # previous line
        ls = src.rfind("\n", 0, k) + 1
        line = src[ls:k].strip()
        if line.startswith("///") or line.startswith("//!"):
            pos = ls
            continue
        if line.startswith("#[") or line.startswith("#!["):
            pos = ls
            continue
        if line.endswith("]") and k > 0:
            # multi-line attribute: find matching '[' backwards on masked text
            depth, j = 0, k - 1
            while j >= 0:
                if masked[j] == "]":
                    depth += 1
                elif masked[j] == "[":
                    depth -= 1
                    if depth == 0:
                        break
                j -= 1
            if j > 0 and masked[j - 1] == "#":
                pos = src.rfind("\n", 0, j) + 1
                continue
        return pos


def _find_all_in(src, masked, lo, hi, seg):
    seg = seg.strip()
    mk = re.match(r"(mod|impl|fn|struct|enum|trait)\b\s*(.*)$", seg, re.S)
    if not mk:
        raise LostAnchor("bad path segment: " + seg)
    kind, rest = mk.group(1), mk.group(2).strip()
    if kind == "mod":
        rx = r"\bmod\s+%s\s*\{" % re.escape(rest)
        for m, s in _depth0_positions(masked, lo, hi, rx):
            o = s + m.end() - m.start() - 1
            hs = _head_start(masked, lo, s)
            yield Item(src, masked, "mod", rest, _attrs_start(src, masked, hs), hs, o, match_close(masked, o))
    elif kind == "impl":
        want = _norm("impl " + rest)
        for m, s in _depth0_positions(masked, lo, hi, r"\bimpl\b"):
            o = masked.find("{", s, hi)
            if o < 0:
                continue
            head = _norm(src[s:o])
            head_nog = re.sub(r"^impl<[^>]*(<[^>]*>[^>]*)*>\s*", "impl ", head)
            head_nog = _norm(head_nog)
            head_nowhere = _norm(re.sub(r"\bwhere\b.*$", "", head_nog))
            # also allow dropping generic args on the self type: impl<T> S<T> == "impl S"
            head_plain = _norm(re.sub(r"<[^<>]*(<[^<>]*>[^<>]*)*>$", "", head_nowhere))
            if want in (head, head_nog, head_nowhere, head_plain):
                yield Item(src, masked, "impl", rest, _attrs_start(src, masked, s), s, o, match_close(masked, o))
    elif kind in ("fn", "struct", "enum", "trait"):
        rx = r"\b%s\s+%s\b" % (kind, re.escape(rest))
        for m, s in _depth0_positions(masked, lo, hi, rx):
            # body `{` : first `{` at paren/bracket depth 0 after the name; `;` first => no body
            k = s + (m.end() - m.start())
            pd = 0
            o = -1
            while k < hi:
                ch = masked[k]
                if ch in "([":
                    pd += 1
                elif ch in ")]":
                    pd -= 1
                elif ch == "{" and pd == 0:
                    o = k
                    break
                elif ch == ";" and pd == 0:
                    break
                k += 1
            if o < 0:
                continue
            hs = _head_start(masked, lo, s)
            yield Item(src, masked, kind, rest, _attrs_start(src, masked, hs), hs, o, match_close(masked, o))
    else:
        raise LostAnchor("bad path segment: " + seg)


def _head_start(masked, lo, kw_start):
    """extend backwards over `pub`, `pub(..)`, `const`, `unsafe`, `async`, `extern ".."`"""
    s = kw_start
    while True:
        k = s
        while k > lo and masked[k - 1] in " \t\n":
            k -= 1
        m = re.search(r"(\bpub(\s*\([^)]*\))?|\bconst|\bunsafe|\basync|\bdefault)$", masked[max(lo, k - 40):k])
        if not m:
            return s
        s = max(lo, k - 40) + m.start()


def find_item(src: str, path: str, masked: str = None) -> Item:
    """first item matching the whole path (backtracks over several `impl X` blocks)"""
    masked = masked if masked is not None else mask(src)
    segs = path.split("/")

    def rec(k, lo, hi):
        for it in _find_all_in(src, masked, lo, hi, segs[k]):
            if k + 1 == len(segs):
                return it
            r = rec(k + 1, it.open + 1, it.close)
            if r is not None:
                return r
        return None

    it = rec(0, 0, len(src))
    if it is None:
        raise LostAnchor("item not found: " + path)
    return it


def struct_fields(item: Item):
    """{name: type} of a braced struct item (top-level commas only)"""
    body_m = item.masked[item.open + 1:item.close]
    body_s = item.src[item.open + 1:item.close]
    fields, depth, start = {}, 0, 0
    parts = []
    for k, ch in enumerate(body_m):
        if ch in "<([{":
            depth += 1
        elif ch in ">)]}":
            if ch == ">" and k > 0 and body_m[k - 1] == "-":
                continue
            depth -= 1
        elif ch == "," and depth == 0:
            parts.append((start, k))
            start = k + 1
    parts.append((start, len(body_m)))
    for a, b in parts:
        seg_m = body_m[a:b]
        # strip attributes
        seg = re.sub(r"#\[[^\]]*\]", " ", seg_m)
        m = re.search(r"(?:pub(?:\s*\([^)]*\))?\s+)?((?:r#)?[A-Za-z_][A-Za-z0-9_]*)\s*:\s*(.+)$", seg.strip(), re.S)
        if m:
            fields[m.group(1)] = _norm(m.group(2))
    return fields


# ---------------------------------------------------------------- loops / statements

LOOP_RX = re.compile(r"\b(while|loop|for)\b")


def loops(masked_body: str):
    """[(kw, kw_start, open_brace, close_brace)] of every loop in source order (all nesting levels)"""
    res = []
    for m in LOOP_RX.finditer(masked_body):
        kw = m.group(1)
        s = m.start()
        # `for` in `impl X for Y` / HRTB cannot occur inside a fn body except closures' `for<'a>`
        k = m.end()
        if kw == "for" and masked_body[k:k + 1] == "<":
            continue
        pd = 0
        o = -1
        while k < len(masked_body):
            ch = masked_body[k]
            if ch in "([":
                pd += 1
            elif ch in ")]":
                pd -= 1
            elif ch == "{" and pd == 0:
                o = k
                break
            elif ch == ";" and pd == 0:
                break
            k += 1
        if o < 0:
            continue
        res.append((kw, s, o, match_close(masked_body, o)))
    return res
