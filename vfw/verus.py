"""Verus back end, part 2: run `verus` on a generated file and map diagnostics to named obligations."""
import json
import os
import re
import subprocess
import time

from . import extract
from .rsrc import LostAnchor
from .tree import VERIF, WORK

VWORK = os.path.join(WORK, "verus")


class Obligation:
    def __init__(self, oid, kind, text=""):
        self.id, self.kind, self.text = oid, kind, text
        self.status = "discharged"
        self.detail = ""


class UnitResult:
    def __init__(self, name):
        self.name = name
        self.unit = name
        self.status = "undecided"    # ok | failed | undecided
        self.reason = ""
        self.obligations = []        # named clauses + implicit obligations that failed
        self.failed = []             # [Obligation]
        self.verified_fns = 0
        self.smt_ms = 0
        self.total_ms = 0
        self.fn_times = []
        self.gen = None
        self.canary = None           # None | "rejected" | "ACCEPTED:<fn>"
        self.file = ""
        self.raw_errors = []
        self.props = []


def run_verus(path, seed=None, timeout=300, rlimit=None):
    cmd = ["verus", path, "--triggers-mode", "silent", "--output-json", "--time", "--error-format=json",
           "--num-threads", "4"]
    if rlimit:
        cmd += ["--rlimit", str(rlimit)]
    if seed is not None:
        cmd += ["--smt-option", "smt.random_seed=%d" % (int(seed) % 100000), "--smt-option", "sat.random_seed=%d" % (int(seed) % 100000)]
    t0 = time.time()
    try:
        p = subprocess.run(cmd, capture_output=True, text=True, timeout=timeout, cwd=os.path.dirname(path))
    except subprocess.TimeoutExpired:
        return None, [], "timeout", time.time() - t0, " ".join(cmd)
    js = None
    try:
        js = json.loads(p.stdout)
    except Exception:
        m = re.search(r"\{.*\}\s*$", p.stdout, re.S)
        if m:
            try:
                js = json.loads(m.group(0))
            except Exception:
                js = None
    diags = []
    for ln in p.stderr.splitlines():
        ln = ln.strip()
        if ln.startswith("{"):
            try:
                diags.append(json.loads(ln))
            except Exception:
                pass
    return js, diags, p.stderr if js is None else "", time.time() - t0, " ".join(cmd)


_TOOL_LIMIT = re.compile(r"not supported|unsupported|does not (yet )?support|Verus does not|The verifier does not yet|"
                         r"cannot find|unresolved|mismatched types|expected .* found|no method named|no field|"
                         r"is not yet supported|resource limit|rlimit|internal error|panicked", re.I)


def classify(diags, gen):
    """-> (failed obligations, tool_errors).  A diagnostic is a *proof failure* when it is one of
    Verus' verification-condition messages; rustc/VIR errors are tool limits (unsupported construct)."""
    failed, tool = [], []
    for d in diags:
        if d.get("level") != "error":
            continue
        msg = d.get("message", "")
        if msg.startswith("aborting due to"):
            continue
        spans = d.get("spans", [])
        vc = re.search(r"postcondition not satisfied|precondition not satisfied|invariant not satisfied|"
                       r"possible arithmetic underflow/overflow|assertion failed|possible division by zero|"
                       r"decreases not satisfied|could not prove termination|index out of bounds|"
                       r"possible bit shift underflow/overflow|loop invariant|recommendation not met|"
                       r"cannot show invariant holds|possible truncation|attempt to|unreachable_unchecked|"
                       r"value may be out of range|ensures not satisfied|may be out of range|"
                       r"function body check|while loop: not all errors may have been reported",
                       msg, re.I)
        if re.search(r"cannot be invariant_except_break|unless #\[verifier|is not allowed|not supported", msg, re.I):
            tool.append(msg)
            continue
        if re.search(r"resource limit|rlimit", msg, re.I):
            tool.append("rlimit: " + msg)
            continue
        if not vc:
            tool.append(msg + (" @ line %d" % spans[0]["line_start"] if spans else ""))
            continue
        if "not all errors may have been reported" in msg:
            continue
        cid = None
        prim = None
        for sp in spans:
            if sp.get("is_primary"):
                prim = sp
        prim = prim or (spans[0] if spans else None)
        # the clause is named by the primary span ("failed this postcondition" / the invariant
        # itself); otherwise by a single-line secondary span that sits on a clause line
        for sp in ([prim] if prim else []) + [x for x in spans if x is not prim and x["line_start"] == x["line_end"]]:
            for ln in range(sp["line_start"], sp["line_end"] + 1):
                if ln in gen.line_clause and cid is None:
                    cid = gen.line_clause[ln]
        where = ""
        fn_disp = ""
        if prim:
            ln = prim["line_start"]
            txt = " ".join(t["text"].strip() for t in prim.get("text", []))[:120]
            for f, (a, b) in gen.fn_lines.items():
                if a <= ln <= b:
                    fn_disp = f
            where = "%s `%s`" % (fn_disp, txt)
        if cid:
            ob = Obligation(cid, "clause")
        else:
            kind = re.sub(r"[^a-z]+", "_", msg.lower()).strip("_")[:40]
            expr = ""
            if prim:
                expr = re.sub(r"\s+", "", " ".join(t["text"][t["highlight_start"] - 1:t["highlight_end"] - 1] for t in prim.get("text", [])))[:60]
            short = re.sub(r"^.*fn\s+", "", fn_disp).strip() or "?"
            kind = kind.replace("possible_arithmetic_underflow_overflow", "arith_overflow").replace("precondition_not_satisfied", "precondition")
            ob = Obligation("%s.implicit.%s@%s" % (short, kind, expr), "implicit")
        ob.status = "failed"
        ob.detail = "%s: %s" % (msg, where)
        ob.rendered = d.get("rendered", "")
        failed.append(ob)
    return failed, tool


def check_unit(template, tree, seed=None, canary=True, tag=""):
    name = os.path.splitext(os.path.basename(template))[0]
    res = UnitResult(name)
    os.makedirs(VWORK, exist_ok=True)
    head = open(template).read(3000)
    mu = re.search(r"^//@ unit:\s*(\S+)", head, re.M)
    mp = re.search(r"^//@ props:(.*)$", head, re.M)
    if mu:
        res.unit = mu.group(1)
    if mp:
        res.props = mp.group(1).split()
    try:
        gen = extract.expand(template, tree)
    except LostAnchor as e:
        res.reason = "lost anchor: %s" % e
        return res
    except extract.SpecError as e:
        res.reason = "spec error: %s" % e
        return res
    res.gen = gen
    if re.search(r"\b(assume|admit)\s*\(", gen.text):
        res.reason = "contract file contains assume(/admit( : refused (DESIGN 1.5)"
        return res
    res.unit = gen.meta.get("unit") or name
    res.props = gen.meta.get("props", [])
    tag = tag.replace(".", "_")
    path = os.path.join(VWORK, "%s%s.rs" % (name, tag))
    with open(path, "w") as fh:
        fh.write(gen.text)
    res.file = path
    js, diags, err, wall, cmd = run_verus(path, seed=seed)
    res.cmd = cmd
    if js is None:
        res.reason = "verus produced no result: " + (err or "")[-400:]
        return res
    vr = js.get("verification-results", {})
    res.verified_fns = vr.get("verified", 0)
    tm = js.get("times-ms", {})
    res.total_ms = tm.get("total", 0)
    res.smt_ms = tm.get("smt", {}).get("total", 0)
    try:
        for mt in tm["smt"]["smt-run-module-times"]:
            for fb in mt.get("function-breakdown", []):
                res.fn_times.append((fb["function"], fb.get("time-micros", 0) / 1000.0, fb.get("success")))
    except Exception:
        pass
    failed, tool = classify(diags, gen)
    res.raw_errors = [d.get("rendered", d.get("message", "")) for d in diags if d.get("level") == "error"]
    named = [Obligation("%s.%s" % (res.unit, cid), kind, expr) for cid, kind, expr in gen.clauses if kind != "requires"]
    res.obligations = named
    if tool:
        res.status, res.reason = "undecided", "unsupported construct / tool error: " + "; ".join(tool)[:600]
        return res
    if failed:
        res.status = "failed"
        for ob in failed:
            ob.id = "%s.%s" % (res.unit, ob.id)
            for n in named:
                if n.id == ob.id:
                    n.status = "failed"
                    n.detail = ob.detail
        res.failed = failed
        return res
    if not vr.get("success"):
        res.status, res.reason = "undecided", "verus reported failure without diagnostics"
        return res
    if res.verified_fns == 0:
        res.status, res.reason = "undecided", "vacuous: zero functions verified"
        return res
    res.status = "ok"
    if canary and gen.canary_fns:
        from concurrent.futures import ThreadPoolExecutor

        def one(idx_fn):
            idx, fn = idx_fn
            ctext = extract.make_canary(gen, only=fn)
            cpath = os.path.join(VWORK, "%s%s_canary%d.rs" % (name, tag, idx))
            with open(cpath, "w") as fh:
                fh.write(ctext)
            cj, cd, cerr, cwall, _ = run_verus(cpath)
            clines = [n for n, ln in enumerate(ctext.split("\n"), 1) if "/*@@CANARY*/" in ln]
            hit = False
            for d in cd:
                if d.get("level") != "error":
                    continue
                for sp in d.get("spans", []):
                    if sp["line_start"] in clines:
                        hit = True
            try:
                os.unlink(cpath)
            except OSError:
                pass
            return fn, hit, (cj or {}).get("times-ms", {}).get("total", 0)

        with ThreadPoolExecutor(max_workers=6) as ex:
            outs = list(ex.map(one, enumerate(gen.canary_fns)))
        res.total_ms += sum(o[2] for o in outs)
        bad = [o[0] for o in outs if not o[1]]
        if not bad:
            res.canary = "rejected %d/%d" % (len(outs), len(outs))
        else:
            res.canary = "ACCEPTED"
            res.status = "undecided"
            res.reason = "vacuity guard: `ensures false` canary accepted for %s: contradictory precondition or assumed contract" % ", ".join(bad)
    return res
