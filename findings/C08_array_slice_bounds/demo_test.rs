// Appended to src/debugger/variable/value/mod.rs in a scratch worktree; run with
//   cargo test --offline --lib verif_replay_c08_slice
// Before the fix: `range end index 4 out of range for slice of length 3` and `attempt to subtract with overflow`; after: all pass.
#[cfg(test)]
mod verif_replay_c08_slice {
    use super::*;

    fn arr(n: i64) -> ArrayValue {
        ArrayValue {
            type_ident: TypeIdentity::no_namespace("[i32]"),
            type_id: None,
            items: Some(
                (0..n)
                    .map(|i| ArrayItem {
                        index: i,
                        value: Value::Scalar(ScalarValue {
                            type_ident: TypeIdentity::no_namespace("i32"),
                            type_id: None,
                            value: Some(SupportedScalar::I32(i as i32)),
                            raw_address: None,
                        }),
                    })
                    .collect(),
            ),
            raw_address: None,
        }
    }

    fn idx(a: &ArrayValue) -> Vec<i64> {
        a.items.as_ref().unwrap().iter().map(|i| i.index).collect()
    }

    #[test]
    fn in_range_slice_is_l_to_r_minus_1() {
        let mut a = arr(5);
        a.slice(Some(1), Some(3));
        assert_eq!(idx(&a), vec![1, 2]);
    }

    #[test]
    fn left_bound_beyond_len_does_not_panic() {
        // `var arr[4..]` on a 3-element array
        let mut a = arr(3);
        a.slice(Some(4), None);
        assert_eq!(idx(&a), Vec::<i64>::new());
    }

    #[test]
    fn right_less_than_left_does_not_panic() {
        // `var arr[2..1]`
        let mut a = arr(3);
        a.slice(Some(2), Some(1));
        assert_eq!(idx(&a), Vec::<i64>::new());
    }
}
