// Appended to src/ui/command/parser/mod.rs in a scratch worktree; run with
//   cargo test --offline --lib verif_replay_c08_numbers
// Before the fix the parser panics on all 13 command lines (Result::unwrap on ParseIntError / `attempt to negate with overflow`); after it they are parse errors.

#[cfg(test)]
mod verif_replay_c08_numbers {
    use super::*;

    /// every one of these command lines must be answered with a parse error (or a command), never a panic
    #[test]
    fn out_of_range_numbers_are_errors_not_panics() {
        let inputs = [
            "break 0x11111111111111111",            // 17 hex digits
            "break main.rs:99999999999999999999999", // > u64::MAX
            "break remove 4294967296",              // > u32::MAX
            "source 99999999999999999999999",
            "watch remove 4294967296",
            "thread switch 4294967296",
            "frame switch 4294967296",
            "trigger b 4294967296",
            "trigger w 4294967296",
            "var x[99999999999999999999999]",
            "var x[-9223372036854775808]",
            "var x[99999999999999999999999..]",
            "var (*mut u8)0x11111111111111111",
        ];
        let mut panicked = vec![];
        for input in inputs {
            let res = std::panic::catch_unwind(|| Command::parse(input).map(|_| ()));
            if res.is_err() {
                panicked.push(input);
            }
        }
        assert!(panicked.is_empty(), "parser panicked on {panicked:?}");
    }

    #[test]
    fn in_range_numbers_still_parse() {
        assert!(Command::parse("break 0xffffffffffffffff").is_ok());
        assert!(Command::parse("break main.rs:18446744073709551615").is_ok());
        assert!(Command::parse("break remove 4294967295").is_ok());
        assert!(Command::parse("var x[-9223372036854775807]").is_ok());
        assert!(Command::parse("var x[1..3]").is_ok());
    }
}
