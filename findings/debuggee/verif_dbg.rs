// Debuggee used by the real-process replays under /verif/findings.  Build: rustc -g -o verif_dbg verif_dbg.rs
use std::collections::VecDeque;
use std::mem::ManuallyDrop;

#[inline(never)]
fn stop_here(n: usize) -> usize {
    println!("stop {n}");
    n + 1
}

#[inline(never)]
fn stop_rec(n: u32) -> u32 {
    println!("deepest {n}");
    n
}

#[inline(never)]
fn rec(n: u32) -> u32 {
    if n == 0 { stop_rec(n) } else { rec(n - 1) + 1 }
}

fn main() {
    let depth = rec(6);
    let arr = [10i32, 20, 30, 40];
    let p: *const i32 = arr.as_ptr();
    let unit = ();
    let pu: *const () = &unit as *const ();

    // a healthy ring buffer whose head is beyond 10 000 (capacity 16384+)
    let mut big: VecDeque<u32> = VecDeque::with_capacity(16000);
    for i in 0..15000u32 {
        big.push_back(i);
    }
    for _ in 0..12000 {
        big.pop_front();
    }
    // logical element 0 is 12000, element 1 is 12001, ...
    let big_front = *big.front().unwrap();

    // a small ring buffer that wraps around: capacity 8, contents [4, 5, 100, 101, 102, 103, 104]
    let mut wrapped: VecDeque<i32> = VecDeque::with_capacity(8);
    for i in 0..6 {
        wrapped.push_back(i);
    }
    for _ in 0..4 {
        wrapped.pop_front();
    }
    for i in 100..105 {
        wrapped.push_back(i);
    }

    // memory holding arbitrary bytes interpreted as a VecDeque: len (2) overwritten with 9999 > capacity (4)
    let mut garbage = ManuallyDrop::new(VecDeque::<i32>::with_capacity(4));
    garbage.push_back(7);
    garbage.push_back(8);
    unsafe {
        let words = &mut *(&mut *garbage as *mut VecDeque<i32> as *mut [usize; 4]);
        for w in words.iter_mut() {
            if *w == 2 {
                *w = 9999;
            }
        }
    }

    // memory holding arbitrary bytes interpreted as a String: len word with the top bit set
    let mut garbage_string = ManuallyDrop::new(String::with_capacity(8));
    garbage_string.push_str("abc");
    unsafe {
        let words = &mut *(&mut *garbage_string as *mut String as *mut [usize; 3]);
        for w in words.iter_mut() {
            if *w == 3 {
                *w = usize::MAX / 2 + 5;
            }
        }
    }

    let k = stop_here(big_front as usize + arr.len());
    println!("{:?} {:?} {} {} {}", p, pu, k, garbage.capacity(), garbage_string.capacity() + wrapped.len() + depth as usize);
}
