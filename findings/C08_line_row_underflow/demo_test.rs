// Appended to src/debugger/debugee/dwarf/unit/mod.rs in a scratch worktree; run with
//   cargo test --offline --lib verif_replay_c08
// Before the fix commits all three tests panic with `attempt to subtract with overflow`; after them they pass.
#[cfg(test)]
mod verif_replay_c08 {
    use super::*;

    fn unit_with_rows(addrs: &[u64]) -> &'static BsUnit {
        // Only `lines` and `files` are initialised: the functions under test touch nothing else.
        let b: Box<std::mem::MaybeUninit<BsUnit>> = Box::new(std::mem::MaybeUninit::zeroed());
        let p = Box::leak(b).as_mut_ptr();
        unsafe {
            std::ptr::addr_of_mut!((*p).files).write(vec![PathBuf::from("a.rs")]);
            std::ptr::addr_of_mut!((*p).lines).write(
                addrs
                    .iter()
                    .map(|a| LineRow { address: *a, file_index: 0, line: 1, column: 0, flags: IS_STMT })
                    .collect(),
            );
            &*p
        }
    }

    #[test]
    fn exact_place_at_first_row() {
        let u = unit_with_rows(&[0x1000, 0x1004]);
        let p = u.find_exact_place_by_pc(GlobalAddress::from(0x1000usize));
        assert_eq!(p.map(|p| p.pos_in_unit), Some(0));
    }

    #[test]
    fn exact_place_duplicates_pick_lowest() {
        let u = unit_with_rows(&[0x1000, 0x1000, 0x1000, 0x1004]);
        let p = u.find_exact_place_by_pc(GlobalAddress::from(0x1000usize));
        assert_eq!(p.map(|p| p.pos_in_unit), Some(0));
        let p = u.find_exact_place_by_pc(GlobalAddress::from(0x1004usize));
        assert_eq!(p.map(|p| p.pos_in_unit), Some(3));
    }

    #[test]
    fn prev_of_first_row_is_none() {
        let u = unit_with_rows(&[0x1000, 0x1004]);
        let first = u.find_place_by_idx(0).unwrap();
        assert!(first.prev().is_none());
    }
}
