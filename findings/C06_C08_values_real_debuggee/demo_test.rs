// Appended to tests/debugger/main.rs in a scratch worktree; debuggee = /verif/findings/debuggee/verif_dbg.rs built with
//   rustc -g -o /tmp/verif_dbg /verif/findings/debuggee/verif_dbg.rs
// run with:  cargo test --offline --test debugger verif_replay_values
// Before the fix commits (real process, real DWARF):
//   pointer_slice_right_less_than_left : panic `attempt to subtract with overflow` (value/mod.rs PointerValue::slice)
//   pointer_slice_of_zst               : panic `chunk size must be non-zero`
//   garbage_vecdeque_does_not_crash    : panic `range end index 20 out of range for slice of length 16`
//   garbage_string_does_not_crash      : panic `capacity overflow` (Vec::with_capacity in read_memory_by_pid)
//   big_vecdeque_shows_real_elements   : element 0 rendered as U32(2000), the program holds 12000
// After them all six tests pass.

mod verif_replay_values {
    use super::*;
    use bugstalker::debugger::variable::dqe::{Dqe, Selector};
    use bugstalker::debugger::variable::value::{SpecializedValue, SupportedScalar, Value};

    const DBG: &str = "/tmp/verif_dbg";

    fn at_stop() -> (bugstalker::debugger::Debugger, nix::unistd::Pid) {
        let process = prepare_debugee_process(DBG, &[]);
        let pid = process.pid();
        let builder = DebuggerBuilder::new().with_hooks(TestHooks::default());
        let mut debugger = builder.build(process).unwrap();
        debugger.set_breakpoint_at_fn("stop_here").unwrap();
        debugger.start_debugee().unwrap();
        // go to the caller's frame: main
        debugger.set_frame_into_focus(1).unwrap();
        (debugger, pid)
    }

    fn var(name: &str) -> Dqe {
        Dqe::Variable(Selector::by_name(name, true))
    }

    /// C08: `var p[3..1]` on a raw pointer
    #[test]
    #[serial]
    fn pointer_slice_right_less_than_left() {
        let (debugger, _pid) = at_stop();
        let r = debugger.read_variable(Dqe::Slice(var("p").boxed(), Some(3), Some(1)));
        assert!(r.is_ok());
    }

    /// C08: `var pu[0..2]` on a pointer to a zero-sized type
    #[test]
    #[serial]
    fn pointer_slice_of_zst() {
        let (debugger, _pid) = at_stop();
        let r = debugger.read_variable(Dqe::Slice(var("pu").boxed(), Some(0), Some(2)));
        assert!(r.is_ok());
    }

    /// C08: memory holding arbitrary bytes interpreted as a VecDeque (len 9999 > capacity 4)
    #[test]
    #[serial]
    fn garbage_vecdeque_does_not_crash() {
        let (debugger, _pid) = at_stop();
        let r = debugger.read_variable(var("garbage"));
        assert!(r.is_ok());
    }

    /// C08: memory holding arbitrary bytes interpreted as a String (length with the top bit set)
    #[test]
    #[serial]
    fn garbage_string_does_not_crash() {
        let (debugger, _pid) = at_stop();
        let r = debugger.read_variable(var("garbage_string"));
        assert!(r.is_ok());
    }

    fn deque_items(debugger: &bugstalker::debugger::Debugger, name: &str) -> Vec<SupportedScalar> {
        let r = debugger.read_variable(var(name)).unwrap();
        assert_eq!(r.len(), 1);
        let Value::Specialized { value: Some(SpecializedValue::VecDeque(v)), .. } = r[0].value() else {
            panic!("not a VecDeque");
        };
        let Value::Array(buf) = &v.structure.members[0].value else { panic!("no buf") };
        buf.items
            .as_ref()
            .unwrap()
            .iter()
            .map(|it| {
                let Value::Scalar(s) = &it.value else { panic!("not scalar") };
                s.value.clone().unwrap()
            })
            .collect()
    }

    /// C06: a small VecDeque that wraps around shows its elements in logical order
    #[test]
    #[serial]
    fn wrapped_vecdeque_shows_real_elements() {
        let (debugger, _pid) = at_stop();
        let got = deque_items(&debugger, "wrapped");
        let want: Vec<_> = [4, 5, 100, 101, 102, 103, 104].into_iter().map(SupportedScalar::I32).collect();
        assert_eq!(got, want);
    }

    /// C06: a VecDeque whose head index is beyond 10 000 shows its real elements
    #[test]
    #[serial]
    fn big_vecdeque_shows_real_elements() {
        let (debugger, _pid) = at_stop();
        let r = debugger.read_variable(var("big")).unwrap();
        assert_eq!(r.len(), 1);
        let Value::Specialized { value: Some(SpecializedValue::VecDeque(v)), .. } = r[0].value() else {
            panic!("not a VecDeque");
        };
        let Value::Array(buf) = &v.structure.members[0].value else { panic!("no buf") };
        let items = buf.items.as_ref().unwrap();
        assert_eq!(items.len(), 3000);
        let Value::Scalar(first) = &items[0].value else { panic!("not scalar") };
        assert_eq!(first.value, Some(SupportedScalar::U32(12000)), "element 0 of the deque is 12000 in the program");
    }
}
