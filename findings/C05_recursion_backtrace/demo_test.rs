// Appended to tests/debugger/main.rs in a scratch worktree; debuggee = /verif/findings/debuggee/verif_dbg.rs built with
//   rustc -g -o /tmp/verif_dbg /verif/findings/debuggee/verif_dbg.rs
// run with:  cargo test --offline --test debugger verif_replay_backtrace
// Before the fix: backtrace at depth 7 of `rec` is ["verif_dbg::stop_rec", "verif_dbg::rec", "verif_dbg::rec"] (2 of 7 activations, no main).
// After the fix: all seven activations and main.

mod verif_replay_backtrace {
    use super::*;

    /// C05: the backtrace of a recursive call chain lists every activation
    #[test]
    #[serial]
    fn recursion_backtrace_is_complete() {
        let process = prepare_debugee_process("/tmp/verif_dbg", &[]);
        let builder = DebuggerBuilder::new().with_hooks(TestHooks::default());
        let mut debugger = builder.build(process).unwrap();
        debugger.set_breakpoint_at_fn("stop_rec").unwrap();
        debugger.start_debugee().unwrap();
        let pid = debugger.ecx().pid_on_focus();
        let bt = debugger.backtrace(pid).unwrap();
        let names: Vec<String> = bt.iter().map(|f| f.func_name.clone().unwrap_or_default()).collect();
        let rec_frames = names.iter().filter(|n| n.ends_with("::rec")).count();
        // rec(6) -> rec(5) -> ... -> rec(0) -> stop_rec : seven activations of `rec`
        assert_eq!(rec_frames, 7, "backtrace: {names:?}");
        assert!(names.iter().any(|n| n.ends_with("::main")), "backtrace: {names:?}");
    }
}
