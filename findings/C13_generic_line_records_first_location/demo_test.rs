// ---- shared harness (copied into each demo) ----
#[allow(dead_code)]
#[path = "../dap/dap_client.rs"]
mod dap_client;

use dap_client::DapClient;
use serde_json::{Value, json};
use std::net::TcpListener;
use std::path::{Path, PathBuf};
use std::process::{Child, Command, Stdio};
use std::time::Duration;

const PROG_SRC: &str = r#"use std::hint::black_box;

#[inline(never)]
fn work(i: i64) -> i64 {
    let doubled = i * 2;
    black_box(doubled) + 1
}

#[inline(never)]
fn show<T: std::fmt::Debug>(v: T) -> usize {
    let s = format!("{:?}", v);
    s.len()
}

#[inline(never)]
fn tail(x: i64) -> i64 {
    black_box(x) - 1
}

fn main() {
    let mut acc = 0i64;
    let limit = black_box(4i64);
    let mut i = -2i64;
    while i < limit {
        acc += work(i);
        i += 1;
    }
    acc += show(1u8) as i64;
    acc += show("abc") as i64;
    acc += show(2.5f64) as i64;
    acc += tail(acc);
    println!("{acc}");
}
"#;

#[allow(dead_code)]
const LINE_WORK_BODY: i64 = 5; // let doubled = i * 2;
#[allow(dead_code)]
const LINE_WORK_RET: i64 = 6; // black_box(doubled) + 1
#[allow(dead_code)]
const LINE_SHOW_BODY: i64 = 11; // let s = format!(..)
#[allow(dead_code)]
const LINE_TAIL_BODY: i64 = 17; // black_box(x) - 1
#[allow(dead_code)]
const LINE_MAIN_I: i64 = 23; // let mut i = -2i64;  (runs once; `work` is then called with -2..=3)

#[allow(dead_code)]
struct Session {
    client: DapClient,
    process: Child,
    src: PathBuf,
    bin: PathBuf,
}

impl Drop for Session {
    fn drop(&mut self) {
        let _ = self
            .client
            .send_request("disconnect", json!({"terminateDebuggee": true}));
        std::thread::sleep(Duration::from_millis(200));
        let _ = self.process.kill();
        let _ = self.process.wait();
    }
}

fn build_debuggee(tag: &str) -> (PathBuf, PathBuf) {
    let dir = std::env::temp_dir().join(format!("c13_demo_{}_{}", tag, std::process::id()));
    std::fs::create_dir_all(&dir).unwrap();
    let src = dir.join("c13prog.rs");
    std::fs::write(&src, PROG_SRC).unwrap();
    let bin = dir.join("c13prog");
    let status = Command::new("rustc")
        .args(["-g", "-C", "opt-level=0", "-o"])
        .arg(&bin)
        .arg(&src)
        .status()
        .expect("run rustc");
    assert!(status.success(), "rustc failed");
    (src, bin)
}

#[allow(dead_code)]
impl Session {
    fn start(tag: &str) -> Session {
        let (src, bin) = build_debuggee(tag);
        let listener = TcpListener::bind("127.0.0.1:0").unwrap();
        let addr = listener.local_addr().unwrap();
        drop(listener);
        let bs = std::env::var("CARGO_BIN_EXE_bs")
            .map(PathBuf::from)
            .unwrap_or_else(|_| Path::new(env!("CARGO_MANIFEST_DIR")).join("target/debug/bs"));
        let process = Command::new(bs)
            .args(["--dap-remote", &addr.to_string(), "--dap-oneshot"])
            .stdin(Stdio::null())
            .stdout(Stdio::null())
            .stderr(Stdio::null())
            .spawn()
            .expect("spawn bs");
        // the machine may be busy: `DapClient::connect` gives up after 3s, retry for a while
        let t0 = std::time::Instant::now();
        let client = loop {
            match DapClient::connect(addr) {
                Ok(c) => break c,
                Err(e) if t0.elapsed() > Duration::from_secs(60) => panic!("connect: {e}"),
                Err(_) => continue,
            }
        };
        let mut s = Session {
            client,
            process,
            src,
            bin,
        };
        let r = s.request("initialize", json!({"adapterID": "bugstalker"}));
        assert_eq!(r["success"], true);
        s.client.wait_for_event("initialized").unwrap();
        let bin = s.bin.clone();
        let r = s.request("launch", json!({"program": bin}));
        assert_eq!(r["success"], true, "launch: {r}");
        s
    }

    fn request(&mut self, cmd: &str, args: Value) -> Value {
        let seq = self.client.send_request(cmd, args).unwrap();
        self.client.read_response(seq).unwrap()
    }

    fn set_line_bps(&mut self, bps: Value) -> Value {
        let src = self.src.clone();
        let r = self.request(
            "setBreakpoints",
            json!({"source": {"path": src}, "breakpoints": bps}),
        );
        assert_eq!(r["success"], true, "setBreakpoints: {r}");
        r["body"]["breakpoints"].clone()
    }

    fn set_fn_bps(&mut self, bps: Value) -> Value {
        let r = self.request("setFunctionBreakpoints", json!({"breakpoints": bps}));
        assert_eq!(r["success"], true, "setFunctionBreakpoints: {r}");
        r["body"]["breakpoints"].clone()
    }

    fn set_insn_bps(&mut self, bps: Value) -> Value {
        let r = self.request("setInstructionBreakpoints", json!({"breakpoints": bps}));
        assert_eq!(r["success"], true, "setInstructionBreakpoints: {r}");
        r["body"]["breakpoints"].clone()
    }

    fn set_data_bps(&mut self, bps: Value) -> Value {
        let r = self.request("setDataBreakpoints", json!({"breakpoints": bps}));
        assert_eq!(r["success"], true, "setDataBreakpoints: {r}");
        r["body"]["breakpoints"].clone()
    }

    /// Start the program and stop it in `main` (line LINE_MAIN_I) with a breakpoint that is set
    /// before the start; everything the demo checks is set afterwards, on the running program.
    fn start_in_main(tag: &str) -> Session {
        let mut s = Session::start(tag);
        let bps = s.set_line_bps(json!([{"line": LINE_MAIN_I}]));
        assert_eq!(bps[0]["verified"], true, "{bps}");
        let mut logs = vec![];
        let (what, line, _) = s.configuration_done(&mut logs);
        assert_eq!((what.as_str(), line), ("stopped:breakpoint", LINE_MAIN_I));
        s
    }

    /// Wait for the next `stopped`/`exited`/`terminated` event; collect console `output` seen meanwhile.
    /// Returns ("stopped:<reason>", line, function name) or ("exited", 0, "").
    fn wait_stop(&mut self, logs: &mut Vec<String>) -> (String, i64, String) {
        loop {
            let ev = self.client.read_event().expect("event");
            match ev["event"].as_str().unwrap_or("") {
                "output" => {
                    if ev["body"]["category"] == "console" {
                        logs.push(ev["body"]["output"].as_str().unwrap_or("").to_string());
                    }
                }
                "stopped" => {
                    let reason = ev["body"]["reason"].as_str().unwrap_or("").to_string();
                    let tid = ev["body"]["threadId"].as_i64().unwrap_or(0);
                    let st = self.request("stackTrace", json!({"threadId": tid, "levels": 1}));
                    let f = &st["body"]["stackFrames"][0];
                    return (
                        format!("stopped:{reason}"),
                        f["line"].as_i64().unwrap_or(-1),
                        f["name"].as_str().unwrap_or("").to_string(),
                    );
                }
                "exited" | "terminated" => return ("exited".to_string(), 0, String::new()),
                _ => {}
            }
        }
    }

    fn configuration_done(&mut self, logs: &mut Vec<String>) -> (String, i64, String) {
        let r = self.request("configurationDone", json!({}));
        assert_eq!(r["success"], true, "configurationDone: {r}");
        self.wait_stop(logs)
    }

    fn cont(&mut self, logs: &mut Vec<String>) -> (String, i64, String) {
        let r = self.request("continue", json!({"threadId": 0}));
        assert_eq!(r["success"], true, "continue: {r}");
        self.wait_stop(logs)
    }

    /// Continue until the program exits; return the list of lines where it stopped.
    fn run_to_exit(&mut self, logs: &mut Vec<String>) -> Vec<i64> {
        let mut lines = vec![];
        for _ in 0..64 {
            let (what, line, _) = self.cont(logs);
            if what == "exited" {
                return lines;
            }
            lines.push(line);
        }
        panic!("program did not exit, stops so far: {lines:?}");
    }
}
// ---- end of harness ----

/// A function breakpoint on a generic function (three instantiations) that is a logpoint:
/// every instantiation logs, none of them stops.
#[test]
fn logpoint_on_generic_function_never_stops() {
    let mut s = Session::start_in_main("fnbp_log");
    let bps = s.set_fn_bps(json!([{"name": "show", "logMessage": "in show"}]));
    assert_eq!(bps[0]["verified"], true, "{bps}");
    let bps = s.set_line_bps(json!([{"line": LINE_TAIL_BODY}]));
    assert_eq!(bps[0]["verified"], true, "{bps}");

    let mut logs = vec![];
    let (what, line, func) = s.cont(&mut logs);
    assert_eq!(
        (what.as_str(), line),
        ("stopped:breakpoint", LINE_TAIL_BODY),
        "the logpoint stopped the program in {func}; logs so far {logs:?}"
    );
    let n = logs.iter().filter(|l| l.contains("in show")).count();
    assert_eq!(n, 3, "one log line per call of show: {logs:?}");
}

/// setFunctionBreakpoints replaces the previous set: after an empty set the program
/// does not stop in any instantiation of the generic function.
#[test]
fn empty_function_breakpoint_set_removes_all_instantiations() {
    let mut s = Session::start_in_main("fnbp_clear");
    let bps = s.set_fn_bps(json!([{"name": "show"}]));
    assert_eq!(bps[0]["verified"], true, "{bps}");
    let bps = s.set_fn_bps(json!([]));
    assert_eq!(bps.as_array().map(|a| a.len()), Some(0));

    let mut logs = vec![];
    let stops = s.run_to_exit(&mut logs);
    assert_eq!(stops, Vec::<i64>::new(), "no breakpoint is set any more");
}

/// The same for a SOURCE LINE inside a generic function (one location per instantiation):
/// after an empty setBreakpoints for the file the program does not stop at any instantiation.
#[test]
fn empty_source_breakpoint_set_removes_all_instantiations() {
    let mut s = Session::start_in_main("srcbp_clear");
    let bps = s.set_line_bps(json!([{"line": LINE_SHOW_BODY}]));
    assert_eq!(bps[0]["verified"], true, "{bps}");
    let bps = s.set_line_bps(json!([]));
    assert_eq!(bps.as_array().map(|a| a.len()), Some(0));

    let mut logs = vec![];
    let stops = s.run_to_exit(&mut logs);
    assert_eq!(stops, Vec::<i64>::new(), "no breakpoint is set any more");
}

/// A logpoint on a source line inside a generic function logs at every instantiation and never stops.
#[test]
fn logpoint_on_generic_line_never_stops() {
    let mut s = Session::start_in_main("srcbp_log");
    let bps = s.set_line_bps(json!([{"line": LINE_SHOW_BODY, "logMessage": "in show"}, {"line": LINE_TAIL_BODY}]));
    assert_eq!(bps[0]["verified"], true, "{bps}");

    let mut logs = vec![];
    let (what, line, func) = s.cont(&mut logs);
    assert_eq!(
        (what.as_str(), line),
        ("stopped:breakpoint", LINE_TAIL_BODY),
        "the logpoint stopped the program in {func}; logs so far {logs:?}"
    );
    let n = logs.iter().filter(|l| l.contains("in show")).count();
    assert_eq!(n, 3, "one log line per call of show: {logs:?}");
}
