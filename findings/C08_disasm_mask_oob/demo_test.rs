// Appended to tests/debugger/main.rs in a scratch worktree (real debuggee: examples/target/debug/hello_world); run with
//   cargo test --offline --test debugger verif_replay_disasm
// Before the fix: panic `index out of bounds: the len is 85 but the index is 85` at src/debugger/debugee/disasm.rs:81; after: passes.
/// A breakpoint on the first instruction of the function that immediately follows the function in
/// focus (its address equals the `end_instruction()` of the function in focus) must not break
/// disassembly.  140 of the 561 functions of hello_world are directly followed by another one.
#[test]
#[serial]
fn verif_replay_disasm_brkpt_at_function_end() {
    use bugstalker::debugger::address::RelocatedAddress;
    use object::{Object, ObjectSymbol};
    let data = std::fs::read(HW_APP).unwrap();
    let obj = object::File::parse(&*data).unwrap();
    let mut syms: Vec<(u64, u64, String)> = obj
        .symbols()
        .filter(|s| s.kind() == object::SymbolKind::Text && s.size() > 0)
        .map(|s| (s.address(), s.size(), s.name().unwrap_or("").to_string()))
        .collect();
    syms.sort();
    let pairs: Vec<_> = syms
        .windows(2)
        .filter(|w| w[0].0 + w[0].1 == w[1].0)
        .map(|w| (w[0].clone(), w[1].clone()))
        .collect();
    assert!(!pairs.is_empty());

    let mut exercised = 0;
    for (a, b) in pairs {
        let process = prepare_debugee_process(HW_APP, &[]);
        let builder = DebuggerBuilder::new().with_hooks(TestHooks::default());
        let mut debugger = builder.build(process).unwrap();
        debugger.set_breakpoint_at_fn("main").unwrap();
        debugger.start_debugee().unwrap();
        let loc = debugger.ecx().location();
        let offset = loc.pc.as_usize() - usize::from(loc.global_pc);
        let a_start = RelocatedAddress::from(a.0 as usize + offset);
        let b_start = RelocatedAddress::from(b.0 as usize + offset);
        if debugger.set_breakpoint_at_addr(a_start).is_err() {
            continue;
        }
        if debugger.continue_debugee().is_err() {
            continue;
        }
        if debugger.ecx().location().pc != a_start {
            continue; // function A is not executed by this program
        }
        if debugger.set_breakpoint_at_addr(b_start).is_err() {
            continue;
        }
        // stopped at the first instruction of A, with an active breakpoint at A's end address
        let fn_assembly = debugger.disasm().expect("disassembly of the function in focus");
        assert!(!fn_assembly.instructions.is_empty());
        eprintln!("exercised: {} followed by {}", a.2, b.2);
        exercised += 1;
        break;
    }
    assert!(exercised > 0, "no adjacent pair was reachable");
}
