//! C12 demonstration: every request gets exactly one response, also a `continue`
//! that cannot be carried out (no debuggee yet / debuggee gone).
//!
//! The session is driven in-process through a scripted `DapTransport`; every
//! message the adapter writes is recorded in wire order, interleaved with a
//! marker for every request the adapter reads.

use bugstalker::dap::transport::DapTransport;
use bugstalker::dap::yadap::session::DebugSession;
use serde_json::{Value, json};
use serial_test::serial;
use std::collections::VecDeque;
use std::sync::{Arc, Mutex};

struct Script {
    incoming: VecDeque<Value>,
    wire: Arc<Mutex<Vec<Value>>>,
}

impl DapTransport for Script {
    fn read_message(&mut self) -> anyhow::Result<Value> {
        let msg = self
            .incoming
            .pop_front()
            .ok_or_else(|| anyhow::anyhow!("DAP connection closed"))?;
        self.wire.lock().unwrap().push(json!({
            "type": "request_read",
            "seq": msg["seq"],
            "command": msg["command"],
        }));
        Ok(msg)
    }

    fn write_message(&mut self, message: &Value) -> anyhow::Result<()> {
        self.wire.lock().unwrap().push(message.clone());
        Ok(())
    }
}

fn run_script(reqs: Vec<(&str, Value)>) -> Vec<Value> {
    let wire = Arc::new(Mutex::new(Vec::new()));
    let incoming = reqs
        .into_iter()
        .enumerate()
        .map(|(i, (command, arguments))| {
            json!({
                "seq": i as i64 + 1,
                "type": "request",
                "command": command,
                "arguments": arguments,
            })
        })
        .collect();
    let transport = Script {
        incoming,
        wire: wire.clone(),
    };
    // The script ends with EOF, so `run` returns an error; that is expected.
    let _ = DebugSession::new(Arc::new(Mutex::new(transport))).run(vec![]);
    std::thread::sleep(std::time::Duration::from_millis(200));
    let out = wire.lock().unwrap().clone();
    out
}

fn dump(wire: &[Value]) -> String {
    wire.iter()
        .map(|m| {
            let mut s = m.to_string();
            s.truncate(160);
            format!("    {s}\n")
        })
        .collect()
}

/// Every request that was read must be answered by exactly one response that
/// carries its `seq` as `request_seq` and its `command`.
fn check_one_response_per_request(wire: &[Value]) {
    for req in wire.iter().filter(|m| m["type"] == "request_read") {
        let responses: Vec<&Value> = wire
            .iter()
            .filter(|m| m["type"] == "response" && m["request_seq"] == req["seq"])
            .collect();
        assert_eq!(
            responses.len(),
            1,
            "request {} (`{}`) got {} responses: {:?}\n{}",
            req["seq"],
            req["command"].as_str().unwrap_or("?"),
            responses.len(),
            responses,
            dump(wire)
        );
        assert_eq!(responses[0]["command"], req["command"], "\n{}", dump(wire));
    }
    let n_req = wire.iter().filter(|m| m["type"] == "request_read").count();
    let n_rsp = wire.iter().filter(|m| m["type"] == "response").count();
    assert_eq!(n_req, n_rsp, "\n{}", dump(wire));
}

fn response_for(wire: &[Value], request_seq: i64) -> Value {
    wire.iter()
        .find(|m| m["type"] == "response" && m["request_seq"] == request_seq)
        .cloned()
        .unwrap_or(Value::Null)
}


/// `continue` before any launch: there is nothing to continue, the request must fail with ONE error response.
#[test]
#[serial]
fn continue_without_debuggee_is_answered_once() {
    let wire = run_script(vec![
        ("initialize", json!({})),
        ("continue", json!({ "threadId": 1 })),
        ("threads", json!({})),
    ]);
    check_one_response_per_request(&wire);
}
