//! C11 demonstration: "restart re-creates the process with all user breakpoints intact so they hit again at the
//! same places" -- also for a breakpoint inside a library that the program loads with dlopen.
//!
//! The debugee and the library are compiled by the test itself with `rustc -g`.

use bugstalker::debugger::address::{Address, RelocatedAddress};
use bugstalker::debugger::process::{Child, Installed};
use bugstalker::debugger::register::debug::BreakCondition;
use bugstalker::debugger::variable::value::Value;
use bugstalker::debugger::{DebuggerBuilder, EventHook, FunctionInfo, PlaceDescriptor, rust};
use nix::sys::signal::Signal;
use nix::unistd::Pid;
use std::cell::RefCell;
use std::io::{BufRead, BufReader};
use std::path::{Path, PathBuf};
use std::process::Command;
use std::rc::Rc;
use std::{fs, thread};

const HOST_SRC: &str = r#"
use std::ffi::{CString, c_char, c_int, c_void};

unsafe extern "C" {
    fn dlopen(filename: *const c_char, flag: c_int) -> *mut c_void;
    fn dlsym(handle: *mut c_void, symbol: *const c_char) -> *mut c_void;
    fn dlclose(handle: *mut c_void) -> c_int;
}

#[inline(never)]
fn marker(step: usize) -> usize {
    let seen = step + 1;
    seen
}

// usage: host <dir> (open:<lib> | call:<lib>:<symbol> | close:<lib> | mark)...
fn main() {
    let args: Vec<String> = std::env::args().collect();
    let dir = args[1].clone();
    let mut handles: std::collections::HashMap<String, *mut c_void> = Default::default();
    let mut acc = 0u64;
    for (step, op) in args[2..].iter().enumerate() {
        let mut parts = op.split(':');
        let cmd = parts.next().unwrap();
        let lib = parts.next().unwrap_or_default();
        match cmd {
            "open" => {
                let path = CString::new(format!("{dir}/{lib}.so")).unwrap();
                let h = unsafe { dlopen(path.as_ptr(), 2) };
                assert!(!h.is_null(), "dlopen {lib}");
                handles.insert(lib.to_string(), h);
            }
            "call" => {
                let sym = CString::new(parts.next().unwrap()).unwrap();
                let f = unsafe { dlsym(handles[lib], sym.as_ptr()) };
                assert!(!f.is_null(), "dlsym {lib}");
                let f: extern "C" fn(u64) -> u64 = unsafe { std::mem::transmute(f) };
                acc += f(step as u64);
            }
            "close" => {
                let h = handles.remove(lib).unwrap();
                assert_eq!(unsafe { dlclose(h) }, 0);
            }
            "mark" => acc += marker(step) as u64,
            _ => panic!("unknown op {op}"),
        }
    }
    println!("acc = {acc}");
}
"#;

/// Source of a tiny `no_std` cdylib, `pad` extra functions make layouts of two libraries differ.
fn lib_src(prefix: &str, pad: usize) -> String {
    let mut src = String::from(
        "#![no_std]\n\n#[panic_handler]\nfn panic(_: &core::panic::PanicInfo) -> ! {\n    loop {}\n}\n\n",
    );
    for i in 0..pad {
        src += &format!(
            "#[unsafe(no_mangle)]\npub extern \"C\" fn {prefix}_pad{i}(x: u64) -> u64 {{\n    x * {} + 1\n}}\n\n",
            i + 3
        );
    }
    src += &format!(
        "#[inline(never)]\nfn {prefix}_inner(v: u64) -> u64 {{\n    let doubled = v * 2;\n    doubled + 1\n}}\n\n\
         #[unsafe(no_mangle)]\npub extern \"C\" fn {prefix}_work(x: u64) -> u64 {{\n    let local = x + 40;\n    {prefix}_inner(local)\n}}\n"
    );
    src
}

fn rustc(args: &[&str], cwd: &Path) {
    let rustc = std::env::var("RUSTC").unwrap_or_else(|_| "rustc".to_string());
    let out = Command::new(rustc)
        .args(["--edition", "2024", "-g"])
        .args(args)
        .current_dir(cwd)
        .output()
        .expect("rustc must be runnable");
    assert!(
        out.status.success(),
        "rustc {args:?} failed: {}",
        String::from_utf8_lossy(&out.stderr)
    );
}

/// Build `host`, `libfirst.so` and `libsecond.so`.
fn build_fixture() -> PathBuf {
    let dir = std::env::temp_dir().join(format!("bs_c11_restart_dlopen_{}", std::process::id()));
    _ = fs::remove_dir_all(&dir);
    fs::create_dir_all(&dir).unwrap();
    fs::write(dir.join("host.rs"), HOST_SRC).unwrap();
    fs::write(dir.join("first.rs"), lib_src("first", 0)).unwrap();
    fs::write(dir.join("second.rs"), lib_src("second", 8)).unwrap();
    rustc(&["-o", "host", "host.rs"], &dir);
    let lib_flags = ["--crate-type", "cdylib", "-C", "panic=abort"];
    rustc(&[&lib_flags[..], &["-o", "libfirst.so", "first.rs"]].concat(), &dir);
    rustc(&[&lib_flags[..], &["-o", "libsecond.so", "second.rs"]].concat(), &dir);
    dir.canonicalize().unwrap()
}

#[derive(Debug, Clone)]
struct Stop {
    pc: RelocatedAddress,
    file: Option<String>,
    line: Option<u64>,
    func: Option<String>,
}

#[derive(Default, Clone)]
struct Stops(Rc<RefCell<Vec<Stop>>>);

struct Hooks(Stops);

impl EventHook for Hooks {
    fn on_breakpoint(
        &self,
        pc: RelocatedAddress,
        _: u32,
        place: Option<PlaceDescriptor>,
        func: Option<&FunctionInfo>,
        _: Option<u32>,
    ) -> anyhow::Result<()> {
        self.0.0.borrow_mut().push(Stop {
            pc,
            file: place
                .as_ref()
                .map(|p| p.file.file_name().unwrap().to_string_lossy().to_string()),
            line: place.map(|p| p.line_number),
            func: func.and_then(|f| f.name.clone()),
        });
        Ok(())
    }

    fn on_watchpoint(
        &self,
        _: RelocatedAddress,
        _: u32,
        _: Option<PlaceDescriptor>,
        _: BreakCondition,
        _: Option<&str>,
        _: Option<&Value>,
        _: Option<&Value>,
        _: bool,
    ) -> anyhow::Result<()> {
        Ok(())
    }

    fn on_step(
        &self,
        _: RelocatedAddress,
        _: Option<PlaceDescriptor>,
        _: Option<&FunctionInfo>,
        _: Option<u32>,
    ) -> anyhow::Result<()> {
        Ok(())
    }

    fn on_async_step(
        &self,
        _: RelocatedAddress,
        _: Option<PlaceDescriptor>,
        _: Option<&FunctionInfo>,
        _: u64,
        _: bool,
    ) -> anyhow::Result<()> {
        Ok(())
    }

    fn on_signal(&self, _: Signal) {}
    fn on_exit(&self, _: i32) {}
    fn on_process_install(&self, _: Pid, _: Option<&object::File>) {}
}

fn spawn(prog: &str, args: &[&str]) -> Child<Installed> {
    let (reader, writer) = os_pipe::pipe().unwrap();
    thread::spawn(move || {
        let mut stream = BufReader::new(reader);
        let mut line = String::new();
        while stream.read_line(&mut line).unwrap_or(0) != 0 {
            line.clear();
        }
    });
    rust::Environment::init(None);
    Child::new(
        prog,
        args.to_vec(),
        None::<&Path>,
        writer.try_clone().unwrap(),
        writer,
    )
    .install()
    .unwrap()
}

const SCRIPT: [&str; 5] = [
    "mark",
    "open:libfirst",
    "mark",
    "call:libfirst:first_work",
    "mark",
];

fn session(dir: &Path, stops: &Stops) -> bugstalker::debugger::Debugger {
    let host = dir.join("host");
    let mut args = vec![dir.to_str().unwrap()];
    args.extend(SCRIPT);
    let process = spawn(host.to_str().unwrap(), &args);
    DebuggerBuilder::new()
        .with_hooks(Hooks(stops.clone()))
        .build(process)
        .unwrap()
}

fn last_func(stops: &Stops) -> Option<String> {
    stops.0.borrow().last().and_then(|s| s.func.clone())
}

#[test]
fn test_breakpoint_in_dlopened_library_survives_restart() {
    let dir = build_fixture();
    let stops = Stops::default();
    let mut dbg = session(&dir, &stops);

    dbg.set_breakpoint_at_fn("marker").unwrap();
    dbg.start_debugee().unwrap(); // marker #1: the library is not loaded yet
    assert_eq!(last_func(&stops).as_deref(), Some("marker"));
    dbg.continue_debugee().unwrap(); // marker #2: the library is loaded
    assert_eq!(last_func(&stops).as_deref(), Some("marker"));

    // a user breakpoint inside the library
    dbg.set_breakpoint_at_fn("first_inner").unwrap();
    dbg.continue_debugee().unwrap();
    assert_eq!(last_func(&stops).as_deref(), Some("first_inner"), "first run");
    let user_bps_before = dbg.breakpoints_snapshot().len();
    assert_eq!(user_bps_before, 2);

    // restart: both user breakpoints must be intact and hit again at the same places
    stops.0.borrow_mut().clear();
    dbg.restart_debugee().unwrap(); // runs to marker #1
    assert_eq!(last_func(&stops).as_deref(), Some("marker"));
    println!("breakpoints after restart: {}", dbg.breakpoints_snapshot().len());
    dbg.continue_debugee().unwrap(); // marker #2
    assert_eq!(last_func(&stops).as_deref(), Some("marker"));
    dbg.continue_debugee().unwrap(); // must be first_inner again
    let funcs: Vec<_> = stops.0.borrow().iter().map(|s| s.func.clone().unwrap_or_default()).collect();
    println!("stops after restart: {funcs:?}");
    assert_eq!(
        last_func(&stops).as_deref(),
        Some("first_inner"),
        "after restart the breakpoint in the dlopen'ed library must hit again; stops: {funcs:?}"
    );
    assert_eq!(dbg.breakpoints_snapshot().len(), user_bps_before, "user breakpoints intact after restart");

    drop(dbg);
    _ = fs::remove_dir_all(&dir);
}
