//! C10 demonstration: a quiet signal (SIGALRM) that arrives while the debugger single-steps must be
//! delivered to the debuggee exactly once.

#[path = "../debugger/common/mod.rs"]
mod common;

use bugstalker::debugger::process::{Child, Installed};
use bugstalker::debugger::{DebuggerBuilder, rust};
use common::{TestHooks, TestInfo};
use nix::sys::signal::{self, Signal};
use std::fs;
use std::io::{BufRead, BufReader};
use std::path::{Path, PathBuf};
use std::process::Command;
use std::thread;
use std::time::{SystemTime, UNIX_EPOCH};

const SOURCE: &str = r#"use std::sync::atomic::{AtomicU32, Ordering};
use std::hint::black_box;

static COUNT: AtomicU32 = AtomicU32::new(0);

extern "C" {
    fn signal(signum: i32, handler: usize) -> usize;
}

extern "C" fn on_alarm(_: i32) {
    COUNT.fetch_add(1, Ordering::SeqCst);
}

#[inline(never)]
fn stop_here() -> u64 {
    black_box(7)
}

fn main() {
    unsafe {
        signal(14, on_alarm as usize);
    }
    let mut x = stop_here();
    for i in 0..1000u64 {
        x = black_box(x + i);
    }
    let out = std::env::args().nth(1).unwrap();
    std::fs::write(out, format!("{} {}", COUNT.load(Ordering::SeqCst), x)).unwrap();
}
"#;

fn build_debugee() -> (PathBuf, PathBuf) {
    let nonce = SystemTime::now().duration_since(UNIX_EPOCH).unwrap().as_nanos();
    let dir = std::env::temp_dir().join(format!("bugstalker-c10-quiet-{nonce}"));
    fs::create_dir_all(&dir).unwrap();
    let src = dir.join("quiet_step.rs");
    fs::write(&src, SOURCE).unwrap();
    let bin = dir.join("quiet_step");
    let status = Command::new("rustc").arg("-g").arg("-o").arg(&bin).arg(&src).status().expect("rustc");
    assert!(status.success());
    (bin, dir.join("count.txt"))
}

fn prepare_debugee_process(prog: &str, args: &[&str]) -> Child<Installed> {
    let (reader, writer) = os_pipe::pipe().unwrap();
    thread::spawn(move || {
        let mut stream = BufReader::new(reader);
        loop {
            let mut line = String::new();
            if stream.read_line(&mut line).unwrap_or(0) == 0 {
                return;
            }
        }
    });
    rust::Environment::init(None);
    let runner = Child::new(prog, args.to_vec(), None::<&Path>, writer.try_clone().unwrap(), writer);
    runner.install().unwrap()
}

#[test]
fn quiet_signal_during_stepi_is_delivered_exactly_once() {
    let (bin, out) = build_debugee();
    let process = prepare_debugee_process(bin.to_str().unwrap(), &[out.to_str().unwrap()]);
    let pid = process.pid();
    let info = TestInfo::default();
    let mut debugger = DebuggerBuilder::new().with_hooks(TestHooks::new(info.clone())).build(process).unwrap();

    debugger.set_breakpoint_at_fn("stop_here").unwrap();
    debugger.start_debugee().unwrap();

    // one SIGALRM is sent while the debuggee is stopped at the breakpoint; it becomes pending
    signal::kill(pid, Signal::SIGALRM).unwrap();
    // the instruction step meets the pending signal (signal-delivery-stop inside single_step)
    debugger.stepi().unwrap();
    debugger.stepi().unwrap();
    // run to the end
    debugger.continue_debugee().unwrap();

    let text = fs::read_to_string(&out).unwrap();
    println!("debuggee wrote: {text}");
    let count: u32 = text.split(' ').next().unwrap().parse().unwrap();
    assert_eq!(count, 1, "one SIGALRM was sent, the handler ran {count} times");
}
