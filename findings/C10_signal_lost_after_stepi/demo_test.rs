//! C10 demonstration: a signal the debugger stopped for must not be lost when the user single-steps at
//! the signal stop and a second signal arrives during that step.

#[path = "../debugger/common/mod.rs"]
mod common;

use bugstalker::debugger::process::{Child, Installed};
use bugstalker::debugger::{DebuggerBuilder, rust};
use common::{TestHooks, TestInfo};
use nix::sys::signal::{self, Signal};
use std::fs;
use std::io::{BufRead, BufReader};
use std::path::{Path, PathBuf};
use std::process::Command;
use std::thread;
use std::time::{SystemTime, UNIX_EPOCH};

const SOURCE: &str = r#"use std::sync::atomic::{AtomicU32, Ordering};
use std::hint::black_box;

static COUNT: AtomicU32 = AtomicU32::new(0);
static COUNT2: AtomicU32 = AtomicU32::new(0);

extern "C" {
    fn signal(signum: i32, handler: usize) -> usize;
}

extern "C" fn on_alarm(_: i32) {
    COUNT.fetch_add(1, Ordering::SeqCst);
}
extern "C" fn on_usr2(_: i32) {
    COUNT2.fetch_add(1, Ordering::SeqCst);
}

#[inline(never)]
fn stop_here() -> u64 {
    black_box(7)
}

fn main() {
    unsafe {
        signal(10, on_alarm as usize);
        signal(12, on_usr2 as usize);
    }
    let mut x = stop_here();
    for i in 0..1000u64 {
        x = black_box(x + i);
    }
    let out = std::env::args().nth(1).unwrap();
    std::fs::write(out, format!("{} {} {}", COUNT.load(Ordering::SeqCst), COUNT2.load(Ordering::SeqCst), x)).unwrap();
}
"#;

fn build_debugee() -> (PathBuf, PathBuf) {
    let nonce = SystemTime::now().duration_since(UNIX_EPOCH).unwrap().as_nanos();
    let dir = std::env::temp_dir().join(format!("bugstalker-c10-stepi-{nonce}"));
    fs::create_dir_all(&dir).unwrap();
    let src = dir.join("quiet_step.rs");
    fs::write(&src, SOURCE).unwrap();
    let bin = dir.join("quiet_step");
    let status = Command::new("rustc").arg("-g").arg("-o").arg(&bin).arg(&src).status().expect("rustc");
    assert!(status.success());
    (bin, dir.join("count.txt"))
}

fn prepare_debugee_process(prog: &str, args: &[&str]) -> Child<Installed> {
    let (reader, writer) = os_pipe::pipe().unwrap();
    thread::spawn(move || {
        let mut stream = BufReader::new(reader);
        loop {
            let mut line = String::new();
            if stream.read_line(&mut line).unwrap_or(0) == 0 {
                return;
            }
        }
    });
    rust::Environment::init(None);
    let runner = Child::new(prog, args.to_vec(), None::<&Path>, writer.try_clone().unwrap(), writer);
    runner.install().unwrap()
}

#[test]
fn signal_stop_then_stepi_with_second_signal_loses_nothing() {
    let (bin, out) = build_debugee();
    let process = prepare_debugee_process(bin.to_str().unwrap(), &[out.to_str().unwrap()]);
    let pid = process.pid();
    let info = TestInfo::default();
    let mut debugger = DebuggerBuilder::new().with_hooks(TestHooks::new(info.clone())).build(process).unwrap();

    debugger.set_breakpoint_at_fn("stop_here").unwrap();
    debugger.start_debugee().unwrap();

    // SIGUSR1 is sent while the debuggee stands at the breakpoint; `continue` stops for it (signal stop)
    signal::kill(pid, Signal::SIGUSR1).unwrap();
    debugger.continue_debugee().unwrap();
    // a second, different signal becomes pending; the user single-steps at the signal stop
    signal::kill(pid, Signal::SIGUSR2).unwrap();
    debugger.stepi().unwrap();
    // run to the end (two continues: one may stop for SIGUSR2)
    let _ = debugger.continue_debugee();
    let _ = debugger.continue_debugee();
    let _ = debugger.continue_debugee();

    let text = fs::read_to_string(&out).unwrap();
    println!("debuggee wrote: {text}");
    let mut it = text.split(' ');
    let usr1: u32 = it.next().unwrap().parse().unwrap();
    let usr2: u32 = it.next().unwrap().parse().unwrap();
    assert_eq!((usr1, usr2), (1, 1), "one SIGUSR1 and one SIGUSR2 were sent; handlers ran {usr1} and {usr2} times");
}
